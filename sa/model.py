"""E0 - source model of /repo (parsed, never imported).

Anchors are addressed by qualified name ("reuse.report.ProjectReport.is_compliant")
or by role; a vanished anchor raises AnalysisError (exit 2), never a silent pass.
"""
from __future__ import annotations

import ast
import hashlib
import os
from pathlib import Path
from typing import Iterator, Optional


class AnalysisError(Exception):
    """The analyser cannot decide (unknown construct / vanished anchor)."""


REPO = Path(os.environ.get("VERIF_REPO", "/repo"))

# child id -> parent node (kept outside the nodes so that deepcopy stays local)
PARENT: dict[int, ast.AST] = {}


def parent_of(node: ast.AST) -> Optional[ast.AST]:
    return PARENT.get(id(node))


def norm(node: ast.AST | str) -> str:
    """Normalised statement/expression text: stable under re-formatting."""
    if isinstance(node, str):
        return ast.unparse(ast.parse(node))
    return ast.unparse(node)


class Module:
    def __init__(self, name: str, path: Path):
        self.name = name
        self.path = path
        self.source = path.read_text(encoding="utf-8")
        try:
            self.tree = ast.parse(self.source, filename=str(path))
        except SyntaxError as err:  # pragma: no cover
            raise AnalysisError(f"cannot parse {path}: {err}") from err
        self.renamed: list = []
        if not os.environ.get("VERIF_NO_CANON"):
            from .canon import canonicalise
            self.tree = canonicalise(self.tree, name, self.renamed)
        for parent in ast.walk(self.tree):
            for child in ast.iter_child_nodes(parent):
                PARENT[id(child)] = parent
        self.is_package = path.name == "__init__.py"
        self.imports: dict[str, str] = {}  # local name -> dotted target
        self._collect_imports()

    @property
    def rel(self) -> str:
        try:
            return str(self.path.relative_to(REPO))
        except ValueError:
            return str(self.path)

    def _collect_imports(self) -> None:
        pkg_parts = self.name.split(".")
        if not self.is_package:
            pkg_parts = pkg_parts[:-1]
        for node in ast.walk(self.tree):
            if isinstance(node, ast.Import):
                for alias in node.names:
                    local = alias.asname or alias.name.split(".")[0]
                    target = alias.name if alias.asname else alias.name.split(".")[0]
                    self.imports[local] = target
            elif isinstance(node, ast.ImportFrom):
                if node.level:
                    base = pkg_parts[: len(pkg_parts) - (node.level - 1)]
                    mod = ".".join(base + ([node.module] if node.module else []))
                else:
                    mod = node.module or ""
                for alias in node.names:
                    self.imports[alias.asname or alias.name] = f"{mod}.{alias.name}"


class Repo:
    """All modules of src/reuse, indexed."""

    def __init__(self, root: Optional[Path] = None):
        self.root = Path(root) if root else REPO
        self.src = self.root / "src"
        pkg = self.src / "reuse"
        if not pkg.is_dir():
            raise AnalysisError(f"{pkg} not found")
        self.modules: dict[str, Module] = {}
        for path in sorted(pkg.rglob("*.py")):
            rel = path.relative_to(self.src).with_suffix("")
            parts = list(rel.parts)
            if parts[-1] == "__init__":
                parts = parts[:-1]
            name = ".".join(parts)
            self.modules[name] = Module(name, path)
        self.functions: dict[str, ast.FunctionDef] = {}
        self.classes: dict[str, ast.ClassDef] = {}
        self.owner: dict[int, Module] = {}
        for mod in self.modules.values():
            self._index(mod, mod.tree, mod.name)

    # -- indexing ---------------------------------------------------------
    def _index(self, mod: Module, node: ast.AST, prefix: str) -> None:
        for child in ast.iter_child_nodes(node):
            if isinstance(child, (ast.FunctionDef, ast.AsyncFunctionDef)):
                q = f"{prefix}.{child.name}"
                # overloads: keep the last definition (the implementation)
                self.functions[q] = child  # type: ignore[assignment]
                self.owner[id(child)] = mod
                self._index(mod, child, q)
            elif isinstance(child, ast.ClassDef):
                q = f"{prefix}.{child.name}"
                self.classes[q] = child
                self.owner[id(child)] = mod
                self._index(mod, child, q)
            elif isinstance(child, (ast.If, ast.Try, ast.With, ast.For, ast.While)):
                self._index(mod, child, prefix)

    # -- anchors ----------------------------------------------------------
    def module(self, name: str) -> Module:
        if name not in self.modules:
            raise AnalysisError(f"anchor vanished: module {name}")
        return self.modules[name]

    def func(self, qual: str) -> ast.FunctionDef:
        if qual not in self.functions:
            raise AnalysisError(f"anchor vanished: function {qual}")
        return self.functions[qual]

    def cls(self, qual: str) -> ast.ClassDef:
        if qual not in self.classes:
            raise AnalysisError(f"anchor vanished: class {qual}")
        return self.classes[qual]

    def has_func(self, qual: str) -> bool:
        return qual in self.functions

    def module_of(self, node: ast.AST) -> Module:
        cur: Optional[ast.AST] = node
        while cur is not None:
            if id(cur) in self.owner:
                return self.owner[id(cur)]
            if isinstance(cur, ast.Module):
                break
            cur = parent_of(cur)
        for mod in self.modules.values():
            if mod.tree is cur:
                return mod
        raise AnalysisError("node without module")

    def qualname_of(self, fn: ast.AST) -> str:
        for q, f in self.functions.items():
            if f is fn:
                return q
        for q, c in self.classes.items():
            if c is fn:
                return q
        return "?"

    def loc(self, node: ast.AST) -> str:
        mod = self.module_of(node)
        return f"{mod.rel}:{getattr(node, 'lineno', 0)}"

    def enclosing_function(self, node: ast.AST) -> Optional[ast.FunctionDef]:
        cur = parent_of(node)
        while cur is not None:
            if isinstance(cur, (ast.FunctionDef, ast.AsyncFunctionDef)):
                return cur  # type: ignore[return-value]
            cur = parent_of(cur)
        return None

    def module_assign(self, mod: str, name: str) -> ast.AST:
        """Value expression of the (last) module-level assignment NAME = ..."""
        found = None
        for st in self.module(mod).tree.body:
            if isinstance(st, ast.Assign):
                for t in st.targets:
                    if isinstance(t, ast.Name) and t.id == name:
                        found = st.value
            elif isinstance(st, ast.AnnAssign) and st.value is not None:
                if isinstance(st.target, ast.Name) and st.target.id == name:
                    found = st.value
        if found is None:
            raise AnalysisError(f"anchor vanished: {mod}.{name}")
        return found

    def resolve_name(self, mod: Module, name: str) -> str:
        """Dotted target of a local name in *mod* (imports, module-level defs)."""
        if name in mod.imports:
            return mod.imports[name]
        return f"{mod.name}.{name}"

    def dotted(self, mod: Module, expr: ast.AST) -> Optional[str]:
        """Resolve `a.b.c` through the import table to a dotted name."""
        parts = []
        cur = expr
        while isinstance(cur, ast.Attribute):
            parts.append(cur.attr)
            cur = cur.value
        if not isinstance(cur, ast.Name):
            return None
        base = self.resolve_name(mod, cur.id)
        return ".".join([base] + list(reversed(parts)))

    def digest(self) -> str:
        h = hashlib.sha256()
        for name in sorted(self.modules):
            h.update(name.encode())
            h.update(self.modules[name].source.encode("utf-8"))
        for extra in sorted((self.src / "reuse").rglob("*.jinja2")):
            h.update(extra.read_bytes())
        return h.hexdigest()

    # -- commands -------------------------------------------------------------
    def commands(self) -> dict[str, ast.FunctionDef]:
        """Functions decorated with @main.command(name=...) -> by CLI name."""
        out: dict[str, ast.FunctionDef] = {}
        for q, fn in self.functions.items():
            for dec in fn.decorator_list:
                if (
                    isinstance(dec, ast.Call)
                    and isinstance(dec.func, ast.Attribute)
                    and dec.func.attr == "command"
                ):
                    name = None
                    for kw in dec.keywords:
                        if kw.arg == "name" and isinstance(kw.value, ast.Constant):
                            name = kw.value.value
                    out[name or fn.name] = fn
        return out


def walk_no_nested(node: ast.AST) -> Iterator[ast.AST]:
    """ast.walk that does not descend into nested function/class definitions."""
    stack = [node]
    first = True
    while stack:
        cur = stack.pop()
        if not first and isinstance(
            cur, (ast.FunctionDef, ast.AsyncFunctionDef, ast.ClassDef, ast.Lambda)
        ):
            continue
        first = False
        yield cur
        stack.extend(reversed(list(ast.iter_child_nodes(cur))))


def calls_in(node: ast.AST) -> list[ast.Call]:
    return [n for n in walk_no_nested(node) if isinstance(n, ast.Call)]


def call_name(call: ast.Call) -> str:
    """Syntactic callee text: `a.b.c` or `name`."""
    return ast.unparse(call.func)


def _callee_params(call: ast.Call) -> Optional[list[str]]:
    """Declared parameters (without self/cls) of the callee, when the callee is certainly a package function:
    a plain name or a self./cls. method whose name is defined exactly once in the package (same rule as canon K8)."""
    from .canon import _package_defs
    if isinstance(call.func, ast.Name):
        name, via_obj = call.func.id, False
    elif isinstance(call.func, ast.Attribute) and isinstance(call.func.value, ast.Name) and call.func.value.id in ("self", "cls"):
        name, via_obj = call.func.attr, True
    else:
        return None
    ent = _package_defs().get(name)
    if ent is None or ent[1] != via_obj:
        return None
    return ent[0]


def order_index(fn: ast.AST) -> dict[int, int]:
    """id(node) -> position in a depth-first POST-order walk of fn in source order: an expression's operands come
    before the expression itself, earlier statements before later ones - the execution order of straight-line code.
    Positions, unlike line numbers, stay meaningful when code was substituted in from another place (canon K9)."""
    out: dict[int, int] = {}
    counter = [0]

    def rec(n):
        for c in ast.iter_child_nodes(n):
            rec(c)
        if not isinstance(n, (ast.expr_context, ast.operator, ast.cmpop, ast.boolop, ast.unaryop)):
            out[id(n)] = counter[0]
            counter[0] += 1

    rec(fn)
    return out


def kwarg(call: ast.Call, name: str) -> Optional[ast.AST]:
    """The argument bound to parameter *name*: by keyword, or - for a certain package callee - by position."""
    for kw in call.keywords:
        if kw.arg == name:
            return kw.value
    params = _callee_params(call)
    if params and name in params:
        i = params.index(name)
        if i < len(call.args) and not any(isinstance(a, ast.Starred) for a in call.args[: i + 1]):
            return call.args[i]
    return None


def named_args(call: ast.Call) -> dict[str, ast.AST]:
    """parameter name -> argument node, for keywords and (certain package callees) positional arguments."""
    out: dict[str, ast.AST] = {}
    params = _callee_params(call)
    if params:
        for i, a in enumerate(call.args):
            if isinstance(a, ast.Starred):
                break
            if i < len(params):
                out[params[i]] = a
    for kw in call.keywords:
        if kw.arg:
            out[kw.arg] = kw.value
    return out
