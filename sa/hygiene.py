"""E10 - Python-semantics hygiene on the functions a property's behaviour passes through.

Ten exact lints, each of which names a construct whose behaviour differs between the first and a later use - the kind
of fault that a test which exercises a function once cannot see:

  H1  a mutable default argument (or a function attribute / module-level container bound once) that the function
      mutates in place: the object is created once, so what one call put in is still there in the next call;
  H2  a single-pass iterator (generator expression, map/filter/zip/iter/reversed, os.walk/scandir/iglob, Path.iterdir/
      glob/rglob, a generator function of the package) bound to a local and consumed at more than one site that can
      execute in the same run (or at one site inside a loop that does not rebind it): the second pass is silently empty;
  H4  a `re.` flag constant in the positional `count` / `maxsplit` slot of re.sub / re.subn / re.split (or of the
      compiled pattern's methods): its integer value silently limits the number of substitutions;
  H5  a comprehension clause whose iterable reads a name that only a later clause binds (clauses swapped): the name is
      resolved outside the comprehension - to a leaked loop variable, i.e. to the last element only;
  H6  an element of a list / tuple / set display written as several adjacent string literals (a missing comma glues two
      table entries into one) - checked on the raw source of the modules the scoped functions live in;
  H7  two members of one Enum class bound to the same constant (the second becomes an alias of the first);
  H8  a click option whose kind (flag / multiple / plain) disagrees with the annotation of the parameter it fills - hidden
      aliases included;
  H9  text-mode file I/O (open / read_text / write_text) without an explicit encoding: the locale decides;
  H10 a class-level table attribute that is a list / tuple in its sibling classes and a plain string in one (a one-element
      tuple without its comma);
  H3  a lambda / nested function created in a loop that reads the loop variable as a free variable and is STORED
      (appended, assigned to a container or attribute, returned, yielded) instead of being called in the same iteration:
      every stored closure sees the last value of the variable.

None of these fires on a behaviour-preserving edit: a default that is never mutated, an iterator consumed once, a closure
called at once or binding the variable as a default (`lambda x=x: ...`) are all left alone.
"""
from __future__ import annotations

import ast
from typing import Iterable, Optional

from .fresh import MUTATORS
from .model import Repo

ONE_SHOT_BUILTINS = {"map", "filter", "zip", "iter", "reversed", "enumerate"}
ONE_SHOT_DOTTED = {"os.walk", "os.scandir", "glob.iglob", "itertools.chain", "chain", "itertools.groupby", "groupby",
                   "itertools.islice", "islice", "chain.from_iterable", "itertools.chain.from_iterable", "re.finditer"}
ONE_SHOT_METHODS = {"iterdir", "glob", "rglob", "finditer", "walk"}
MATERIALISERS = {"list", "set", "tuple", "sorted", "frozenset", "dict", "sum", "min", "max", "any", "all", "next", "join", "Counter",
                 "deque", "len"}
IMMEDIATE_CALLERS = {"sorted", "min", "max", "sort", "any", "all", "list", "set", "tuple", "sum", "next", "filter", "map", "groupby",
                     "defaultdict", "sub", "field", "option", "argument"}


def _own_nodes(fn: ast.AST) -> Iterable[ast.AST]:
    """Nodes of fn without those of nested function/class definitions (lambdas and comprehensions included)."""
    todo = list(ast.iter_child_nodes(fn))
    while todo:
        n = todo.pop()
        yield n
        if isinstance(n, (ast.FunctionDef, ast.AsyncFunctionDef, ast.ClassDef)):
            continue
        todo.extend(ast.iter_child_nodes(n))


def _parents(fn: ast.AST) -> dict[int, ast.AST]:
    out: dict[int, ast.AST] = {}
    for n in ast.walk(fn):
        for c in ast.iter_child_nodes(n):
            out[id(c)] = n
    return out


# ------------------------------------------------------------------------------------------------------------ H1
def mutable_defaults(fn: ast.FunctionDef) -> list[tuple[ast.AST, str, str]]:
    """(node, parameter, what) for every in-place mutation of a parameter whose default is a mutable object."""
    a = fn.args
    pos = a.posonlyargs + a.args
    pairs = list(zip(pos[len(pos) - len(a.defaults):], a.defaults)) + [(p, d) for p, d in zip(a.kwonlyargs, a.kw_defaults) if d is not None]
    mutable = {}
    for p, d in pairs:
        if isinstance(d, (ast.List, ast.Dict, ast.Set, ast.ListComp, ast.DictComp, ast.SetComp)):
            mutable[p.arg] = ast.unparse(d)
        elif isinstance(d, ast.Call) and ast.unparse(d.func).split(".")[-1] in ("list", "dict", "set", "defaultdict", "Counter", "deque", "OrderedDict", "bytearray"):
            mutable[p.arg] = ast.unparse(d)
    if not mutable:
        return []
    # a parameter that is rebound before any use (`x = list(x)`, `x = x or []`) is a fresh object from there on: only
    # the classic form is reported, where the name is never assigned in the body
    rebound = {t.id for n in _own_nodes(fn) if isinstance(n, (ast.Assign, ast.AnnAssign, ast.AugAssign))
               for t in (n.targets if isinstance(n, ast.Assign) else [n.target]) if isinstance(t, ast.Name)}
    out = []
    for n in _own_nodes(fn):
        if isinstance(n, ast.Call) and isinstance(n.func, ast.Attribute) and isinstance(n.func.value, ast.Name) \
                and n.func.value.id in mutable and n.func.value.id not in rebound and n.func.attr in MUTATORS:
            out.append((n, n.func.value.id, f"{n.func.value.id}.{n.func.attr}(…) on the default {mutable[n.func.value.id]}"))
        elif isinstance(n, (ast.Assign, ast.AugAssign, ast.Delete)):
            tg = n.targets if isinstance(n, (ast.Assign, ast.Delete)) else [n.target]
            for t in tg:
                if isinstance(t, ast.Subscript) and isinstance(t.value, ast.Name) and t.value.id in mutable and t.value.id not in rebound:
                    out.append((n, t.value.id, f"{t.value.id}[…] stored into the default {mutable[t.value.id]}"))
                elif isinstance(n, ast.AugAssign) and isinstance(t, ast.Name) and t.id in mutable:
                    out.append((n, t.id, f"{t.id} {type(n.op).__name__}= … on the default {mutable[t.id]}"))
    return out


# ------------------------------------------------------------------------------------------------------------ H2
def _is_one_shot(expr: ast.AST, generators: set[str]) -> Optional[str]:
    if isinstance(expr, ast.GeneratorExp):
        return "a generator expression"
    if isinstance(expr, ast.Call):
        name = ast.unparse(expr.func)
        last = name.split(".")[-1]
        if name in ONE_SHOT_BUILTINS or name in ONE_SHOT_DOTTED:
            return f"{name}(…)"
        if isinstance(expr.func, ast.Attribute) and last in ONE_SHOT_METHODS:
            return f".{last}(…)"
        if last in generators:
            return f"the generator {last}(…)"
    return None


def _consumptions(fn: ast.AST, name: str, parents: dict[int, ast.AST]) -> list[tuple[ast.AST, str]]:
    """Sites of fn where the iterator bound to *name* is advanced."""
    out = []
    for n in _own_nodes(fn):
        if not (isinstance(n, ast.Name) and n.id == name and isinstance(n.ctx, ast.Load)):
            continue
        p = parents.get(id(n))
        if isinstance(p, (ast.For, ast.AsyncFor)) and p.iter is n:
            out.append((p, "for-loop"))
        elif isinstance(p, ast.comprehension) and p.iter is n:
            out.append((p, "comprehension"))
        elif isinstance(p, ast.Call) and n in p.args:
            out.append((p, f"{ast.unparse(p.func)}(…)"))
        elif isinstance(p, ast.keyword):
            out.append((p, "keyword argument"))
        elif isinstance(p, ast.Compare) and n in p.comparators and isinstance(p.ops[0], (ast.In, ast.NotIn)):
            out.append((p, "membership test"))
        elif isinstance(p, ast.Starred):
            out.append((p, "unpacking"))
        elif isinstance(p, (ast.Return, ast.Yield, ast.YieldFrom)):
            out.append((p, "handed out"))
        elif isinstance(p, (ast.Tuple, ast.List)) and isinstance(parents.get(id(p)), (ast.Return, ast.Assign)):
            out.append((p, "handed out"))
    return out


def _branch_path(node: ast.AST, parents: dict[int, ast.AST], stop: ast.AST) -> list[tuple[int, str]]:
    """[(id(if-node), 'body'|'orelse'), …] from the function down to node."""
    path = []
    cur = node
    while cur is not stop and id(cur) in parents:
        p = parents[id(cur)]
        if isinstance(p, ast.If):
            path.append((id(p), "body" if any(cur is s for s in p.body) else ("orelse" if any(cur is s for s in p.orelse) else "test")))
        elif isinstance(p, ast.Try):
            for label in ("body", "handlers", "orelse", "finalbody"):
                if any(cur is s for s in getattr(p, label)):
                    if label == "handlers":
                        path.append((id(p), f"handler{[id(h) for h in p.handlers].index(id(cur))}"))
        elif isinstance(p, ast.IfExp):
            path.append((id(p), "body" if cur is p.body else ("orelse" if cur is p.orelse else "test")))
        cur = p
    return path


def _exclusive(a: ast.AST, b: ast.AST, parents, fn) -> bool:
    pa, pb = dict(_branch_path(a, parents, fn)), dict(_branch_path(b, parents, fn))
    for k, va in pa.items():
        vb = pb.get(k)
        if vb is not None and va != vb and "test" not in (va, vb):
            return True
    return False


def _ends_flow(site: ast.AST, parents, fn) -> bool:
    """The statement list that holds *site* leaves the function right after it (return/raise/continue/break follows)."""
    cur = site
    while id(cur) in parents and not isinstance(cur, ast.stmt):
        cur = parents[id(cur)]
    if isinstance(cur, (ast.Return, ast.Raise)):
        return True
    p = parents.get(id(cur))
    for label in ("body", "orelse", "finalbody"):
        seq = getattr(p, label, None)
        if isinstance(seq, list) and any(cur is s for s in seq):
            i = [id(s) for s in seq].index(id(cur))
            return any(isinstance(s, (ast.Return, ast.Raise, ast.Continue, ast.Break)) for s in seq[i + 1:i + 3])
    return False


def _loop_around(site: ast.AST, binding: ast.AST, parents) -> Optional[ast.AST]:
    """A loop that contains the consumption site but not the binding: the site runs again without a fresh iterator."""
    cur = site
    anc_b = set()
    c2 = binding
    while id(c2) in parents:
        c2 = parents[id(c2)]
        anc_b.add(id(c2))
    first = True
    while id(cur) in parents:
        p = parents[id(cur)]
        if isinstance(p, (ast.For, ast.AsyncFor, ast.While)) and id(p) not in anc_b:
            # the loop's own iterable is evaluated once: a site that IS the iter expression does not repeat
            if not (isinstance(p, (ast.For, ast.AsyncFor)) and (cur is p.iter)):
                if not (first and isinstance(site, (ast.For, ast.AsyncFor)) and site is p):
                    return p
        if isinstance(p, ast.comprehension):
            pass
        cur = p
        first = False
    return None


def exhausted_iterators(fn: ast.FunctionDef, generators: set[str]) -> list[tuple[ast.AST, str, str]]:
    parents = _parents(fn)
    out = []
    binds: dict[str, list[ast.Assign]] = {}
    for n in _own_nodes(fn):
        if isinstance(n, ast.Assign) and len(n.targets) == 1 and isinstance(n.targets[0], ast.Name):
            binds.setdefault(n.targets[0].id, []).append(n)
        elif isinstance(n, (ast.AugAssign, ast.AnnAssign, ast.NamedExpr)) and isinstance(n.target, ast.Name):
            binds.setdefault(n.target.id, []).append(None)  # type: ignore[arg-type]
        elif isinstance(n, (ast.For, ast.comprehension)):
            for t in ast.walk(n.target):
                if isinstance(t, ast.Name):
                    binds.setdefault(t.id, []).append(None)  # type: ignore[arg-type]
    for name, assigns in binds.items():
        if len(assigns) != 1 or assigns[0] is None:
            continue
        kind = _is_one_shot(assigns[0].value, generators)
        if kind is None:
            continue
        sites = _consumptions(fn, name, parents)
        live = [s for s in sites]
        # (a) two sites that can run in the same call
        hit = None
        for i in range(len(live)):
            for j in range(i + 1, len(live)):
                a, b = live[i][0], live[j][0]
                if _exclusive(a, b, parents, fn):
                    continue
                first, second = (a, b) if getattr(a, "lineno", 0) <= getattr(b, "lineno", 0) else (b, a)
                if _ends_flow(first, parents, fn) and _exclusive_after(first, second, parents):
                    continue
                hit = (second, f"`{name}` is {kind}: consumed by {live[i][1]} and again by {live[j][1]}")
                break
            if hit:
                break
        # (b) one site inside a loop that does not rebind the iterator
        if not hit:
            for s, what in live:
                lp = _loop_around(s, assigns[0], parents)
                if lp is not None:
                    hit = (s, f"`{name}` is {kind}, bound once before the loop at line {getattr(lp, 'lineno', 0)} and consumed by {what} on every pass")
                    break
        if hit:
            out.append((hit[0], name, hit[1]))
    return out


def _exclusive_after(first: ast.AST, second: ast.AST, parents) -> bool:
    """first sits in a branch that ends the flow (return/raise directly after it) and second is outside that branch."""
    cur = first
    while id(cur) in parents:
        p = parents[id(cur)]
        if isinstance(p, (ast.If, ast.Try, ast.For, ast.While, ast.With)):
            inside = any(second is x for x in ast.walk(p))
            return not inside
        cur = p
    return False


# ------------------------------------------------------------------------------------------------------------ H3
def late_binding(fn: ast.FunctionDef) -> list[tuple[ast.AST, str, str]]:
    parents = _parents(fn)
    out = []
    for loop in [n for n in _own_nodes(fn) if isinstance(n, (ast.For, ast.AsyncFor))]:
        targets = {t.id for t in ast.walk(loop.target) if isinstance(t, ast.Name)}
        for n in ast.walk(loop):
            if n is loop or not isinstance(n, (ast.Lambda, ast.FunctionDef)):
                continue
            if not any(n is x for st in loop.body for x in ast.walk(st)):
                continue
            a = n.args
            own = {x.arg for x in a.posonlyargs + a.args + a.kwonlyargs} | ({a.vararg.arg} if a.vararg else set()) | ({a.kwarg.arg} if a.kwarg else set())
            body = n.body if isinstance(n.body, list) else [n.body]
            assigned = {t.id for st in body for x in ast.walk(st) if isinstance(x, (ast.Assign, ast.For, ast.comprehension))
                        for t in ast.walk(x.targets[0] if isinstance(x, ast.Assign) else x.target) if isinstance(t, ast.Name)}
            free = {x.id for st in body for x in ast.walk(st) if isinstance(x, ast.Name) and isinstance(x.ctx, ast.Load)} - own - assigned
            captured = sorted(free & targets)
            if not captured:
                continue
            # stored or called at once?
            stored = None
            if isinstance(n, ast.FunctionDef):
                # a nested def: stored when its name is appended / assigned / returned inside the loop
                for x in ast.walk(loop):
                    if isinstance(x, ast.Name) and x.id == n.name and isinstance(x.ctx, ast.Load):
                        p = parents.get(id(x))
                        if isinstance(p, ast.Call) and p.func is x:
                            continue
                        if isinstance(p, ast.Call) and isinstance(p.func, ast.Attribute) and p.func.attr in ("append", "add", "setdefault", "insert", "extend"):
                            stored = p
                        elif isinstance(p, (ast.Assign, ast.Return, ast.Yield, ast.Dict, ast.keyword)):
                            stored = p
            else:
                p = parents.get(id(n))
                if isinstance(p, ast.keyword):
                    p = parents.get(id(p))
                if isinstance(p, ast.Call):
                    fname = ast.unparse(p.func).split(".")[-1]
                    if fname in ("append", "add", "setdefault", "insert", "extend", "partial"):
                        stored = p
                    elif fname in IMMEDIATE_CALLERS:
                        # lazy wrappers are stored only when their result is
                        if fname in ("map", "filter"):
                            pp = parents.get(id(p))
                            if not (isinstance(pp, ast.Call) and ast.unparse(pp.func).split(".")[-1] in MATERIALISERS) \
                                    and not isinstance(pp, (ast.For, ast.comprehension)):
                                stored = p
                    elif p.func is n:
                        stored = None
                elif isinstance(p, (ast.Assign, ast.AnnAssign)):
                    tg = p.targets if isinstance(p, ast.Assign) else [p.target]
                    if any(isinstance(t, (ast.Subscript, ast.Attribute)) for t in tg):
                        stored = p
                elif isinstance(p, (ast.Dict, ast.List, ast.Tuple, ast.Set, ast.Return, ast.Yield)):
                    stored = p
            if stored is not None:
                out.append((n, ",".join(captured), f"closure created in the loop over `{ast.unparse(loop.target)}` reads `{', '.join(captured)}` when it is"
                                                  f" called, not when it is created, and it is stored ({ast.unparse(stored)[:60]})"))
    return out


# ------------------------------------------------------------------------------------------------------------ H4
def flag_in_count_position(fn: ast.AST) -> list[tuple[ast.AST, str, str]]:
    """re.sub(p, r, s, re.X) / re.split(p, s, re.X) / pattern.sub(r, s, re.X): the positional parameter after the subject is
    `count` / `maxsplit`; a flag constant there is silently taken as a number (re.DOTALL == 16, re.MULTILINE == 8)."""
    out = []

    def is_flag(e: ast.AST) -> bool:
        if isinstance(e, ast.BinOp) and isinstance(e.op, ast.BitOr):
            return is_flag(e.left) and is_flag(e.right)
        return isinstance(e, ast.Attribute) and isinstance(e.value, ast.Name) and e.value.id == "re" and e.attr.isupper()

    for c in _own_nodes(fn):
        if not (isinstance(c, ast.Call) and isinstance(c.func, ast.Attribute)):
            continue
        via_module = isinstance(c.func.value, ast.Name) and c.func.value.id == "re"
        pos = {"sub": 3, "subn": 3, "split": 2}.get(c.func.attr)
        if pos is None:
            continue
        if not via_module:
            pos -= 1
        if len(c.args) > pos and is_flag(c.args[pos]):
            out.append((c, c.func.attr, f"`{ast.unparse(c)[:80]}`: `{ast.unparse(c.args[pos])}` is in the {'count' if c.func.attr != 'split' else 'maxsplit'} position"))
    return out


# ------------------------------------------------------------------------------------------------------------ H5
def clause_order(fn: ast.AST) -> list[tuple[ast.AST, str, str]]:
    """A comprehension clause whose iterable reads a name that only a LATER clause of the same comprehension binds: the name
    is looked up outside the comprehension (a leaked loop variable of the same name, or a NameError)."""
    out = []
    for c in _own_nodes(fn):
        if not isinstance(c, (ast.ListComp, ast.SetComp, ast.DictComp, ast.GeneratorExp)):
            continue
        gens = c.generators
        for i, g in enumerate(gens):
            used = {n.id for n in ast.walk(g.iter) if isinstance(n, ast.Name) and isinstance(n.ctx, ast.Load)}
            earlier = {t.id for h in gens[:i + 1] for t in ast.walk(h.target) if isinstance(t, ast.Name)} if i else set()
            for j in range(i + 1, len(gens)):
                later = {t.id for t in ast.walk(gens[j].target) if isinstance(t, ast.Name)}
                hit = sorted((used & later) - earlier)
                if hit:
                    out.append((c, hit[0], f"`for {ast.unparse(g.target)} in {ast.unparse(g.iter)[:50]}` reads `{hit[0]}`, which is bound by the later clause"
                                             f" `for {ast.unparse(gens[j].target)} in {ast.unparse(gens[j].iter)[:40]}`"))
                    break
    return out


# ------------------------------------------------------------------------------------------------------------ H6
def implicit_concatenation(src: str, tree: ast.AST) -> list[tuple[ast.AST, str, str]]:
    """An element of a list / tuple / set display (two or more elements) that consists of SEVERAL string literals: the
    comma between two entries of a table is missing and Python glued them into one string."""
    import io
    import tokenize
    out = []
    for n in ast.walk(tree):
        if isinstance(n, (ast.List, ast.Tuple, ast.Set)) and len(n.elts) >= 2:
            for e in n.elts:
                if isinstance(e, ast.Constant) and isinstance(e.value, str):
                    seg = ast.get_source_segment(src, e)
                    if seg is None:
                        continue
                    try:
                        toks = [t for t in tokenize.generate_tokens(io.StringIO("(" + seg + ")").readline) if t.type == tokenize.STRING]
                    except (tokenize.TokenError, IndentationError, SyntaxError):
                        continue
                    if len(toks) >= 2:
                        out.append((e, "", f"the element {e.value!r} of the {type(n).__name__.lower()} at line {n.lineno} is written as {len(toks)} adjacent"
                                           f" string literals ({', '.join(t.string for t in toks[:3])}): a comma is missing between two entries"))
    return out


# ------------------------------------------------------------------------------------------------------------ H7
def enum_aliases(tree: ast.AST) -> list[tuple[ast.AST, str, str]]:
    """Two members of one Enum class bound to the same constant: the second is an ALIAS of the first (same object, same
    .name and .value), so the enum has one kind fewer than it declares."""
    out = []
    for c in ast.walk(tree):
        if not (isinstance(c, ast.ClassDef) and any(ast.unparse(b).split(".")[-1] in ("Enum", "IntEnum", "StrEnum", "Flag", "IntFlag") for b in c.bases)):
            continue
        seen: dict = {}
        for st in c.body:
            if isinstance(st, ast.Assign) and len(st.targets) == 1 and isinstance(st.targets[0], ast.Name) and isinstance(st.value, ast.Constant):
                key = (type(st.value.value).__name__, st.value.value)
                if key in seen:
                    out.append((st, st.targets[0].id, f"{c.name}.{st.targets[0].id} = {st.value.value!r} has the value of {c.name}.{seen[key]}: it is an alias,"
                                                      f" `{c.name}.{st.targets[0].id}.name` is '{seen[key]}'"))
                else:
                    seen[key] = st.targets[0].id
    return out


# ------------------------------------------------------------------------------------------------------------ H8
def click_declarations(fn: ast.FunctionDef) -> list[tuple[ast.AST, str, str]]:
    """A click option and the annotated parameter it fills must agree in kind: a `bool` parameter needs a flag option
    (is_flag / flag_value / type=bool), a Sequence / Collection / tuple / list parameter needs multiple=True or nargs=-1,
    anything else needs neither.  Every option that shares a destination (hidden aliases) must agree as well."""
    out = []
    ann = {a.arg: ast.unparse(a.annotation) for a in fn.args.args + fn.args.kwonlyargs if a.annotation is not None}
    for d in fn.decorator_list:
        if not (isinstance(d, ast.Call) and isinstance(d.func, ast.Attribute) and d.func.attr in ("option", "argument")):
            continue
        names = [a.value for a in d.args if isinstance(a, ast.Constant) and isinstance(a.value, str)]
        if not names:
            continue
        dest = next((x for x in names if not x.startswith("-")), None)
        if dest is None:
            longs = [x for x in names if x.startswith("--")]
            dest = (max(longs, key=len) if longs else names[0]).lstrip("-").replace("-", "_")
        kws = {k.arg: k.value for k in d.keywords if k.arg}
        is_flag = ("is_flag" in kws and ast.unparse(kws["is_flag"]) == "True") or "flag_value" in kws or \
            ("type" in kws and ast.unparse(kws["type"]) in ("bool", "click.BOOL")) or "count" in kws
        many = ("multiple" in kws and ast.unparse(kws["multiple"]) == "True") or ("nargs" in kws and ast.unparse(kws["nargs"]) == "-1")
        t = ann.get(dest)
        if t is None:
            continue
        core = t
        while core.startswith("Optional[") and core.endswith("]"):
            core = core[len("Optional["):-1]
        want_flag = core == "bool"
        want_many = core.split("[")[0].split(".")[-1] in ("Sequence", "Collection", "Iterable", "list", "List", "tuple", "Tuple", "set", "Set", "frozenset")
        if want_flag and not is_flag:
            out.append((d, dest, f"option {names[0]} fills the bool parameter `{dest}` but is not declared as a flag: it consumes the NEXT"
                                 f" command-line token as its value (`{names[0]} --other-option` is a usage error, `{names[0]} file` eats the file)"))
        elif is_flag and not want_flag:
            out.append((d, dest, f"option {names[0]} is a flag but the parameter `{dest}` is annotated {t}"))
        if want_many and not many:
            out.append((d, dest, f"option {names[0]} fills `{dest}: {t}` but is declared without multiple=True / nargs=-1: the parameter is ONE"
                                 f" string, and iterating it yields its characters"))
        elif many and not want_many and not want_flag:
            out.append((d, dest, f"option {names[0]} is declared multiple / nargs=-1 but the parameter `{dest}` is annotated {t}"))
    return out


# ------------------------------------------------------------------------------------------------------------ H9
def _is_path_value(fn: ast.AST, recv: Optional[ast.AST]) -> bool:
    """Is the receiver of a bare `.open()` a pathlib path (bound from Path(...) / annotated as a path) rather than a lazily
    opened click file?"""
    if recv is None:
        return False
    if isinstance(recv, ast.Call) and ast.unparse(recv.func) in ("Path", "PurePath", "pathlib.Path"):
        return True
    if isinstance(recv, ast.BinOp) and isinstance(recv.op, ast.Div):
        return True
    if isinstance(recv, ast.Name):
        for n in ast.walk(fn):
            if isinstance(n, ast.Assign) and any(isinstance(t, ast.Name) and t.id == recv.id for t in n.targets) \
                    and isinstance(n.value, ast.Call) and ast.unparse(n.value.func) in ("Path", "PurePath", "pathlib.Path"):
                return True
            if isinstance(n, ast.arg) and n.arg == recv.id and n.annotation is not None and ast.unparse(n.annotation) in ("Path", "StrPath", "pathlib.Path", "PurePath"):
                return True
    return False


def implicit_text_encoding(fn: ast.AST) -> list[tuple[ast.AST, str, str]]:
    """Text-mode file I/O without an explicit encoding uses the LOCALE's encoding: what one command writes (or reads) then
    depends on LANG / LC_ALL, while every reader of the package opens the same files as UTF-8."""
    out = []
    for c in _own_nodes(fn):
        if not isinstance(c, ast.Call):
            continue
        name = ast.unparse(c.func)
        last = name.split(".")[-1]
        if any(kw.arg == "encoding" for kw in c.keywords):
            continue
        if last in ("read_text", "write_text"):
            if last == "read_text" and c.args or last == "write_text" and len(c.args) >= 2:
                continue   # encoding given positionally
            out.append((c, last, f"`{ast.unparse(c)[:70]}` names no encoding"))
        elif name in ("open", "io.open", "codecs.open") or (last == "open" and (c.args or any(kw.arg == "mode" for kw in c.keywords)
                                                                                 or _is_path_value(fn, c.func.value if isinstance(c.func, ast.Attribute) else None))):
            args = c.args[1:] if name in ("open", "io.open", "codecs.open") else c.args
            mode = args[0] if args else next((kw.value for kw in c.keywords if kw.arg == "mode"), None)
            mtxt = mode.value if isinstance(mode, ast.Constant) and isinstance(mode.value, str) else ("r" if mode is None else None)
            if mtxt is None or "b" in mtxt:
                continue
            if name not in ("open", "io.open", "codecs.open") and len(args) >= 3:
                continue
            out.append((c, "open", f"`{ast.unparse(c)[:70]}` opens a text file without naming an encoding"))
    return out


# ------------------------------------------------------------------------------------------------------------ H11 / H12
def unbound_after_swallow(fn: ast.FunctionDef) -> list[tuple[ast.AST, str, str]]:
    """H11: a name bound only inside a `try` body, a handler of that try that can complete normally without binding it,
    and a read of the name after the try statement: on the handled path the read raises UnboundLocalError."""
    out = []
    params = {a.arg for a in fn.args.args + fn.args.kwonlyargs + fn.args.posonlyargs}
    if fn.args.vararg:
        params.add(fn.args.vararg.arg)
    if fn.args.kwarg:
        params.add(fn.args.kwarg.arg)

    def bound_names(stmts) -> set[str]:
        names = set()
        for st in stmts:
            for n in ast.walk(st):
                if isinstance(n, ast.Name) and isinstance(n.ctx, ast.Store):
                    names.add(n.id)
                elif isinstance(n, (ast.FunctionDef, ast.ClassDef)):
                    names.add(n.name)
                elif isinstance(n, ast.alias):
                    names.add((n.asname or n.name).split(".")[0])
        return names

    def completes(stmts) -> bool:
        if not stmts:
            return True
        last = stmts[-1]
        if isinstance(last, (ast.Raise, ast.Return, ast.Continue, ast.Break)):
            return False
        if isinstance(last, ast.If) and last.orelse:
            return completes(last.body) or completes(last.orelse)
        if isinstance(last, ast.Expr) and isinstance(last.value, ast.Call) and ast.unparse(last.value.func) in ("sys.exit", "ctx.exit", "exit", "os._exit"):
            return False
        return True

    def visit(block: list, before: set[str]):
        seen = set(before)
        for i, st in enumerate(block):
            if isinstance(st, ast.Try):
                body_names = bound_names(st.body) - seen
                for h in st.handlers:
                    if not completes(h.body):
                        continue
                    missing = body_names - bound_names(h.body) - ({h.name} if h.name else set())
                    if not missing:
                        continue
                    # names bound by finally / else do not help on the handler path (else is skipped)
                    missing -= bound_names(st.finalbody)
                    later = block[i + 1:]
                    for name in sorted(missing):
                        reads = [n for l in later for n in ast.walk(l) if isinstance(n, ast.Name) and n.id == name and isinstance(n.ctx, ast.Load)]
                        rebinds_first = False
                        if reads:
                            first = min(reads, key=lambda n: (n.lineno, n.col_offset))
                            rebinds_first = any(isinstance(n, ast.Name) and n.id == name and isinstance(n.ctx, ast.Store)
                                                and (n.lineno, n.col_offset) < (first.lineno, first.col_offset)
                                                for l in later for n in ast.walk(l))
                        if reads and not rebinds_first:
                            out.append((h, name, f"`{name}` is bound only in the try body at line {st.lineno}; the handler `except "
                                                 f"{ast.unparse(h.type) if h.type else ''}` completes without binding it and `{name}` is read at line {first.lineno}"))
            # recurse into compound statements with the names seen so far
            for fld in ("body", "orelse", "finalbody"):
                sub = getattr(st, fld, None)
                if isinstance(sub, list) and sub and isinstance(sub[0], ast.stmt) and not isinstance(st, (ast.FunctionDef, ast.AsyncFunctionDef, ast.ClassDef)):
                    visit(sub, seen)
            if isinstance(st, ast.Try):
                for h in st.handlers:
                    visit(h.body, seen)
            seen |= bound_names([st])

    visit(fn.body, params)
    return out


def empty_consequence(fn: ast.AST) -> list[tuple[ast.AST, str, str]]:
    """H12: `if TEST: pass` without an else branch (also `elif`), where TEST has no call that could be wanted for its effect -
    a check whose result is not used: the consequence (a raise, a return, a skip) has been removed."""
    out = []
    for n in _own_nodes(fn):
        if isinstance(n, ast.If) and not n.orelse and len(n.body) == 1 and isinstance(n.body[0], ast.Pass):
            out.append((n, "", f"`if {ast.unparse(n.test)[:70]}: pass` - the test is evaluated and nothing follows from it"))
    return out


# ------------------------------------------------------------------------------------------------------------ H10
def sibling_attribute_kinds(repo: Repo) -> list[tuple[ast.AST, str, str]]:
    """A class-level data attribute that is a list / tuple in most classes that define it and a plain string in one:
    `SHEBANGS = ("#!")` is the string "#!" (the comma that makes a tuple is missing); iterating it yields characters."""
    by_name: dict[str, list[tuple[str, ast.AST, ast.AST]]] = {}
    for q, c in repo.classes.items():
        for st in c.body:
            tgt = val = None
            if isinstance(st, ast.Assign) and len(st.targets) == 1 and isinstance(st.targets[0], ast.Name):
                tgt, val = st.targets[0].id, st.value
            elif isinstance(st, ast.AnnAssign) and isinstance(st.target, ast.Name) and st.value is not None:
                tgt, val = st.target.id, st.value
            if tgt and tgt.isupper():
                by_name.setdefault(tgt, []).append((q, st, val))
    out = []
    for name, defs in by_name.items():
        seqs = [d for d in defs if isinstance(d[2], (ast.List, ast.Tuple))]
        strs = [d for d in defs if isinstance(d[2], ast.Constant) and isinstance(d[2].value, str)]
        if len(seqs) >= 2 and strs and len(strs) < len(seqs):
            for q, st, val in strs:
                out.append((st, q, f"{q}.{name} = {val.value!r} is a string, {len(seqs)} sibling classes define {name} as a list / tuple"))
    return out


# ------------------------------------------------------------------------------------------------------------ driver
def scope_of(repo: Repo, seeds: Iterable[str]) -> list[str]:
    """Seeds plus everything they can call, by name: a plain name or self./cls. attribute that denotes exactly one function of the package."""
    by_last: dict[str, list[str]] = {}
    for q in repo.functions:
        by_last.setdefault(q.split(".")[-1], []).append(q)
    seen: list[str] = []
    todo = [q for q in seeds if q in repo.functions]
    while todo:
        q = todo.pop()
        if q in seen:
            continue
        seen.append(q)
        for c in ast.walk(repo.functions[q]):
            if isinstance(c, ast.Call):
                last = ast.unparse(c.func).split(".")[-1]
                for t in by_last.get(last, []):
                    if t not in seen and len(by_last[last]) <= 3:
                        todo.append(t)
    return sorted(seen)


def generator_names(repo: Repo) -> set[str]:
    """Names of package functions whose result is (on some path) a single-pass iterator: generator functions, and (fixpoint)
    functions one of whose returns hands out such an iterator unmaterialised."""
    out = set()
    for q, fn in repo.functions.items():
        if any(isinstance(n, (ast.Yield, ast.YieldFrom)) for n in _own_nodes(fn)):
            out.add(q.split(".")[-1])
    for _ in range(4):
        grew = False
        for q, fn in repo.functions.items():
            last = q.split(".")[-1]
            if last in out:
                continue
            rets = [n for n in _own_nodes(fn) if isinstance(n, ast.Return) and n.value is not None]
            # ANY return that hands out a single-pass iterator makes the result one: on that path a second pass sees nothing
            # (_generate_file_reports: a list from pool.map, a lazy map() without the pool)
            def _vals(e: ast.AST) -> list:
                if isinstance(e, ast.Name):
                    vs = [st.value for st in _own_nodes(fn) if isinstance(st, (ast.Assign, ast.AnnAssign)) and st.value is not None
                          and any(isinstance(t, ast.Name) and t.id == e.id for t in (st.targets if isinstance(st, ast.Assign) else [st.target]))]
                    return vs or [e]
                return [e]
            if rets and any(_is_one_shot(v, out) for n in rets for v in _vals(n.value)):
                out.add(last)
                grew = True
        if not grew:
            break
    return out


def multi_consumed_params(fn: ast.FunctionDef) -> dict[str, str]:
    """Parameters that fn iterates more than once in one call (so a caller must not pass a single-pass iterator)."""
    parents = _parents(fn)
    a = fn.args
    out = {}
    rebound = {t.id for n in _own_nodes(fn) if isinstance(n, (ast.Assign, ast.AnnAssign, ast.AugAssign))
               for t in (n.targets if isinstance(n, ast.Assign) else [n.target]) if isinstance(t, ast.Name)}
    for p in a.posonlyargs + a.args + a.kwonlyargs:
        if p.arg in ("self", "cls") or p.arg in rebound:
            continue
        sites = [s for s in _consumptions(fn, p.arg, parents) if s[1] in ("for-loop", "comprehension", "membership test")
                 or s[1].split("(")[0] in MATERIALISERS]
        hit = None
        for i in range(len(sites)):
            for j in range(i + 1, len(sites)):
                if not _exclusive(sites[i][0], sites[j][0], parents, fn):
                    first, second = sites[i][0], sites[j][0]
                    if _ends_flow(first, parents, fn) and _exclusive_after(first, second, parents):
                        continue
                    hit = f"{sites[i][1]} and {sites[j][1]}"
                    break
            if hit:
                break
        if not hit:
            for s, what in sites:
                if _loop_around(s, fn, parents) is not None:
                    hit = f"{what} inside a loop"
                    break
        if hit:
            out[p.arg] = hit
    return out


H7_BAD = "from enum import Enum\nclass S(Enum):\n    A = 'file-header'\n    B = 'file-header'\n"
H7_OK = "from enum import Enum\nclass S(Enum):\n    A = 'file-header'\n    B = 'dot-license'\n"
H6_BAD = 'T = [\n    "% !TEX",\n    "%!TEX"\n    # Erlang\n    "#!",\n]\n'
H6_OK = 'T = [\n    "% !TEX",\n    "%!TEX",\n    "#!",\n]\nM = f(\n    "one "\n    "two"\n)\n'

CONTROL = '''
def h1(x, acc=[]):
    acc.append(x)
    return acc
def h1_ok(x, acc=None):
    acc = acc or []
    acc.append(x)
    return acc
def h2(paths):
    files = (p for p in paths)
    a = [f for f in files]
    b = [f for f in files]
    return a, b
def h2_loop(paths, names):
    files = iter(paths)
    return [n for n in names if n in files] + [1 for n in names for _ in [0] if n in files]
def h2_ok(paths, flag):
    files = (p for p in paths)
    if flag:
        return list(files)
    return sorted(files)
def h3(names):
    out = []
    for n in names:
        out.append(lambda: n)
    return out
def h5(infos):
    for info in infos:
        pass
    return [e for e in info.exprs for info in infos]
def h5_ok(infos):
    return [e for info in infos for e in info.exprs]
def h8(a: bool, b: Sequence[str]):
    pass
def h8_ok(a: bool, b: Sequence[str], c: Optional[str]):
    pass
def h9(p, text):
    p.write_text(text)
    with open(p, "w") as fp:
        fp.write(text)
def h9_ok(p, text, out):
    p.write_text(text, encoding="utf-8")
    with open(p, "rb") as fp:
        fp.read()
    with open(p, "w", encoding="utf-8") as fp:
        fp.write(text)
    out.open()
def h4(text):
    import re
    return re.sub("a.*?b", "", text, re.DOTALL)
def h4_ok(text):
    import re
    return re.sub("a.*?b", "", text, flags=re.DOTALL) + re.sub("a", "", text, 1)
def h11(root):
    try:
        project = load(root)
    except OSError:
        pass
    return project
def h11_ok(root, flag):
    project = None
    try:
        project = load(root)
        extra = 1
    except OSError as err:
        raise Usage(str(err)) from err
    except ValueError:
        extra = 2
    return project, extra
def h12(x):
    if not isinstance(x, list):
        pass
    return [i for i in x]
def h12_ok(x):
    if not isinstance(x, list):
        raise TypeError(x)
    if x:
        pass
    else:
        return []
    return x
def h3_ok(names):
    out = []
    for n in names:
        out.append(lambda n=n: n)
        out.append(sorted(names, key=lambda m: (m, n)))
    return out
'''


def self_control() -> Optional[str]:
    """The lints must fire on the bad twins and stay silent on the good ones (run on every check)."""
    tree = ast.parse(CONTROL)
    fns = {f.name: f for f in tree.body if isinstance(f, ast.FunctionDef)}
    deco = lambda src: ast.parse(src, mode="eval").body  # noqa: E731
    fns["h8"].decorator_list = [deco('click.option("--a")'), deco('click.option("--b", "-b", type=str)')]
    fns["h8_ok"].decorator_list = [deco('click.option("--a", is_flag=True)'), deco('click.option("--b", multiple=True)'), deco('click.option("--c", type=str)'),
                                   deco('click.option("--aa", "a", is_flag=True, hidden=True)')]
    got = {
        "h1": bool(mutable_defaults(fns["h1"])), "h1_ok": bool(mutable_defaults(fns["h1_ok"])),
        "h2": bool(exhausted_iterators(fns["h2"], set())), "h2_loop": bool(exhausted_iterators(fns["h2_loop"], set())),
        "h2_ok": bool(exhausted_iterators(fns["h2_ok"], set())),
        "h3": bool(late_binding(fns["h3"])), "h3_ok": bool(late_binding(fns["h3_ok"])),
        "h4": bool(flag_in_count_position(fns["h4"])), "h4_ok": bool(flag_in_count_position(fns["h4_ok"])),
        "h5": bool(clause_order(fns["h5"])), "h5_ok": bool(clause_order(fns["h5_ok"])),
        "h6": bool(implicit_concatenation(H6_BAD, ast.parse(H6_BAD))), "h6_ok": bool(implicit_concatenation(H6_OK, ast.parse(H6_OK))),
        "h7": bool(enum_aliases(ast.parse(H7_BAD))), "h7_ok": bool(enum_aliases(ast.parse(H7_OK))),
        "h8": len(click_declarations(fns["h8"])) == 2, "h8_ok": bool(click_declarations(fns["h8_ok"])),
        "h9": len(implicit_text_encoding(fns["h9"])) == 2, "h9_ok": bool(implicit_text_encoding(fns["h9_ok"])),
        "h11": bool(unbound_after_swallow(fns["h11"])), "h11_ok": bool(unbound_after_swallow(fns["h11_ok"])),
        "h12": bool(empty_consequence(fns["h12"])), "h12_ok": bool(empty_consequence(fns["h12_ok"])),
    }
    want = {"h1": True, "h1_ok": False, "h2": True, "h2_loop": True, "h2_ok": False, "h3": True, "h3_ok": False, "h4": True, "h4_ok": False, "h5": True, "h5_ok": False, "h6": True, "h6_ok": False, "h7": True, "h7_ok": False, "h8": True, "h8_ok": False, "h9": True, "h9_ok": False, "h11": True, "h11_ok": False, "h12": True, "h12_ok": False}
    return None if got == want else f"hygiene positive control: {got}"


def run(ck, repo: Repo, rid: str = "H") -> None:
    from .model import AnalysisError
    bad = self_control()
    if bad:
        raise AnalysisError(bad)
    r = ck.rule(rid, "Python-semantics hygiene on the functions this property passes through: no state kept in a mutable default, no"
                     " single-pass iterator consumed twice, no stored closure over a loop variable")
    seeds = list(ck.analysed) + [q for q in ck.extra.pop("hygiene_scope", []) if q in repo.functions]
    scope = scope_of(repo, seeds) if seeds else sorted(repo.functions)
    gens = generator_names(repo)
    ck.extra["hygiene_scope_resolved"] = list(scope)
    n = 0
    for q in scope:
        fn = repo.functions[q]
        n += 1
        for node, name, what in mutable_defaults(fn):
            r.violation(q, f"H1 state kept in a default argument: {what}",
                        "the default object is created once, when the function is defined: what one call stores in it is still there in"
                        " the next call (the second file, the second command of a process, the second test)", repo.loc(node))
        for node, name, what in exhausted_iterators(fn, gens):
            r.violation(q, f"H2 single-pass iterator consumed more than once: {what}",
                        "after the first pass the iterator is empty: the second consumer sees no elements at all and says so silently", repo.loc(node))
        for node, name, what in flag_in_count_position(fn):
            r.violation(q, f"H4 a regex flag in a count position: {what}",
                        "the flag's integer value is used as the maximum number of substitutions / splits and the flag itself is not applied",
                        repo.loc(node))
        for node, name, what in implicit_text_encoding(fn):
            r.violation(q, f"H9 locale-dependent text I/O: {what}",
                        "the locale's preferred encoding is used: under LANG=C / a Latin-1 locale a non-ASCII holder name cannot be written"
                        " (UnicodeEncodeError, an empty file is left behind) or is written in an encoding the package's UTF-8 readers"
                        " reject or misread", repo.loc(node))
        for node, name, what in click_declarations(fn):
            r.violation(q, f"H8 a click declaration and the parameter it fills disagree: {what}",
                        "click converts the command line by the DECLARATION; the function body relies on the annotated type",
                        repo.loc(node))
        for node, name, what in clause_order(fn):
            r.violation(q, f"H5 comprehension clauses in the wrong order: {what}",
                        "the first clause's iterable is evaluated OUTSIDE the comprehension: the name resolves to whatever an earlier loop left"
                        " in it (its last element only), or to a NameError on a path where no such variable exists", repo.loc(node))
        for node, name, what in unbound_after_swallow(fn):
            r.violation(q, f"H11 a name is unbound after a swallowed exception: {what}",
                        "on the path through that handler the read raises UnboundLocalError - the handled error turns into a traceback",
                        repo.loc(node))
        for node, name, what in empty_consequence(fn):
            # not a violation by itself (the guard may have been for a case that cannot occur): the property's own rules decide
            # what the missing consequence means; where none of them looks at this test the check is UNDECIDED, not silent
            ck.defer(Exception(f"H12 a check without consequence in {q} ({repo.loc(node)}): {what} - whether what it guarded against"
                               " can occur is not decided"))
        for node, name, what in late_binding(fn):
            r.violation(q, f"H3 late-binding closure: {what}",
                        "all closures created by the loop share the variable and see its LAST value when they are finally called", repo.loc(node))
    for node, cq, what in sibling_attribute_kinds(repo):
        if repo.module_of(node).name in {repo.module_of(repo.functions[x]).name for x in scope}:
            r.violation(cq, f"H10 a string where its siblings have a sequence: {what}",
                        "code that walks the attribute (`for item in cls.ATTR`) gets the CHARACTERS of the string: a one-element tuple needs"
                        " its trailing comma", repo.loc(node))
    # H6 on the modules these functions live in (tables are module- or class-level)
    mods = sorted({repo.module_of(repo.functions[q]).name for q in scope})
    for mname in mods:
        m = repo.modules[mname]
        raw_src = m.path.read_text(encoding="utf-8")
        try:
            raw_tree = ast.parse(raw_src)
        except SyntaxError:
            continue
        for node, _n, what in enum_aliases(raw_tree):
            r.violation(mname, f"H7 two enum members share one value: {what}",
                        "everything that reports or compares the kind by name or value sees one kind where the code distinguishes two",
                        f"{m.rel}:{getattr(node, 'lineno', 0)}")
        for node, _n, what in implicit_concatenation(raw_src, raw_tree):
            r.violation(mname, f"H6 two table entries glued into one string: {what}",
                        "adjacent string literals are concatenated at compile time: the table has one entry fewer and one entry that"
                        " matches neither of the intended values", f"{m.rel}:{getattr(node, 'lineno', 0)}")
    # H2 across a call: a single-pass iterator handed to a parameter that the callee iterates more than once
    from .rules import param_names
    multi = {q: multi_consumed_params(repo.functions[q]) for q in repo.functions}
    by_last: dict[str, list[str]] = {}
    for q in repo.functions:
        by_last.setdefault(q.split(".")[-1], []).append(q)
    for q in scope:
        fn = repo.functions[q]
        one_shot_locals = {}
        for st in _own_nodes(fn):
            if isinstance(st, ast.Assign) and len(st.targets) == 1 and isinstance(st.targets[0], ast.Name):
                k = _is_one_shot(st.value, gens)
                if k:
                    one_shot_locals[st.targets[0].id] = k
        for c in _own_nodes(fn):
            if not isinstance(c, ast.Call):
                continue
            cands = by_last.get(ast.unparse(c.func).split(".")[-1], [])
            if len(cands) != 1 or not multi[cands[0]]:
                continue
            callee = repo.functions[cands[0]]
            names = [x for x in param_names(callee) if x not in ("self", "cls")]
            bound = {names[i]: a for i, a in enumerate(c.args) if i < len(names) and not isinstance(a, ast.Starred)}
            bound.update({kw.arg: kw.value for kw in c.keywords if kw.arg})
            for pname, how in multi[cands[0]].items():
                a = bound.get(pname)
                if a is None:
                    continue
                kind = _is_one_shot(a, gens) or (one_shot_locals.get(a.id) if isinstance(a, ast.Name) else None)
                if kind:
                    r.violation(q, f"H2 single-pass iterator consumed more than once: {kind} is passed as `{pname}` to {cands[0].split('.')[-1]},"
                                   f" which iterates it by {how}",
                                "after the first pass the iterator is empty: the second consumer sees no elements at all and says so silently",
                                repo.loc(c))
    r.instance("scope", {"functions": n, "seeds": len(ck.analysed), "generator_functions": len(gens)})
    if n < 3:
        raise AnalysisError(f"hygiene scope too small ({n} functions)")
