"""C15 - commands touch only what they are documented to touch: effect analysis over the call graph."""
from __future__ import annotations

import ast
import re

from ..callgraph import CallGraph, effect_of
from ..model import AnalysisError, Repo, kwarg
from ..report import Check
from ..rules import find_calls
from ..typed import TypeFacts

MAIN = "reuse.cli.main.main"

# command -> allowed effects as (function, kind, target text)
# targets are written with parameters by POSITION (<p0>, <p1>, ...) and locals resolved to their definition,
# so that renaming a parameter or a local does not change the table
ALLOWED = {
    "lint": set(),
    "lint-file": set(),
    "supported-licenses": set(),
    "spdx": set(),  # plus the click.File("w") bound to --output (checked separately)
    "annotate": {("reuse._annotate.add_header_to_file", "open-w", "<p0>")},
    "convert-dep5": {("reuse.cli.convert_dep5.convert_dep5", "write_text", "<p0>.project.root / 'REUSE.toml'"),
                     ("reuse.cli.convert_dep5.convert_dep5", "unlink", "<p0>.project.root / '.reuse' / 'dep5'")},
    "download": {("reuse.download.put_license_in_file", "mkdir", "<p1>.parent"),
                 ("reuse.download.put_license_in_file", "shutil.copyfile", "<p1>"),
                 ("reuse.download.put_license_in_file", "touch", "<p1>"),
                 ("reuse.download.put_license_in_file", "open-w", "<p1>")},
}


def canon_target(repo: Repo, f: str, text: str) -> str:
    """Target expression with single-assignment locals resolved, `Path(x)` wrappers of parameters removed and
    parameters replaced by their position."""
    import copy
    from ..rules import single_assign_value
    fn = repo.functions[f]
    try:
        node = ast.parse(text, mode="eval").body
    except SyntaxError:
        return text
    params = [a.arg for a in fn.args.posonlyargs + fn.args.args + fn.args.kwonlyargs]

    class T(ast.NodeTransformer):
        def visit_Name(self, n):
            if isinstance(n.ctx, ast.Load) and n.id not in params:
                v = single_assign_value(fn, n.id)
                if v is not None and not isinstance(v, (ast.Dict, ast.List)):
                    return self.visit(copy.deepcopy(v))
            if n.id in params:
                return ast.Name(id=f"__p{params.index(n.id)}__", ctx=ast.Load())
            return n

        def visit_Call(self, n):
            self.generic_visit(n)
            if isinstance(n.func, ast.Name) and n.func.id == "Path" and len(n.args) == 1 and isinstance(n.args[0], ast.Name) \
                    and n.args[0].id.startswith("__p"):
                return n.args[0]
            if isinstance(n.func, ast.Name) and n.func.id == "_determine_license_suffix_path" and len(n.args) == 1 \
                    and isinstance(n.args[0], ast.Name) and n.args[0].id.startswith("__p"):
                return n.args[0]  # FILE.license sibling of the named file
            return n

    from ..rules import path_norm
    out = path_norm(ast.unparse(T().visit(node)))   # one spelling for joinpath / "/" chains / .absolute()
    return re.sub(r"__p(\d+)__", r"<p\1>", out)


def _call_sites(cg: CallGraph, parent: dict, callee: str):
    for g in parent:
        for tgt, node in cg.edges.get(g, []):
            if tgt == callee and isinstance(node, ast.Call):
                yield g, node


def _substitute(repo: Repo, callee: str, call: ast.Call, target: str) -> str | None:
    """Target text of a helper's effect (parameters as <pK>) rewritten with the actual arguments of one call."""
    fn = repo.functions[callee]
    params = [a.arg for a in fn.args.posonlyargs + fn.args.args + fn.args.kwonlyargs]
    actual: dict[int, str] = {}
    for i, a in enumerate(call.args):
        if isinstance(a, ast.Starred):
            return None
        actual[i] = ast.unparse(a)
    for kw in call.keywords:
        if kw.arg is None or kw.arg not in params:
            return None
        actual[params.index(kw.arg)] = ast.unparse(kw.value)
    out = target
    for m in set(re.findall(r"<p(\d+)>", target)):
        if int(m) not in actual:
            return None
        out = out.replace(f"<p{m}>", f"({actual[int(m)]})")
    return out


def lift(repo: Repo, cg: CallGraph, parent: dict, f: str, k: str, t: str, depth: int):
    """The effect (f, k, t) as seen from f's callers: when t is built only from f's parameters, every call site
    g -> f turns it into an effect of g on the actual argument (a write moved into a helper stays the same write)."""
    if depth == 0 or not re.search(r"<p\d+>", t):
        return
    for g, call in _call_sites(cg, parent, f):
        sub = _substitute(repo, f, call, t)
        if sub is None:
            continue
        try:
            node = ast.parse(sub, mode="eval").body
        except SyntaxError:
            continue
        tg = canon_target(repo, g, ast.unparse(node))
        yield (g, k, tg)
        yield from lift(repo, cg, parent, g, k, tg, depth - 1)


def lifted_ok(repo: Repo, cg: CallGraph, parent: dict, f: str, k: str, t: str, allowed: set, depth: int = 3) -> bool:
    """An effect in an undocumented helper is fine when its target is one of the helper's own parameters and EVERY
    call site in the command's reach passes a documented target (recursively, bounded depth)."""
    if depth == 0 or not re.search(r"<p\d+>", t) or re.sub(r"<p\d+>", "", t).strip("()") != "":
        return False
    sites = list(_call_sites(cg, parent, f))
    if not sites:
        return False
    for g, call in sites:
        sub = _substitute(repo, f, call, t)
        if sub is None:
            return False
        tg = canon_target(repo, g, sub)
        if (g, k, tg) in allowed:
            continue
        if not lifted_ok(repo, cg, parent, g, k, tg, allowed, depth - 1):
            return False
    return True

READ_ONLY_QUERIES = {
    "VCSStrategyGit": [["ls-files"], ["config"], ["status"], ["rev-parse"]],
    "VCSStrategyHg": [["status"], ["root"]],
    "VCSStrategyJujutsu": [["files"], ["root"]],
    "VCSStrategyPijul": [["list"], ["diff", "--short"]],
}


def rule_reach(ck: Check, repo: Repo, cg: CallGraph) -> None:
    r = ck.rule("R1", "per command: file-system mutators reachable in the call graph ⊆ the documented set")
    cmds = repo.commands()
    r.floor(7, "click commands", got=len(cmds))
    for name in ALLOWED:
        if name not in cmds:
            raise AnalysisError(f"anchor vanished: command {name}")
    for name, fn in sorted(cmds.items()):
        q = repo.qualname_of(fn)
        parent = cg.reachable([MAIN, q])
        ck.extra.setdefault("hygiene_scope", []).extend(sorted(parent))
        found = []
        for f in parent:
            for full, node in cg.ext[f]:
                e = effect_of(full, node)
                if e and e[0] != "subprocess":
                    found.append((f, e[0], canon_target(repo, f, e[1]), node))
        allowed = ALLOWED.get(name)
        r.instance(f"command:{name}", {"command": name, "reachable_functions": len(parent),
                                       "effects": [f"{f.split('.')[-1]}:{k}({t})" for f, k, t, _ in found]}, q)
        ck.extra.setdefault("reach", {})[name] = len(parent)
        if allowed is None:
            if found:
                r.violation(q, f"new command {name} has file-system effects", f"{found[0][:3]}: no documented effect set", repo.loc(fn))
            continue
        # writing a whole file is one kind of effect whether it is spelled open(…, "w") + write or Path.write_text / write_bytes
        WRITE = {"write_text": "open-w", "write_bytes": "open-w"}
        allowed = allowed | {(f_, WRITE.get(k_, k_), t_) for f_, k_, t_ in allowed} | {(f_, "write_text", t_) for f_, k_, t_ in allowed if k_ == "open-w"}
        for f, k, t, node in found:
            if (f, k, t) not in allowed and not lifted_ok(repo, cg, parent, f, k, t, allowed):
                chain = " -> ".join(x.split(".")[-1] for x in cg.chain(parent, f))
                r.violation(q, f"`reuse {name}` can reach {k}({t}) in {f}",
                            f"undocumented file-system effect; call chain: {chain}", repo.loc(node),
                            {"chain": cg.chain(parent, f)})
        # the documented effects still exist where expected (a vanished writer means the table is stale)
        seen_effects = {(f, k, t) for f, k, t, _ in found}
        for f, k, t, _ in found:
            seen_effects |= set(lift(repo, cg, parent, f, k, t, 3))
        for a in sorted(allowed):
            if a not in seen_effects:
                r.note(f"{name}: documented effect {a} not found (table may be stale)")
    # reach-set floor: the analysis must see the big commands' bodies
    if ck.extra["reach"].get("lint", 0) < 60 or ck.extra["reach"].get("annotate", 0) < 60:
        raise AnalysisError(f"call graph lost functions: reach sets {ck.extra['reach']}")
    r.note(f"unresolved calls: {len(cg.unresolved)}")
    if len(cg.unresolved) > 25:
        raise AnalysisError(f"too many unresolved calls ({len(cg.unresolved)}); the call graph is not trustworthy")
    ck.extra["unresolved_calls"] = [f"{q}: {t}" for q, t, _ in cg.unresolved]
    # positive control: the annotate writer is visible as an effect
    an_reach = cg.reachable(["reuse._annotate.add_header_to_file"])
    if not any(effect_of(e[0], e[1]) for f in an_reach for e in cg.ext[f]):
        raise AnalysisError("C15-R1 positive control failed: the annotate writer is not recognised as an effect")


def rule_spdx_output(ck: Check, repo: Repo) -> None:
    r = ck.rule("R2", "spdx writes only to the --output file (click.File('w')), or stdout")
    fn = repo.commands()["spdx"]
    q = repo.qualname_of(fn)
    files = []
    for dec in fn.decorator_list:
        if isinstance(dec, ast.Call) and ast.unparse(dec.func) == "click.option":
            t = kwarg(dec, "type")
            if t is not None and "click.File" in ast.unparse(t):
                names = [a.value for a in dec.args if isinstance(a, ast.Constant)]
                files.append((names, ast.unparse(t)))
    r.instance("click.File options", {"options": files})
    if [n for n, _ in files] != [["--output", "-o"]]:
        r.violation(q, "file-typed options", f"{files}; only --output may name a file to write", repo.loc(fn))
    opens = find_calls(fn, lambda c, f: f.endswith(".open"))
    txt = [ast.unparse(c) for c in opens]
    r.instance("opens", {"opens": txt})
    if txt != ["output.open()"]:
        r.violation(q, "files opened by the spdx command", f"{txt}", repo.loc(fn))
    echo = find_calls(fn, lambda c, f: f == "click.echo")
    ok = len(echo) == 1 and ast.unparse(kwarg(echo[0], "file") or ast.Constant(None)) == "out"
    if not ok:
        r.violation(q, "document destination", "the document must go to the opened --output file or stdout", repo.loc(fn))


def rule_subprocess(ck: Check, repo: Repo, cg: CallGraph) -> None:
    r = ck.rule("R3", "every spawned process is a read-only VCS query with a literal argv")
    spawn = []
    for f in repo.functions:
        for full, node in cg.ext[f]:
            e = effect_of(full, node)
            if e and e[0] == "subprocess":
                spawn.append((f, node))
    r.instance("spawn-sites", {"functions": [f for f, _ in spawn]})
    if [f for f, _ in spawn] != ["reuse._util.execute_command"]:
        r.violation("reuse._util.execute_command", "process spawned outside execute_command", f"{[f for f, _ in spawn]}")
    n = 0
    for f, fn in repo.functions.items():
        for c in find_calls(fn, lambda c, name: name == "execute_command"):
            n += 1
            cls = f.split(".")[-2]
            cmd = None
            for st in ast.walk(fn):
                if isinstance(st, ast.Assign) and any(ast.unparse(t) == "command" for t in st.targets) and isinstance(st.value, ast.List):
                    cmd = st.value
            inline = c.args[0] if c.args and isinstance(c.args[0], ast.List) else None
            if cmd is None and inline is not None and not any(isinstance(e, ast.Starred) for e in inline.elts):
                cmd = inline          # the literal argv written directly in the call
            argv = [ast.unparse(e) if not isinstance(e, ast.Constant) else e.value for e in cmd.elts] if cmd else None
            # a shared runner `execute_command([str(cls.EXE), *args], …)` with `args` a parameter: the argv of every CALL of that
            # runner (literal lists at the call sites) is what is judged
            variants = []
            runner_list = cmd or inline
            if runner_list is not None and fn.args.vararg is not None and any(
                    isinstance(e, ast.Starred) and isinstance(e.value, ast.Name) and e.value.id == fn.args.vararg.arg for e in runner_list.elts):
                # the same runner taking the options as `*args`: every positional argument of a call site past the named ones
                head = [ast.unparse(e) if not isinstance(e, ast.Constant) else e.value for e in runner_list.elts if not isinstance(e, ast.Starred)]
                first = len(fn.args.args) - (1 if fn.args.args and fn.args.args[0].arg in ("self", "cls") else 0)
                for f2, fn2 in repo.functions.items():
                    for c2 in find_calls(fn2, lambda cc, name: name.split(".")[-1] == fn.name):
                        rest_args = c2.args[first:]
                        if rest_args and all(isinstance(e, ast.Constant) for e in rest_args) and not c2.keywords:
                            variants.append((f2.split(".")[-2], head + [e.value for e in rest_args]))
                        else:
                            variants.append((f2.split(".")[-2], None))
            elif runner_list is not None and any(isinstance(e, ast.Starred) and isinstance(e.value, ast.Name)
                                                 and e.value.id in [a.arg for a in fn.args.args] for e in runner_list.elts):
                star = next(e.value.id for e in runner_list.elts if isinstance(e, ast.Starred))
                pidx = [a.arg for a in fn.args.args].index(star)
                head = [ast.unparse(e) if not isinstance(e, ast.Constant) else e.value for e in runner_list.elts if not isinstance(e, ast.Starred)]
                for f2, fn2 in repo.functions.items():
                    for c2 in find_calls(fn2, lambda cc, name: name.split(".")[-1] == fn.name):
                        a2 = next((k.value for k in c2.keywords if k.arg == star), None)
                        if a2 is None:
                            pos = pidx - (1 if fn.args.args and fn.args.args[0].arg in ("self", "cls") else 0)
                            a2 = c2.args[pos] if len(c2.args) > pos else None
                        if isinstance(a2, ast.List) and all(isinstance(e, ast.Constant) for e in a2.elts):
                            variants.append((f2.split(".")[-2], head + [e.value for e in a2.elts]))
                        else:
                            variants.append((f2.split(".")[-2], None))
            r.instance(f"argv:{f}", {"function": f, "argv": argv, "call_site_variants": [v for _, v in variants]})
            ok = False
            if variants:
                ok = all(v is not None and v[0] in ("str(self.EXE)", "str(cls.EXE)")
                         and any(v[1:][: len(qy)] == qy for qy in READ_ONLY_QUERIES.get(k, [])) for k, v in variants)
            elif argv and argv[0] in ("str(self.EXE)", "str(cls.EXE)") and all(isinstance(a, str) for a in argv):
                rest = argv[1:]
                for qy in READ_ONLY_QUERIES.get(cls, []):
                    if rest[: len(qy)] == qy:
                        ok = True
            if not variants and ast.unparse(c.args[0]) != "command" and c.args[0] is not cmd:
                ok = False        # what is executed must be the list that was judged (the `command` local, or the literal itself)
            if not ok:
                r.violation(f, "VCS command is not a whitelisted read-only query", f"argv {argv}", repo.loc(c))
    r.floor(10, "execute_command call sites", got=n)
    ck.assumptions.append("VCS queries (git ls-files/config/status/rev-parse, hg status/root, jj files/root, pijul list/diff"
                          " --short) do not modify the project tree; VCS metadata directories are outside it")


def rule_provenance(ck: Check, repo: Repo) -> None:
    r = ck.rule("R4", "what annotate writes is a named file / covered child or its .license sibling; download's destination")
    an = repo.commands()["annotate"]
    q = repo.qualname_of(an)
    src = re.sub(r"\s+", " ", ast.unparse(an))
    ok_paths = "paths = all_paths(paths, recursive, project)" in src and "for path in paths:" in src
    r.instance("annotate-paths", {"from_all_paths": ok_paths})
    if not ok_paths:
        r.violation(q, "annotated paths", "the loop must range over all_paths(paths, recursive, project)", repo.loc(an))
    ap = repo.func("reuse.cli.annotate.all_paths")
    # every return hands out `[_determine_license_path(p) for p in S if p.is_file()]`: directories filtered out, .license siblings
    # substituted - S being the named paths when not recursive, the accumulated result otherwise (however the branches are laid out)
    from ..rules import deep_text as _dt
    rets = [n for n in ast.walk(ap) if isinstance(n, ast.Return) and n.value is not None]
    shapes = []
    for n in rets:
        v = n.value
        if isinstance(v, ast.Name):
            vals = [st.value for st in ast.walk(ap) if isinstance(st, ast.Assign) and any(isinstance(t, ast.Name) and t.id == v.id for t in st.targets)]
            v = vals[-1] if len(vals) == 1 else v
        ok_shape = isinstance(v, ast.ListComp) and len(v.generators) == 1 and isinstance(v.generators[0].target, ast.Name) \
            and ast.unparse(v.elt) == f"_determine_license_path({v.generators[0].target.id})" \
            and [ast.unparse(i) for i in v.generators[0].ifs] == [f"{v.generators[0].target.id}.is_file()"]
        src_set = _dt(ap, v.generators[0].iter) if ok_shape else None
        shapes.append((ok_shape, src_set))
    r.instance("all_paths-return", {"returns": [s_ for _, s_ in shapes]})
    if not rets or not all(ok for ok, _ in shapes):
        r.violation("reuse.cli.annotate.all_paths", "returned paths", f"{[ast.unparse(n.value)[:90] for n in rets]}; directories must be filtered out and"
                    " .license siblings substituted", repo.loc(ap))
    from . import c03
    c03.all_paths_rules(r, repo, ck)  # children = covered files (walk from the root) that lie BELOW the directory (path prefix)
    # non-recursive mode: exactly the named paths - some return (or the value bound on the non-recursive branch) ranges over
    # set(paths) / paths and nothing else
    nonrec = [s_ for ok, s_ in shapes if ok and s_ in ("set(paths)", "paths", "list(paths)")]
    s2 = re.sub(r"\s+", " ", ast.unparse(ap))
    # ... under whatever name: the set the returned comprehension ranges over is bound to set(paths) on some branch
    iter_names = set()
    for n in rets:
        v = n.value
        if isinstance(v, ast.Name):
            vals = [st.value for st in ast.walk(ap) if isinstance(st, ast.Assign) and any(isinstance(t, ast.Name) and t.id == v.id for t in st.targets)]
            v = vals[-1] if len(vals) == 1 else v
        if isinstance(v, ast.ListComp) and v.generators and isinstance(v.generators[0].iter, ast.Name):
            iter_names.add(v.generators[0].iter.id)
    bound_to_named = any(isinstance(st, ast.Assign) and len(st.targets) == 1 and isinstance(st.targets[0], ast.Name)
                         and st.targets[0].id in iter_names and ast.unparse(st.value) in ("set(paths)", "paths", "list(paths)")
                         for st in ast.walk(ap))
    if not nonrec and not bound_to_named and "else: result = set(paths)" not in s2 and "result = set(paths)" not in s2:
        r.violation("reuse.cli.annotate.all_paths", "non-recursive mode", "must be exactly the named paths", repo.loc(ap))
    # loop body: the file handed to add_header_to_file is the loop's path or its .license sibling, nothing else (whatever the
    # local that carries it is called)
    loop = [n for n in an.body if isinstance(n, ast.For)]
    targets: set[str] = set()

    def values_of(e: ast.AST, lp: ast.For, depth: int = 0) -> set[str]:
        if depth > 4:
            return {ast.unparse(e)}
        if isinstance(e, ast.Call) and ast.unparse(e.func) == "Path" and len(e.args) == 1:
            return values_of(e.args[0], lp, depth + 1)
        if isinstance(e, ast.Name):
            if isinstance(lp.target, ast.Name) and e.id == lp.target.id:
                own = {"<loop path>"}
            else:
                own = set()
            defs = [st.value for st in ast.walk(lp) if isinstance(st, ast.Assign) and any(isinstance(t, ast.Name) and t.id == e.id for t in st.targets)]
            out = set(own)
            for d in defs:
                if isinstance(d, ast.Name) and d.id == e.id:
                    continue
                out |= values_of(d, lp, depth + 1)
            return out or {e.id}
        return {ast.unparse(e)}

    for lp in loop:
        for c in ast.walk(lp):
            if isinstance(c, ast.Call) and ast.unparse(c.func) == "add_header_to_file":
                a = next((k.value for k in c.keywords if k.arg == "path"), c.args[0] if c.args else None)
                if a is not None:
                    targets |= values_of(a, lp)
    lv = loop[0].target.id if loop and isinstance(loop[0].target, ast.Name) else "path"
    allowed = {"<loop path>", f"_determine_license_suffix_path({lv})", lv}
    rebinds = sorted(targets)
    r.instance("path-rebinding", {"header_targets": rebinds})
    if not targets or not targets <= allowed or f"_determine_license_suffix_path({lv})" not in targets:
        r.violation(q, "path rebinding in the annotate loop", f"{rebinds}", repo.loc(an))
    ah = repo.func("reuse._annotate.add_header_to_file")
    rb = [ast.unparse(st.value) for st in ast.walk(ah) if isinstance(st, ast.Assign) and any(ast.unparse(t) == "path" for t in st.targets)]
    r.instance("add_header_to_file-rebinding", {"rebinds": rb})
    if rb != ["_determine_license_suffix_path(path)"]:
        r.violation("reuse._annotate.add_header_to_file", "path rebinding", f"{rb}", repo.loc(ah))
    dl = repo.commands()["download"]
    s3 = re.sub(r"\s+", " ", ast.unparse(dl))
    from ..model import kwarg as _kw
    puts = find_calls(dl, lambda c, f: f == "put_license_in_file")
    ok = (("destination: Path = output" in s3 and "if destination is None: destination = _path_to_license_file(lic, obj.project)" in s3)
          # the same choice as one conditional expression, either way round
          or "destination = output if output is not None else _path_to_license_file(lic, obj.project)" in s3
          or "destination = _path_to_license_file(lic, obj.project) if output is None else output" in s3) \
        and len(puts) == 1 and ast.unparse(_kw(puts[0], "destination") or ast.Constant(None)) == "destination" \
        and ast.unparse(_kw(puts[0], "spdx_identifier") or ast.Constant(None)) == "lic"
    r.instance("download-destination", {"ok": ok})
    if not ok:
        r.violation(repo.qualname_of(dl), "download destination", "must be --output or LICENSES/<id>.txt", repo.loc(dl))


def rule_symlinks(ck: Check, repo: Repo, cg: CallGraph, rid: str = "R8") -> None:
    """'never following symlinks': open(path, "w") writes THROUGH a symbolic link.  Between the command line and the
    write there has to be a test that refuses (or resolves-and-confines) a link, for each way a written path comes
    about: a path named on the command line, a child found by --recursive, and the FILE.license sibling."""
    r = ck.rule(rid, "annotate never writes through a symbolic link (each source of a written path is tested for being a link)")
    an = repo.qualname_of(repo.commands()["annotate"])
    reach = cg.reachable([an])
    link_tests = ("is_symlink", "islink", "O_NOFOLLOW", "follow_symlinks", "lstat", "readlink")

    def tests_in(q: str) -> list[str]:
        fn = repo.functions.get(q)
        if fn is None:
            return []
        return sorted({n.attr if isinstance(n, ast.Attribute) else n.id for n in ast.walk(fn)
                       if (isinstance(n, ast.Attribute) and n.attr in link_tests) or (isinstance(n, ast.Name) and n.id in link_tests)})

    sources = {
        "path named on the command line": [an, "reuse.cli.annotate.all_paths", "reuse._annotate.add_header_to_file"],
        "FILE.license sibling": ["reuse._util._determine_license_path", "reuse._util._determine_license_suffix_path",
                                 "reuse._annotate.add_header_to_file", "reuse.cli.annotate.all_paths"],
        "child found by --recursive": ["reuse.covered_files.is_path_ignored"],
    }
    for what, fns in sources.items():
        missing = [f for f in fns if f not in repo.functions]
        if missing:
            raise AnalysisError(f"anchor vanished: {missing[0]}")
        found = {f: tests_in(f) for f in fns}
        has = any(found.values())
        r.instance(f"source:{what}", {"source": what, "functions": fns, "link_tests": {k: v for k, v in found.items() if v}}, fns[0])
        if not has:
            r.violation(fns[0], f"no symbolic-link test for a {what}",
                        f"none of {[f.rsplit('.', 1)[-1] for f in fns]} tests the path for being a link before"
                        f" add_header_to_file opens it for writing: `annotate` follows the link and rewrites (or creates) its"
                        f" target, which may lie outside the project", repo.loc(repo.functions[fns[0]]))



def run(ck: Check, repo: Repo) -> None:
    ck.explanation = (
        "Effect analysis over the whole-program call graph (callees resolved by mypy used as a library; dynamic"
        " dispatch expanded to all overrides; attrs hooks, click callbacks, properties and map(container) included):"
        " for every click command the set of reachable file-system mutators (table T1, matched on resolved callees"
        " with constant open modes) must be a subset of the documented set; every spawned process is a literal"
        " read-only VCS query; the spdx command writes only through the click.File bound to --output; provenance of"
        " the paths annotate and download write. Not decided: OS-level metadata effects (atime), and whether an"
        " explicitly named symlink counts as 'following'."
    )
    ck.not_decided = ["mtime/atime/permission side effects of reads", "an explicitly named symlink argument (is_file() follows it)"]
    ck.trust("CPython ast", "mypy (library) for callee resolution", "table T1 of file-system mutators", "read-only VCS query whitelist")
    facts = TypeFacts(repo)
    if facts.errors:
        ck.assumptions.append(f"mypy reported {len(facts.errors)} type errors; facts may be incomplete: {facts.errors[:2]}")
    cg = CallGraph(repo, facts)
    ck.extra["call_graph"] = {"functions": len(repo.functions), "edges": sum(len(v) for v in cg.edges.values()),
                              "typed_calls": facts.n_calls, "unresolved_by_mypy": facts.n_unresolved}
    rule_reach(ck, repo, cg)
    rule_spdx_output(ck, repo)
    rule_subprocess(ck, repo, cg)
    rule_provenance(ck, repo)
    rule_symlinks(ck, repo, cg)
    # 'download only adds new files': the exists() refusal dominates every write (same obligation as C19-R1)
    from . import c19
    c19.rule_put(ck, repo, "R5")
    # 'never touching ignored or excluded files': the VCS membership tests must compare like with like
    from . import c03
    c03.rule_path_bases(ck, repo, "R6")
    # where the project IS: the root reported by the VCS must be used verbatim
    c03.rule_vcs_output_verbatim(ck, repo, "R7")
