"""C01 - lint verdict wiring (decision tables of the verdict, exit status, propagation)."""
from __future__ import annotations

import ast
import json
import re

from ..model import AnalysisError, Repo
from ..report import Check
from ..rules import atoms_of, bool_formula, equivalent
from ..tab import Hooks, evalf, show_valuation, tabulate

ISSUES = [
    "missing_licenses",
    "unused_licenses",
    "bad_licenses",
    "deprecated_licenses",
    "licenses_without_extension",
    "files_without_copyright",
    "files_without_licenses",
    "read_errors",
]
# collections of ProjectReport that are inventory, not issues (reason per name)
NOT_ISSUES = {
    "licenses": "inventory of LICENSES/ (issues derived from it are separate collections)",
    "file_reports": "per-file reports (issues derived from them are separate collections)",
}


def strip_cast(text: str) -> str:
    return re.sub(r"cast\(\w+, ([^()]*(?:\([^()]*\))?[^()]*)\)", r"\1", text)


# ------------------------------------------------------------------ R1
def verdict_formula(repo: Repo, qual: str, ck: Check, r) -> tuple:
    fn = repo.func(qual)
    ck.analysed_fn(qual)

    class H(Hooks):
        def atom(self, text, node, it):
            m = re.fullmatch(r"self\.(_\w+) is not None", text)
            if m:
                return "@memo"
            return None

    leaves = tabulate(fn, H(), feasible=lambda v: v.get("@memo") is not True)
    if len(leaves) != 1:
        raise AnalysisError(f"{qual}: expected the memoised-property idiom, got {len(leaves)} paths")
    d, leaf, _ = leaves[0]
    if leaf.outcome[0] != "return":
        raise AnalysisError(f"{qual}: does not return")

    def atom(text, node):
        m = re.fullmatch(r"self\.(\w+)", text)
        return m.group(1) if m else None

    return bool_formula(leaf.outcome[1], atom), fn


def issue_collections(repo: Repo) -> list[str]:
    """Collections of ProjectReport that hold issue data (derived from the class)."""
    cls = repo.cls("reuse.report.ProjectReport")
    found = []
    init = repo.func("reuse.report.ProjectReport.__init__")
    for st in ast.walk(init):
        tgt = None
        val = None
        if isinstance(st, ast.AnnAssign):
            tgt, val = st.target, st.value
        elif isinstance(st, ast.Assign) and len(st.targets) == 1:
            tgt, val = st.targets[0], st.value
        if (
            isinstance(tgt, ast.Attribute)
            and isinstance(tgt.value, ast.Name)
            and tgt.value.id == "self"
            and not tgt.attr.startswith("_")
            and val is not None
        ):
            text = ast.unparse(val)
            if text in ("{}", "set()", "[]", "dict()", "list()"):
                found.append(tgt.attr)
    # memoised issue properties: property whose memo slot is Optional[set]
    for st in cls.body:
        if isinstance(st, ast.FunctionDef) and any(
            isinstance(d, ast.Name) and d.id == "property" for d in st.decorator_list
        ):
            ret = ast.unparse(st.returns) if st.returns else ""
            if ret.startswith("set[") and st.name not in ("used_licenses",):
                found.append(st.name)
    return found


def rule_verdict(ck: Check, repo: Repo) -> None:
    r = ck.rule("R1", "is_compliant is the NOR of all issue collections")
    f, fn = verdict_formula(repo, "reuse.report.ProjectReport.is_compliant", ck, r)
    ref = ("not", ("or",) + tuple(ISSUES))
    bad = equivalent(f, ref)
    r.instance("verdict-formula", {"extracted": repr(f), "reference": repr(ref)},
               "reuse.report.ProjectReport.is_compliant")
    r.count(2 ** len(set(atoms_of(f)) | set(ISSUES)), prefix="valuation")
    if bad is not None:
        only = [a for a, val in bad.items() if val]
        r.violation(
            "reuse.report.ProjectReport.is_compliant",
            "verdict differs from NOR(8 issue collections) when only "
            + (",".join(only) or "nothing") + " is non-empty",
            f"is_compliant={evalf(f, __import__('sa.tab', fromlist=['Valuation']).Valuation(bad))}"
            f" but the reference says {not any(bad.get(a) for a in ISSUES)}",
            repo.loc(fn),
            {"valuation": bad, "extracted": repr(f)},
        )
    # derived atom set: every issue collection of the class must be consulted
    derived = issue_collections(repo)
    consulted = set(atoms_of(f))
    for name in derived:
        r.instance(f"collection:{name}", construct=f"ProjectReport.{name}")
        if name in NOT_ISSUES:
            continue
        if name not in consulted:
            r.violation(
                "reuse.report.ProjectReport.is_compliant",
                f"issue collection {name} is not consulted by the verdict",
                f"ProjectReport.{name} holds issue data but is_compliant ignores it",
                repo.loc(fn),
            )
    r.floor(8, "issue collections of ProjectReport", got=len([d for d in derived if d not in NOT_ISSUES]))


# ------------------------------------------------------------------ R2
def rule_exit(ck: Check, repo: Repo) -> None:
    r = ck.rule("R2", "lint exit status is 0 iff report.is_compliant, on every output path")
    cmds = repo.commands()
    if "lint" not in cmds:
        raise AnalysisError("anchor vanished: command lint")
    fn = cmds["lint"]
    qual = repo.qualname_of(fn)
    ck.analysed_fn(qual)

    class H(Hooks):
        def atom(self, text, node, it):
            if re.fullmatch(r"ProjectReport\.generate\(.*\)\.is_compliant", text):
                return "compliant"
            if text in ("quiet", "json", "plain", "lines"):
                return text
            return None

        def event(self, text, call, it):
            f = ast.unparse(call.func)
            if f == "ProjectReport.generate":
                a0 = it.text(call.args[0]) if call.args else ""
                return ("generate", a0)
            if f.startswith("format_"):
                return ("format", f, it.text(call.args[0]) if call.args else "")
            return None

    def ref(v):
        return ("exit", "0" if v("compliant") else "1")

    leaves = tabulate(fn, H(), ref)
    for d, leaf, expected in leaves:
        r.instance("path:" + show_valuation(d), {"valuation": show_valuation(d), "outcome": leaf.outcome})
        gen = [e for e in leaf.events if e[0] == "generate"]
        if leaf.outcome != expected:
            r.violation(
                qual,
                f"exit on path [{show_valuation({k: x for k, x in d.items() if k != 'compliant'})}]"
                f" compliant={d.get('compliant')}",
                f"outcome {leaf.outcome} but the reference says {expected}",
                repo.loc(fn),
                {"valuation": d, "trace_lines": leaf.trace},
            )
        if len(gen) != 1 or gen[0][1] != "obj.project":
            r.violation(qual, "report source", "the report is not ProjectReport.generate(obj.project, ...)",
                        repo.loc(fn), {"events": leaf.events})
        for e in leaf.events:
            if e[0] == "format" and not re.fullmatch(r"ProjectReport\.generate\(.*\)", e[2]):
                r.violation(qual, f"{e[1]} argument", "formatter does not receive the generated report",
                            repo.loc(fn))
    r.floor(8, "paths through lint")
    free = {a for d, _, _ in leaves for a in d if a.startswith("?")}
    for a in free:
        r.note(f"free atom (outcome independent of it unless reported): {a}")


# ------------------------------------------------------------------ R3
class GenHooks(Hooks):
    """Events of ProjectReport.generate / ProjectSubsetReport.generate."""

    def __init__(self, report_var_text: set[str]):
        self.objs = report_var_text

    def atom(self, text, node, it):
        text = strip_cast(text)
        if re.fullmatch(r"result\.error", text):
            return "error"
        m = re.fullmatch(r"(\w+) not in project\.license_map", text)
        if m:
            return ("not", "in_map")
        m = re.fullmatch(r"(\w+) in project\.license_map", text)
        if m:
            return "in_map"
        if re.fullmatch(r"project\.license_map\[\w+\]\['isDeprecatedLicenseId'\]", text):
            return "deprecated"
        return None

    def event(self, text, call, it):
        text = strip_cast(text)
        m = re.fullmatch(r"(.+)\.(\w+)\.setdefault\((\w+), set\(\)\)\.add\((.+)\)", text)
        if m:
            self.objs.add(m.group(1))
            return ("map-add", m.group(2), m.group(3), m.group(4))
        m = re.fullmatch(r"(.+)\.(\w+)\.add\((.+)\)", text)
        if m and ".setdefault(" not in m.group(1):
            self.objs.add(m.group(1))
            return ("add", m.group(2), m.group(3))
        if ast.unparse(call.func) == "_generate_file_reports":
            return ("results", text)
        return None

    def store(self, ttext, vtext, target, it):
        m = re.fullmatch(r"(.+)\.(\w+)", ttext)
        if m:
            return ("store", m.group(2), vtext)
        return None

    def loop_label(self, st, it_text, it):
        # inner loops are labelled with what they walk as the interpreter sees it (locals read through)
        if it.loop_depth >= 2:
            return f"each {ast.unparse(st.target)} in {strip_cast(it_text)}"
        return None


def flat(events, by_source: bool = False):
    """Strip loop contexts to (depth-labels, event) and drop bookkeeping."""
    out = []
    for e in events:
        ctx = ()
        while e[0] == "each":
            if not ctx:
                # an inner loop is named by WHAT it walks, not by its loop variable (`each@result.report.bad_licenses`): the name
                # of the variable is the author's choice
                labels = []
                for depth, c in enumerate(e[1]):
                    var, _, src = c.partition(" in ")
                    labels.append(var if depth == 0 or not src or not by_source else f"each@{src}")
                    if by_source and depth and src and e[2][0] != "each":
                        v = var[len("each "):] if var.startswith("each ") else var
                        inner = e[2]
                        e = (e[0], e[1], tuple(f"@{src}" if x == v else x for x in inner))
                ctx = tuple(labels)
            e = e[2]
        if e[0] in ("element-end",):
            out.append((ctx, e))
        else:
            out.append((ctx, e))
    return out


def rule_propagation(ck: Check, repo: Repo, qual: str, rid: str, full: bool) -> None:
    r = ck.rule(rid, f"{qual.split('.')[-2]}.generate propagates every per-file issue")
    fn = repo.func(qual)
    ck.analysed_fn(qual)
    objs: set[str] = set()
    hooks = GenHooks(objs)
    def ref(v):
        out = {"error": v("each result in results::error")}
        if full:
            out["in_map"] = v("each (name, path) in project.licenses.items()::in_map")
            out["deprecated"] = v("each (name, path) in project.licenses.items()::deprecated") if out["in_map"] else False
        return out

    # the effect table is stated per result of ONE loop over the results; a generate() that walks them several times
    # (a comprehension for the reports, a second loop for the errors) needs a per-result union of several loops that this
    # rule does not compute: not decided (exit 2) rather than compared with the wrong shape
    res_loops = [n for n in ast.walk(fn) if isinstance(n, ast.For) and ast.unparse(n.iter) in ("results", "sorted(results)", "list(results)")]
    res_comps = [n for n in ast.walk(fn) if isinstance(n, (ast.SetComp, ast.ListComp, ast.GeneratorExp, ast.DictComp))
                 and any(ast.unparse(g.iter) == "results" for g in n.generators)]
    if len(res_loops) != 1 or res_comps:
        raise AnalysisError(f"{qual.split('.')[-2]}.generate walks the results {len(res_loops)} time(s) in a loop and {len(res_comps)} time(s) in a"
                            " comprehension: the per-result effect table is stated for a single loop (shape not enumerated)")
    leaves = tabulate(fn, hooks, ref)
    r.floor(2 if not full else 6, "paths through generate", got=len(leaves))
    for d, leaf, spec in leaves:
        short = dict(spec)
        extra_atoms = {k: v for k, v in d.items() if k.split("::")[-1] not in spec}
        if extra_atoms:
            short.update({k.split("::")[-1]: v for k, v in extra_atoms.items()})
        ev = flat(leaf.events, by_source=True)
        r.instance("path:" + show_valuation(short), {"valuation": show_valuation(short),
                                                     "events": [repr(e) for _, e in ev][:12]})
        got = {(c, e) for c, e in ev if e[0] in ("add", "map-add")}
        exp = set()
        res = ("each result",)
        if short.get("error"):
            exp.add((res, ("add", "read_errors", "Path(result.path)")))
        else:
            exp.add((res, ("add", "file_reports", "result.report")))
            exp.add((res + ("each@result.report.missing_licenses",),
                     ("map-add", "missing_licenses", "@result.report.missing_licenses", "result.report.path")))
            if full:
                exp.add((res + ("each@result.report.bad_licenses",),
                         ("map-add", "bad_licenses", "@result.report.bad_licenses", "result.report.path")))
        if full:
            lic = ("each (name, path)",)
            if short.get("in_map") is False:
                exp.add((lic, ("map-add", "bad_licenses", "name", "path")))
            elif short.get("deprecated"):
                exp.add((lic, ("add", "deprecated_licenses", "name")))
        if got != exp:
            missing = exp - got
            extra = got - exp
            for c, e in sorted(missing, key=repr):
                r.violation(qual, f"missing {e[0]} into {e[1]} when [{show_valuation(short)}]",
                            f"expected effect {e} in {' / '.join(c)} is absent", repo.loc(fn),
                            {"valuation": short, "got": sorted(map(repr, got))})
            for c, e in sorted(extra, key=repr):
                r.violation(qual, f"unexpected {e[0]} into {e[1]} when [{show_valuation(short)}]",
                            f"effect {e} in {' / '.join(c)} is not in the reference table", repo.loc(fn),
                            {"valuation": short})
        # the read-error branch must leave the element (no report is added for it)
        ends = [e for c, e in ev if e[0] == "element-end" and c == res]
        if short.get("error") and ends != [("element-end", "continue")]:
            r.violation(qual, "error branch falls through",
                        "a result with an error must not reach the file-report branch", repo.loc(fn))
        # stores: path and (full) licence inventory come from the project
        stores = {e[1]: e[2] for c, e in ev if e[0] == "store" and not c}
        want = {"path": "project.root"}
        if full:
            want.update({"licenses": "project.licenses",
                         "licenses_without_extension": "project.licenses_without_extension"})
        for k, val in want.items():
            if stores.get(k) != val:
                r.violation(qual, f"store {k}", f"report.{k} is {stores.get(k)!r}, expected {val}",
                            repo.loc(fn))
        if len(objs) != 1 or leaf.outcome != ("return", next(iter(objs))):
            r.violation(qual, "returned object",
                        f"effects go to {sorted(objs)} but {leaf.outcome} is returned", repo.loc(fn))
        res_ev = [e for c, e in ev if e[0] == "results"]
        sub = False
        if res_ev:
            try:
                from ..model import kwarg as _kw
                _c = ast.parse(res_ev[0][1], mode="eval").body
                _a = _kw(_c, "subset_files") if isinstance(_c, ast.Call) else None
                sub = _a is not None and ast.unparse(_a) == "subset_files"
            except SyntaxError:
                sub = "subset_files=subset_files" in res_ev[0][1]
        if len(res_ev) != 1 or not res_ev[0][1].startswith("_generate_file_reports(project,"):
            r.violation(qual, "file reports source",
                        "results do not come from _generate_file_reports(project, ...)", repo.loc(fn))
        if not full and not sub:
            r.violation(qual, "subset not forwarded", "subset_files is not passed to _generate_file_reports",
                        repo.loc(fn))


# ------------------------------------------------------------------ R4
def comp_of_property(repo: Repo, qual: str) -> ast.SetComp:
    fn = repo.func(qual)
    comps = [n for n in ast.walk(fn) if isinstance(n, ast.SetComp)]
    if len(comps) != 1:
        raise AnalysisError(f"{qual}: expected exactly one set comprehension")
    return comps[0]


def rule_file_sets(ck: Check, repo: Repo, owner: str, rid: str) -> None:
    r = ck.rule(rid, f"{owner}.files_without_* filter on the per-file fields")
    for prop, fld in (("files_without_licenses", "licenses_in_file"), ("files_without_copyright", "copyright")):
        qual = f"reuse.report.{owner}.{prop}"
        comp = comp_of_property(repo, qual)
        ck.analysed_fn(qual)
        gen = comp.generators[0]
        var = ast.unparse(gen.target)
        facts = {
            "elt": ast.unparse(comp.elt),
            "iter": ast.unparse(gen.iter),
            "ifs": [ast.unparse(i) for i in gen.ifs],
        }
        r.instance(qual, facts, qual)

        def atom(text, node, var=var):
            m = re.fullmatch(rf"{var}\.(\w+)", text)
            return m.group(1) if m else None

        cond = ("and",) + tuple(bool_formula(i, atom) for i in gen.ifs) if gen.ifs else True
        if len(comp.generators) != 1 or facts["iter"] != "self.file_reports":
            r.violation(qual, "iteration source", f"iterates {facts['iter']}, expected self.file_reports",
                        repo.loc(comp))
        if facts["elt"] != f"{var}.path":
            r.violation(qual, "element", f"collects {facts['elt']}, expected {var}.path", repo.loc(comp))
        bad = equivalent(cond, ("not", fld))
        if bad is not None:
            r.violation(qual, f"filter is not `not {fld}`",
                        f"filter {facts['ifs']} differs from `not {var}.{fld}` at {bad}", repo.loc(comp))


def rule_file_fields(ck: Check, repo: Repo) -> None:
    """FileReport.generate: copyright and licenses_in_file cover ALL sources."""
    r = ck.rule("R5", "FileReport fields are built from every source's information")
    qual = "reuse.report.FileReport.generate"
    fn = repo.func(qual)
    ck.analysed_fn(qual)

    class H(Hooks):
        def event(self, text, call, it):
            m = re.fullmatch(r"(.+)\.licenses_in_file\.append\((\w+)\)", text)
            if m:
                return ("lic-append", m.group(2))
            return None

        def store(self, ttext, vtext, target, it):
            m = re.fullmatch(r".+\.(copyright|licenses_in_file|reuse_infos)", ttext)
            if m:
                return ("store", m.group(1), vtext)
            return None

        def raises(self, text, call, it):
            return []

    leaves = tabulate(fn, H())
    n_id_leaves = 0
    for d, leaf, _ in leaves:
        if leaf.outcome[0] != "return":
            continue
        ev = flat(leaf.events)
        apps = [(c, e) for c, e in ev if e[0] == "lic-append"]
        n_id_leaves += 1
        short = {k.split("::")[-1]: v for k, v in d.items()}
        r.instance("path:" + show_valuation(short), None, qual)
        ok = any(
            c == ("each reuse_info", "each expression", "each identifier") and e[1] == "identifier"
            for c, e in apps
        )
        if not ok:
            r.violation(qual, f"licenses_in_file not appended when [{show_valuation(short)}]",
                        "every identifier of every expression of every source must be recorded",
                        repo.loc(fn), {"appends": [repr(a) for a in apps]})
        stores = {e[1]: e[2] for c, e in ev if e[0] == "store"}
        cp = stores.get("copyright", "")
        want = "'\\n'.join(sorted((line for reuse_info in project.reuse_info_of(Path(path)) for line in reuse_info.copyright_lines)))"
        cp_ast = ast.parse(cp, mode="eval").body if cp else None
        good = False
        if isinstance(cp_ast, ast.Call) and ast.unparse(cp_ast.func).endswith(".join") and cp_ast.args:
            inner = cp_ast.args[0]
            if isinstance(inner, ast.Call) and ast.unparse(inner.func) == "sorted":
                inner = inner.args[0]
            if isinstance(inner, (ast.GeneratorExp, ast.ListComp, ast.SetComp)):
                gens = inner.generators
                good = (
                    len(gens) == 2
                    and not gens[0].ifs and not gens[1].ifs
                    and ast.unparse(gens[0].iter) == stores.get("reuse_infos")
                    and re.fullmatch(r"project\.reuse_info_of\((Path\()?path\)?\)", ast.unparse(gens[0].iter))
                    and ast.unparse(gens[1].iter) == f"{ast.unparse(gens[0].target)}.copyright_lines"
                    and ast.unparse(inner.elt) == ast.unparse(gens[1].target)
                )
        if not good:
            r.violation(qual, "copyright field", f"report.copyright = {cp[:120]} does not join every"
                        " copyright line of every source", repo.loc(fn), {"expected_shape": want})
    r.floor(2, "returning paths of FileReport.generate", got=n_id_leaves)


def rule_data_key(ck: Check, repo: Repo) -> None:
    r = ck.rule("R6", "bundled SPDX lists carry the keys the report reads")
    res = repo.src / "reuse" / "resources"
    for name, top, key in (("licenses.json", "licenses", "licenseId"),
                           ("exceptions.json", "exceptions", "licenseExceptionId")):
        data = json.loads((res / name).read_text(encoding="utf-8"))
        entries = data[top]
        r.floor(50, f"entries of {name}", got=len(entries))
        missing = [e.get(key) for e in entries if "isDeprecatedLicenseId" not in e or key not in e]
        r.instance(name, {"file": name, "entries": len(entries),
                          "deprecated": sum(1 for e in entries if e.get("isDeprecatedLicenseId"))})
        r.count(len(entries), prefix=name)
        if missing:
            r.violation(f"resources/{name}", "isDeprecatedLicenseId",
                        f"{len(missing)} entries lack isDeprecatedLicenseId/{key}: {missing[:3]}")


def rule_extensionless(ck: Check, repo: Repo, rid: str = "R10") -> None:
    """Clause (c): every file in LICENSES/ has a file extension.  _find_licenses learns that a file has none from
    SpdxIdentifierNotFoundError; every branch of that handler must either record the file in licenses_without_extension
    (which the verdict consults) or refuse it - a branch that merely picks an identifier accepts the file silently."""
    r = ck.rule(rid, "a LICENSES/ file without extension is always reported (every branch of the no-extension handler records or refuses it)")
    q = "reuse.project.Project._find_licenses"
    fn = repo.func(q)
    handlers = [h for n in ast.walk(fn) if isinstance(n, ast.Try) for h in n.handlers
                if h.type is not None and "SpdxIdentifierNotFoundError" in ast.unparse(h.type)]
    if len(handlers) != 1:
        raise AnalysisError("_find_licenses: SpdxIdentifierNotFoundError handler not found")

    def lit(test, positive):
        """Orientation-free spelling of a branch condition (`not X`, `a not in b` fold into the polarity)."""
        while True:
            if isinstance(test, ast.UnaryOp) and isinstance(test.op, ast.Not):
                test, positive = test.operand, not positive
            elif isinstance(test, ast.Compare) and len(test.ops) == 1 and isinstance(test.ops[0], (ast.NotIn, ast.IsNot, ast.NotEq)):
                flip = {ast.NotIn: ast.In, ast.IsNot: ast.Is, ast.NotEq: ast.Eq}[type(test.ops[0])]
                test, positive = ast.Compare(left=test.left, ops=[flip()], comparators=test.comparators), not positive
            else:
                break
        return ("" if positive else "not ") + ast.unparse(test)

    def branches(stmts, cond=()):
        """Leaf statement lists of an if/else tree."""
        if stmts and isinstance(stmts[-1], ast.If) or any(isinstance(s, ast.If) for s in stmts):
            out = []
            pre = []
            for s in stmts:
                if isinstance(s, ast.If):
                    out += branches(pre + s.body, cond + (lit(s.test, True),))
                    out += branches(pre + s.orelse, cond + (lit(s.test, False),))
                    return out
                pre.append(s)
        return [(cond, stmts)]

    for cond, stmts in branches(handlers[0].body):
        txt = " ".join(ast.unparse(s) for s in stmts)
        records = "licenses_without_extension[" in txt or "licenses_without_extension.add" in txt
        refuses = any(isinstance(x, ast.Raise) for s in stmts for x in ast.walk(s))
        r.instance("no-extension-branch:" + " and ".join(cond), {"condition": list(cond), "records": records, "refuses": refuses}, q)
        if not (records or refuses):
            r.violation(q, f"extension-less file accepted silently when [{' and '.join(cond)}]",
                        "the branch only chooses an identifier (and logs a warning): `LICENSES/LicenseRef-foo` without extension is used"
                        " like a proper licence text, lint exits 0 and names it nowhere", repo.loc(handlers[0]))



def run(ck: Check, repo: Repo) -> None:
    ck.explanation = (
        "Decides the wiring of the lint verdict: is_compliant as a boolean formula over the"
        " issue collections (truth-table equivalence with the NOR of the 8 categories, the"
        " category set derived from the class), the exit status of `lint` on every path"
        " (joint decision-tree exploration with the reference), the per-result effect table of"
        " ProjectReport.generate, the filters of files_without_*, and that FileReport fields"
        " cover every source. Not decided: that extraction/coverage underneath feeds the right"
        " information for every tree (C02-C06)."
    )
    ck.not_decided = ["correctness of extraction and coverage for every project tree (C02-C06)"]
    ck.trust("CPython ast", "decision-table tabulator sa/tab.py")
    rule_verdict(ck, repo)
    rule_exit(ck, repo)
    rule_propagation(ck, repo, "reuse.report.ProjectReport.generate", "R3", True)
    rule_file_sets(ck, repo, "ProjectReport", "R4")
    rule_file_fields(ck, repo)
    rule_data_key(ck, repo)
    # 'every covered file': which files are covered is decided by is_path_ignored (table shared with C03-R2)
    from . import c03
    c03.shared_decision(ck, repo, "R7")
    # clause (b): 'a known SPDX identifier or a LicenseRef-' - the LicenseRef- language and case-sensitivity (shared with C06-R5)
    from . import c06
    from ..fold import Folder
    c06.rule_language_and_case(ck, repo, Folder(repo), "R8")
    # clause (a): what is ATTRIBUTED to a covered file - the precedence table of Project.reuse_info_of (shared with C04-R1)
    from . import c04
    c04.rule_table(ck, repo, "R9")
    rule_extensionless(ck, repo)
    ck.exhaustive = True


def verdict_formula_plain(repo: Repo, qual: str) -> tuple:
    class _Ck:
        def analysed_fn(self, *a):
            pass

    return verdict_formula(repo, qual, _Ck(), None)  # type: ignore[arg-type]
