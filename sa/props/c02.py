"""C02 - tags are read exactly: reader tables vs writer tables, value languages, window table."""
from __future__ import annotations

import ast
import re
import re._constants as sc  # type: ignore

from ..fold import ClassVal, Folder, Record, Regex, is_unknown
from ..model import AnalysisError, Repo
from ..relang import Alphabet, Lang, in_both, parse
from ..report import Check
from ..tab import Hooks, show_valuation, tabulate

EX = "reuse.extract"
SPECIAL_ENDINGS = ['">', '" />', '"/>', "'>", "' />", "] ::", "]::"]


def style_tables(folder: Folder) -> list[dict]:
    fn = folder.known("reuse.comment", "_all_style_classes")
    classes = folder._apply(fn, [], {})
    if is_unknown(classes) or not isinstance(classes, list):
        raise AnalysisError(f"cannot fold _all_style_classes(): {classes}")
    out = []
    for c in classes:
        if not isinstance(c, ClassVal):
            raise AnalysisError("style table entry is not a class")
        t = folder.class_table(c)
        ml = t.get("MULTI_LINE")
        if not isinstance(ml, Record):
            raise AnalysisError(f"{c.qual}.MULTI_LINE did not fold")
        row = {"name": c.name, "qual": c.qual, "single": t.get("SINGLE_LINE"), "indent_single": t.get("INDENT_AFTER_SINGLE"),
               "start": ml.get("start"), "middle": ml.get("middle"), "end": ml.get("end"),
               "indent_before_middle": t.get("INDENT_BEFORE_MIDDLE"), "indent_after_middle": t.get("INDENT_AFTER_MIDDLE"),
               "indent_before_end": t.get("INDENT_BEFORE_END"), "shorthand": t.get("SHORTHAND"),
               "shebangs": t.get("SHEBANGS"), "regexp": t.get("SINGLE_LINE_REGEXP")}
        for k in ("single", "start", "middle", "end"):
            if not isinstance(row[k], str):
                raise AnalysisError(f"{c.qual}: {k} is not a constant string")
        out.append(row)
    return out


def end_pattern(folder: Folder) -> str:
    v = folder.known(EX, "_END_PATTERN")
    if not isinstance(v, str):
        raise AnalysisError("_END_PATTERN did not fold to a string")
    return v


# ------------------------------------------------------------------ R1
def rule_terminators(ck: Check, repo: Repo, folder: Folder, styles: list[dict]) -> None:
    r = ck.rule("R1", "terminator table: every style's multi-line end and the special endings are strippable")
    endp = end_pattern(folder)
    tree = parse(endp, 0)
    items = _norm(tree)
    if not items or items[-1] != (sc.AT, sc.AT_END):
        r.violation(f"{EX}._END_PATTERN", "pattern does not end in $", f"{endp[-20:]!r}", repo.loc(repo.module_assign(EX, "_END_PATTERN")))
    for op, av in items[:-1]:
        if op is not sc.MAX_REPEAT or av[0] != 0 or av[1] != sc.MAXREPEAT:
            r.violation(f"{EX}._END_PATTERN", "alternative is not starred",
                        "every terminator must be optional and repeatable ((?:X)*)", repo.loc(repo.module_assign(EX, "_END_PATTERN")))
    ends = sorted({s["end"] for s in styles if s["end"]})
    r.floor(10, "distinct multi-line terminators in the style tables", got=len(ends))
    alpha = Alphabet([(endp, 0)], extra="".join(ends) + "".join(SPECIAL_ENDINGS) + "ab ", exclude="\n\r")
    lang = Lang.from_regex(endp, 0, alpha, "full")
    for e in ends:
        users = [s["name"] for s in styles if s["end"] == e]
        ok = lang.accepts(e)
        r.instance(f"end:{e}", {"terminator": e, "styles": users, "strippable": ok}, f"{EX}._END_PATTERN")
        if not ok:
            r.violation(f"{EX}._END_PATTERN", f"terminator {e!r} of {users[0]} is not in the reader's end pattern",
                        f"a tag written in a {users} multi-line comment keeps {e!r} as part of its value",
                        repo.loc(repo.module_assign(EX, "_END_PATTERN")))
    # 'trailing blanks' are part of the quantifier: a terminator followed by blanks must still be stripped
    n_tb = 0
    for e in ends:
        ok_tb = lang.accepts(e + " ") and lang.accepts(e + "\t")
        n_tb += 1
        if not ok_tb:
            users = [s_["name"] for s_ in styles if s_["end"] == e]
            r.violation(f"{EX}._END_PATTERN", f"terminator {e!r} followed by trailing blanks is not stripped",
                        f"`… value {e} ` (blank or tab before the line end, styles {users[:3]}): the end pattern is anchored at `$` right after"
                        f" the terminators, so the lazy value group swallows the terminator; a licence value like `MIT {e}` does not"
                        f" parse and the file contributes nothing", repo.loc(repo.module_assign(EX, "_END_PATTERN")))
            break
    r.instance("trailing-blanks", {"terminators_checked": n_tb})
    for e in SPECIAL_ENDINGS:
        ok = lang.accepts(e)
        r.instance(f"special:{e}", {"ending": e, "strippable": ok})
        if not ok:
            r.violation(f"{EX}._END_PATTERN", f"special ending {e!r} is not strippable",
                        "XML attribute / reST directive endings must not become part of the value",
                        repo.loc(repo.module_assign(EX, "_END_PATTERN")))
    # stacked terminators: the pattern is a SEQUENCE (?:A)*(?:B)*...$, so which stacks are stripped depends on the order
    # of the groups.  Reference order = lexicographic order of the escaped fragments (what sorted() over the set gives);
    # every stack the reference order strips must still be stripped (language inclusion; a superset is fine)
    groups = re.findall(r"\(\?:(?:[^()\\]|\\.)*\)\*", endp)
    tail = endp[len("".join(groups)):] if endp.startswith("".join(groups)) else None
    if tail in ("$", "[ \\t]*$", "\\s*$", "[ \\t]*\\Z") and len(groups) >= 10:
        ref = "".join(sorted(groups)) + tail
        alpha2 = Alphabet([(endp, 0), (ref, 0)], extra="".join(ends) + "ab ", exclude="\n\r")
        from ..relang import in_a_not_b
        w = in_a_not_b(Lang.from_regex(ref, 0, alpha2, "full"), Lang.from_regex(endp, 0, alpha2, "full"))
        r.instance("stack-order", {"groups": len(groups), "reference_order": "sorted", "lost_stack": w})
        if w is not None:
            r.violation(f"{EX}._END_PATTERN", f"the stacked terminators {w!r} are no longer stripped",
                        f"the groups of the end pattern are tried in sequence; in the order {[g[3:-2] for g in groups][:6]}… the stack"
                        f" {w!r} (e.g. a JSX comment `{{/* … */}}`) stays attached to the value, which then does not parse and the file"
                        f" contributes nothing", repo.loc(repo.module_assign(EX, "_END_PATTERN")))
    else:
        raise AnalysisError("_END_PATTERN is no longer a plain sequence of (?:X)* groups")
    ck.extra["end_pattern"] = endp


# ------------------------------------------------------------------ R2
def _norm(x):
    """sre trees -> plain nested lists/tuples (SubPattern objects removed)."""
    import re._parser as sp  # type: ignore

    if isinstance(x, sp.SubPattern):
        return [_norm(i) for i in x]
    if isinstance(x, (list, tuple)):
        return type(x)(_norm(i) for i in x) if isinstance(x, tuple) else [_norm(i) for i in x]
    return x


def _seq(tree):
    return _norm(tree)


def rule_tag_shape(ck: Check, repo: Repo, folder: Folder) -> dict:
    r = ck.rule("R2", "tag patterns: ^ lazy-prefix TAG: blanks+ lazy-value END, per line")
    endp = end_pattern(folder)
    end_items = _seq(parse(endp, 0))
    tags = folder.known(EX, "_SPDX_TAGS")
    want = {"spdx_expressions": "SPDX-License-Identifier:", "contributor_lines": "SPDX-FileContributor:"}
    out = {}
    if not isinstance(tags, dict):
        raise AnalysisError("_SPDX_TAGS did not fold")
    for key, tag in want.items():
        rx = tags.get(key)
        r.instance(f"tag:{key}", {"key": key, "pattern_prefix": getattr(rx, "pattern", "")[:60]}, f"{EX}._SPDX_TAGS")
        if not isinstance(rx, Regex):
            r.violation(f"{EX}._SPDX_TAGS", f"no pattern for {key}", f"_SPDX_TAGS[{key!r}] is {rx!r}",
                        repo.loc(repo.module_assign(EX, "_SPDX_TAGS")))
            continue
        out[key] = rx
        problems = []
        if not rx.flags & re.MULTILINE:
            problems.append("MULTILINE flag missing (tags are matched per line)")
        items = _seq(parse(rx.pattern, rx.flags))
        i = 0

        def nxt():
            nonlocal i
            i += 1
            return items[i - 1] if i <= len(items) else (None, None)

        op, av = nxt()
        if (op, av) != (sc.AT, sc.AT_BEGINNING):
            problems.append("does not start with ^")
        op, av = nxt()
        lazy_any = [(sc.MIN_REPEAT, (0, sc.MAXREPEAT, [(sc.ANY, None)]))]
        if not (op is sc.SUBPATTERN and av[0] == 1 and av[3] == lazy_any):
            problems.append("group 1 is not a lazy (.*?) prefix")
        lit = []
        while i < len(items) and items[i][0] is sc.LITERAL:
            lit.append(chr(items[i][1]))
            i += 1
        if "".join(lit) != tag:
            problems.append(f"tag literal is {''.join(lit)!r}, expected {tag!r}")
        op, av = nxt()
        blanks = op is sc.MAX_REPEAT and av[0] >= 1 and av[1] == sc.MAXREPEAT and len(av[2]) == 1 and \
            av[2][0][0] is sc.IN and sorted(x for _, x in av[2][0][1]) == [9, 32]
        if not blanks:
            problems.append("the tag is not followed by one or more blanks/tabs ([ \\t]+)")
        op, av = nxt()
        if not (op is sc.SUBPATTERN and av[0] == 2 and av[3] == lazy_any):
            problems.append("group 2 is not a lazy (.*?) value")
        rest = items[i:]
        if repr(rest) != repr(end_items):
            problems.append("the value group is not directly followed by _END_PATTERN")
        for p in problems:
            r.violation(f"{EX}._SPDX_TAGS[{key}]", p, f"pattern {rx.pattern[:70]}…: {p}",
                        repo.loc(repo.module_assign(EX, "_SPDX_TAGS")))
    # copyright patterns end in END as well and have the three named groups
    cps = folder.known(EX, "_COPYRIGHT_PATTERNS")
    r.floor(3, "copyright patterns", got=len(cps) if isinstance(cps, list) else 0)
    for idx, rx in enumerate(cps):
        items = _seq(parse(rx.pattern, rx.flags))
        tail = items[-len(end_items):]
        r.instance(f"copyright-pattern:{idx}", {"index": idx, "ends_in_END": repr(tail) == repr(end_items)})
        if repr(tail) != repr(end_items):
            r.violation(f"{EX}._COPYRIGHT_PATTERNS[{idx}]", "does not end in _END_PATTERN",
                        "comment terminators would become part of the copyright statement",
                        repo.loc(repo.module_assign(EX, "_COPYRIGHT_PATTERNS")))
        names = set(re.compile(rx.pattern, rx.flags).groupindex)
        if not {"copyright", "prefix", "year", "statement"} <= names:
            r.violation(f"{EX}._COPYRIGHT_PATTERNS[{idx}]", "named groups", f"groups {sorted(names)}",
                        repo.loc(repo.module_assign(EX, "_COPYRIGHT_PATTERNS")))
    return out


# ------------------------------------------------------------------ R3
ID = r"[A-Za-z0-9.\-]"
V_REGEX = rf"(\(|\)|{ID}+\+?|DocumentRef-{ID}+:LicenseRef-{ID}+)( ?(\(|\)|{ID}+\+?|DocumentRef-{ID}+:LicenseRef-{ID}+))*$"


def rule_value_integrity(ck: Check, repo: Repo, folder: Folder, styles: list[dict]) -> None:
    r = ck.rule("R3", "no SPDX expression can lose a suffix to terminator or frame stripping (language emptiness)")
    endp = end_pattern(folder)
    prefixes = set()
    for s in styles:
        if s["single"]:
            prefixes.add((s["single"].strip(), s["name"], "single-line"))
        if s["middle"].strip():
            prefixes.add((s["middle"].strip(), s["name"], "multi-line middle"))
    extra = "".join(p for p, _, _ in prefixes)
    alpha = Alphabet([(endp, 0), (V_REGEX, 0)], extra=extra + "ab ", exclude="\n\r")
    V = Lang.from_regex(V_REGEX, 0, alpha, "full")
    # (a) Σ* · (L(END) \ {ε})
    nonempty_end = Lang.from_regex("(?:.*)(?:.)" + "$", 0, alpha, "full")  # placeholder, replaced below
    # strings with a non-empty suffix in L(END): search-mode END, excluding pure-ε matches, is
    # Σ* · L(END); every string is in it (ε suffix), so build Σ* · (one terminator atom) · L(END) instead
    atoms = [av[2] for op, av in parse(endp, 0) if op is sc.MAX_REPEAT]
    r.floor(10, "terminator alternatives", got=len(atoms))
    import re._parser as sp  # type: ignore
    n_hits = 0
    for sub in atoms:
        # reconstruct the alternative's source by matching candidates: use the NFA builder directly
        from ..relang import NFA

        nfa = NFA(alpha)
        pre = nfa.new()
        nfa.trans[pre].append((alpha.all(), pre))
        nfa.eps[nfa.start].append(pre)
        a, b = nfa.build(sub)
        nfa.eps[pre].append(a)
        nfa.eps[b].append(nfa.final)
        suffix_lang = Lang(nfa, "Σ*·terminator")
        w = in_both(V, suffix_lang)
        r.instance("terminator-suffix:" + repr(sub)[:40], {"expression_ending_in_terminator": w})
        if w is not None:
            n_hits += 1
            r.violation(f"{EX}._END_PATTERN", f"an SPDX expression can end in a terminator: {w!r}",
                        f"the value {w!r} would be truncated by terminator stripping",
                        repo.loc(repo.module_assign(EX, "_END_PATTERN")))
    # (b) mirrored frame prefix (find_spdx_tag strips value.endswith(prefix[::-1]))
    hits = {}
    for p, name, mode in sorted(prefixes):
        mirror = p[::-1]
        if any(ch not in alpha.index for ch in mirror):
            continue
        suffix_lang = Lang.from_parts(alpha, [("star", lambda ch: True), ("lit", mirror)], f"Σ*·{mirror}")
        w = in_both(V, suffix_lang)
        r.instance(f"mirror:{p}:{mode}", {"prefix": p, "style": name, "mode": mode, "truncated_expression": w})
        if w is not None:
            hits.setdefault(p, (w, []))[1].append(f"{name} ({mode})")
    for p, (w, users) in sorted(hits.items()):
        r.violation(f"{EX}.find_spdx_tag", f"mirrored-prefix strip can truncate a licence expression (prefix {p!r})",
                    f"in {', '.join(sorted(set(users)))} a tag line `{p} SPDX-License-Identifier: {w}` is read as"
                    f" {w[:-len(p)]!r}: the reversed line prefix {p[::-1]!r} is cut from the value",
                    repo.loc(repo.func(f"{EX}.find_spdx_tag")), {"witness_value": w, "styles": users})
    ck.extra["value_language"] = V_REGEX


# ------------------------------------------------------------------ R4
def rule_value_flow(ck: Check, repo: Repo) -> None:
    r = ck.rule("R4", "find_spdx_tag yields group 2 through whitespace stripping only (+ the guarded frame slice)")
    q = f"{EX}.find_spdx_tag"
    fn = repo.func(q)
    ck.analysed_fn(q)

    class H(Hooks):
        def atom(self, text, node, it):
            if text == "prefix.strip()[::-1]":
                return "has_prefix"
            if text == "value.strip().endswith(prefix.strip()[::-1])":
                return "mirrored"
            return None

    leaves = tabulate(fn, H())
    allowed = {
        "value.strip().strip()": "strip",
        "value.strip()": "strip",
        "value.strip()[:-len(prefix.strip()[::-1])].strip()": "frame",
        # str.removesuffix carries its own guard (a no-op for an empty suffix and for a value that does not end in it)
        "value.strip().removesuffix(prefix.strip()[::-1]).strip()": "frame-self-guarded",
    }
    for d, leaf, _ in leaves:
        ys = [e for e in leaf.events if e[0] == "each" and e[2][0] == "yield"]
        short = {k.split("::")[-1]: v for k, v in d.items()}
        r.instance("path:" + show_valuation(short), {"valuation": show_valuation(short), "yields": [e[2][1] for e in ys]})
        src = [e[1][0] for e in ys]
        if not ys:
            r.violation(q, f"no value yielded when [{show_valuation(short)}]", "a matched tag must contribute its value",
                        repo.loc(fn))
        for e in ys:
            if "pattern.findall(text)" not in e[1][0]:
                r.violation(q, "values do not come from pattern.findall(text)", e[1][0], repo.loc(fn))
            kind = allowed.get(e[2][1])
            if kind is None:
                r.violation(q, f"value transformed by {e[2][1]}",
                            "the captured value may only be whitespace-stripped before it is yielded", repo.loc(fn))
            elif kind == "frame" and not (short.get("has_prefix") and short.get("mirrored")):
                r.violation(q, "frame slice without its guard",
                            "the mirrored-suffix slice must be guarded by `suffix and value.endswith(suffix)`", repo.loc(fn))
    self_guarded = any(allowed.get(e[2][1]) == "frame-self-guarded" for _, leaf, _ in leaves for e in leaf.events
                       if e[0] == "each" and e[2][0] == "yield")
    r.floor(1 if self_guarded else 2, "paths of find_spdx_tag", got=len(leaves))


# ------------------------------------------------------------------ R5/R6/R7
def rule_window(ck: Check, repo: Repo, folder: Folder, rid: str = "R5") -> None:
    r = ck.rule(rid, "4 KiB window / snippet / seek order; parse error ⇒ no information; lossy-free decode")
    q = f"{EX}.reuse_info_of_file"
    fn = repo.func(q)
    ck.analysed_fn(q, f"{EX}._contains_snippet", f"{EX}.decoded_text_from_binary")
    hb = folder.known(EX, "_HEADER_BYTES")
    r.instance("_HEADER_BYTES", {"value": hb})
    if hb != 4096:
        r.violation(f"{EX}._HEADER_BYTES", f"window is {hb} bytes", "tags are looked for in the first 4 KiB (4096 bytes)",
                    repo.loc(repo.module_assign(EX, "_HEADER_BYTES")))

    class H(Hooks):
        def atom(self, text, node, it):
            if text.startswith("_contains_snippet("):
                return "snippet"
            if text.endswith(".contains_copyright_or_licensing()"):
                return "has_info"
            if text.endswith(".contains_info()"):
                return "has_any_info"
            if text == "Path(path).suffix == '.license'":
                return "dot_license"
            return None

        def event(self, text, call, it):
            f = ast.unparse(call.func)
            if f.endswith(".seek"):
                return ("seek", text)
            if f == "decoded_text_from_binary":
                size = [it.ev(kw.value) for kw in call.keywords if kw.arg == "size"]
                if not size and len(call.args) > 1:
                    size = [it.ev(call.args[1])]
                from ..tab import vtext
                return ("decode", vtext(size[0]) if size else "<whole file>")
            if f == "_contains_snippet":
                return ("snippet-test", text)
            if f.endswith(".open"):
                return ("open", text)
            return None

        def raises(self, text, call, it):
            if ast.unparse(call.func) == "extract_reuse_info":
                return ["ExpressionError", "ParseError"]
            return []

    leaves = tabulate(fn, H())
    r.floor(6, "paths through reuse_info_of_file", got=len(leaves))
    for d, leaf, _ in leaves:
        ev = [e for e in leaf.events if e[0] in ("seek", "decode", "snippet-test", "open")]
        kinds = [e[0] for e in ev]
        r.instance("path:" + show_valuation(d), {"valuation": show_valuation(d), "events": kinds, "outcome": leaf.outcome[:2]})
        raised = any(k.startswith("raise[") and v for k, v in d.items())
        want_size = "None" if d.get("snippet") else "_HEADER_BYTES"
        dec = [e for e in ev if e[0] == "decode"]
        if kinds != ["open", "snippet-test", "seek", "decode"]:
            r.violation(q, f"event order {kinds}", "expected open('rb'), snippet test, seek(0), bounded decode",
                        repo.loc(fn), {"valuation": d})
            continue
        if "'rb'" not in ev[0][1]:
            r.violation(q, "file not opened in binary mode", ev[0][1], repo.loc(fn))
        if not ev[2][1].endswith(".seek(0)"):
            r.violation(q, "read position not reset to 0 after the snippet scan", ev[2][1], repo.loc(fn))
        if dec[0][1] != want_size:
            r.violation(q, f"read limit {dec[0][1]} when snippet={d.get('snippet')}",
                        f"the window must be {want_size}", repo.loc(fn))
        if raised:
            if leaf.outcome[:2] != ("return", "ReuseInfo()"):
                r.violation(q, "unparseable expression still contributes information",
                            f"after a parse error the function returns {leaf.outcome[1][:80]}, expected an empty ReuseInfo()",
                            repo.loc(fn))
        elif d.get("has_info") is False:
            if leaf.outcome[:2] != ("return", "ReuseInfo()"):
                r.violation(q, "no-information path", f"returns {leaf.outcome[1][:80]}", repo.loc(fn))
        elif d.get("has_info"):
            out = leaf.outcome[1]
            st = "SourceType.DOT_LICENSE" if d.get("dot_license") else "SourceType.FILE_HEADER"
            if not (out.startswith("extract_reuse_info(decoded_text_from_binary(") and f"source_type={st}" in out
                    and "source_path=relative_from_root(Path(path), root).as_posix()" in out
                    and "path=relative_from_root(original_path, root).as_posix()" in out):
                r.violation(q, f"result provenance when dot_license={d.get('dot_license')}",
                            f"returns {out[:160]}", repo.loc(fn))
    # _contains_snippet: the indicator is searched in the whole content (not chunk by chunk)
    cs = repo.func(f"{EX}._contains_snippet")
    ind = folder.known(EX, "SPDX_SNIPPET_INDICATOR")
    reads = [c for c in ast.walk(cs) if isinstance(c, ast.Call) and isinstance(c.func, ast.Attribute) and c.func.attr == "read"]
    whole = [c for c in reads if not c.args and not c.keywords]
    sized = [c for c in reads if c.args or c.keywords]
    tests = [n for n in ast.walk(cs) if isinstance(n, ast.Compare) and any(isinstance(o, ast.In) for o in n.ops)
             and "SPDX_SNIPPET_INDICATOR" in ast.unparse(n.left)]
    in_loop = any(isinstance(l, (ast.For, ast.While)) and any(t in list(ast.walk(l)) for t in tests) for l in ast.walk(cs))
    r.instance("_contains_snippet", {"whole_file_reads": len(whole), "sized_reads": len(sized), "membership_tests": len(tests),
                                     "test_inside_loop": in_loop, "indicator": repr(ind)})
    if ind != b"SPDX-SnippetBegin":
        r.violation(f"{EX}.SPDX_SNIPPET_INDICATOR", "snippet indicator", f"{ind!r}", repo.loc(cs))
    if sized and in_loop:
        r.violation(f"{EX}._contains_snippet", "snippet marker searched chunk by chunk",
                    "a marker that straddles a chunk boundary is in neither chunk: the file is then treated as snippet-free and"
                    " only its first 4 KiB are scanned", repo.loc(sized[0]))
    elif not (len(whole) == 1 and not sized and len(tests) >= 1 and not in_loop):
        raise AnalysisError("_contains_snippet: unrecognised way of searching the snippet marker (neither a whole-file read"
                            " nor a chunk loop)")
    # ... and the answer has the polarity of the membership test: True when the indicator is in the content
    for t in tests:
        par = None
        for n in ast.walk(cs):
            if isinstance(n, ast.If) and n.test is t:
                par = n
            if isinstance(n, ast.Return) and n.value is t:
                par = "returned"
        if par == "returned":
            continue
        if isinstance(par, ast.If):
            rets = [x for x in par.body if isinstance(x, ast.Return) and isinstance(x.value, ast.Constant)]
            r.instance("_contains_snippet-polarity", {"returns_when_found": rets[0].value.value if rets else None}, f"{EX}._contains_snippet")
            if rets and rets[0].value.value is not True:
                r.violation(f"{EX}._contains_snippet", "the answer is inverted",
                            "a file that contains the snippet marker is reported snippet-free: only its first 4 KiB are scanned and the"
                            " information in its snippets is lost", repo.loc(par))
    # R6 decode
    dq = f"{EX}.decoded_text_from_binary"
    dfn = repo.func(dq)
    calls = [n for n in ast.walk(dfn) if isinstance(n, ast.Call)]
    dec = [c for c in calls if isinstance(c.func, ast.Attribute) and c.func.attr == "decode"]
    rep = [c for c in calls if isinstance(c.func, ast.Attribute) and c.func.attr == "replace"]
    okd = len(dec) == 1 and [ast.unparse(a) for a in dec[0].args] == ["'utf-8'"] and \
        any(kw.arg == "errors" and ast.unparse(kw.value) == "'replace'" for kw in dec[0].keywords)
    okr = any([ast.unparse(a) for a in c.args] == ["'\\r\\n'", "'\\n'"] for c in rep)
    r.instance(dq, {"decode_cannot_raise": okd, "crlf_folded": okr})
    if not okd:
        r.violation(dq, "decode can raise or is not UTF-8/replace", "undecodable bytes must be replaced, not raise",
                    repo.loc(dfn))
    if not okr:
        r.violation(dq, "CRLF not folded", "CRLF line endings must be folded to LF before tag search", repo.loc(dfn))
    # what is handed to the tag search is the decoded window with line endings folded - nothing else: a helper that clips,
    # filters or rewrites the text between decode and return changes what the ignore filter and the tag patterns see
    rets = [n for n in ast.walk(dfn) if isinstance(n, ast.Return) and n.value is not None]
    from ..rules import resolve_deep as _rd2
    for rt in rets:
        e = _rd2(dfn, rt.value)
        steps = []
        while isinstance(e, ast.Call) and isinstance(e.func, ast.Attribute) and e.func.attr == "replace" and len(e.args) == 2 \
                and all(isinstance(a, ast.Constant) for a in e.args) and (e.args[0].value, e.args[1].value) in (("\r\n", "\n"), ("\r", "\n")):
            steps.append(e.args[0].value)
            e = e.func.value
        plain = isinstance(e, ast.Call) and isinstance(e.func, ast.Attribute) and e.func.attr == "decode"
        r.instance(dq + ":return", {"folds": steps, "decoded_text_otherwise_untouched": plain})
        if not plain:
            r.violation(dq, "the decoded text is altered (beyond folding line endings) before it is returned",
                        f"`return {ast.unparse(rt.value)[:70]}`: whatever clips, filters or rewrites the window here decides what the ignore-block"
                        " filter and the tag patterns get to see - a marker or tag beyond a clip point is lost although it lies inside the"
                        " scanned window", repo.loc(rt))
    # what is decoded is exactly what was read: the window may not be shortened or filtered in between
    from ..rules import resolve_deep as _rdeep
    if len(dec) == 1:
        src_b = _rdeep(dfn, dec[0].func.value)
        is_read = isinstance(src_b, ast.Call) and isinstance(src_b.func, ast.Attribute) and src_b.func.attr == "read" \
            and ast.unparse(src_b.func.value) == dfn.args.args[0].arg
        r.instance(dq + ":bytes", {"decoded_bytes": ast.unparse(src_b)[:80], "exactly_what_was_read": is_read})
        if not is_read:
            r.violation(dq, "the bytes read are altered before they are decoded",
                        f"`{ast.unparse(dec[0].func.value)}` is not the result of `{dfn.args.args[0].arg}.read(…)` alone (it is reassigned, sliced or"
                        f" filtered first): part of the window - with a slice bound computed from find()/rfind(), possibly all of it when"
                        f" the separator does not occur - never reaches the tag search", repo.loc(dec[0]))
    # the licence/contributor patterns know only \n as a line break (MULTILINE ^/$; `.` matches \r), while the copyright
    # scan uses str.splitlines(): a lone CR must be folded as well or a tag's value runs on over the following lines
    okc = any([ast.unparse(a) for a in c.args] == ["'\\r'", "'\\n'"] for c in rep) or \
        any(isinstance(c.func, ast.Attribute) and c.func.attr == "splitlines" for c in calls) or \
        any(ast.unparse(c.func) in ("re.sub",) and "\\r" in ast.unparse(c.args[0]) for c in calls if c.args)
    r.instance(dq + ":cr", {"lone_cr_folded": okc})
    if not okc:
        r.violation(dq, "lone CR line endings are not folded",
                    "in a file with CR-only line endings `(.*?)…$` of the licence tag pattern runs to the end of the text (the"
                    " value swallows every following line), the expression becomes unparseable and the whole file contributes"
                    " nothing; the copyright scan (splitlines) would have split on CR", repo.loc(dfn))


def rule_notice_per_line(ck: Check, repo: Repo) -> None:
    r = ck.rule("R7", "extract_reuse_info: one notice per line (first matching pattern), all tags of _SPDX_TAGS")
    q = f"{EX}.extract_reuse_info"
    fn = repo.func(q)
    ck.analysed_fn(q)
    loops = [n for n in ast.walk(fn) if isinstance(n, ast.For) and ast.unparse(n.iter) == "_COPYRIGHT_PATTERNS"]
    r.floor(1, "copyright pattern loops", got=len(loops))
    for lp in loops:
        ifs = [n for n in lp.body if isinstance(n, ast.If)]
        ok = bool(ifs) and isinstance(ifs[0].body[-1], ast.Break) and "match is not None" in ast.unparse(ifs[0].test)
        outer = None
        for n in ast.walk(fn):
            if isinstance(n, ast.For) and lp in n.body:
                outer = n
        lines_ok = outer is not None and ast.unparse(outer.iter) == "text.splitlines()"
        add_ok = any("copyright_matches.add(match.groupdict()['copyright'].strip())" in ast.unparse(s) for s in ifs[0].body) if ifs else False
        r.instance("copyright-loop", {"breaks_at_first_match": ok, "per_line": lines_ok, "adds_copyright_group": add_ok})
        if not ok:
            r.violation(q, "pattern loop does not stop at the first match", "a line must yield one notice", repo.loc(lp))
        if not lines_ok:
            r.violation(q, "copyright patterns are not applied per line of the filtered text", "", repo.loc(lp))
        if not add_ok:
            r.violation(q, "matched notice not recorded", "the `copyright` group (stripped) must be added", repo.loc(lp))
    tag_loop = [n for n in ast.walk(fn) if isinstance(n, ast.For) and ast.unparse(n.iter) == "_SPDX_TAGS.items()"]
    ok = bool(tag_loop) and any("set(find_spdx_tag(text, pattern))" in ast.unparse(s) for s in tag_loop[0].body)
    r.instance("tag-loop", {"all_tags_searched": ok})
    if not ok:
        r.violation(q, "tag table loop", "every entry of _SPDX_TAGS must be searched with find_spdx_tag(text, pattern)",
                    repo.loc(fn))
    # parse errors are re-raised (so that the caller can drop the file)
    handlers = [n for n in ast.walk(fn) if isinstance(n, ast.ExceptHandler)]
    rer = all(isinstance(h.body[-1], ast.Raise) and h.body[-1].exc is None for h in handlers)
    r.instance("parse-error-reraise", {"handlers": len(handlers), "reraise": rer})
    if not handlers or not rer:
        r.violation(q, "parse error swallowed", "an unparseable expression must propagate", repo.loc(fn))


# ------------------------------------------------------------------ R9
def rule_syntax_blind(ck: Check, repo: Repo, folder: Folder, styles: list[dict], rid: str = "R9") -> None:
    """'The surrounding decoration never removes part of the value.'  The end pattern is one constant built from the
    terminators of ALL comment syntaxes and the reader gets only text - it cannot know which syntax a line is written in.
    So every terminator of the table is cut from the end of a value in every file, also where it is not decoration
    (`# SPDX-FileCopyrightText: 2020 ACME {Inc}` in a Python file)."""
    from ..rules import param_names
    r = ck.rule(rid, "a free-text value keeps its own last characters (the reader strips a terminator only where it is the line's comment syntax)")
    readers = [f"{EX}.extract_reuse_info", f"{EX}.find_spdx_tag"]
    aware = []
    for q in readers:
        if not repo.has_func(q):
            continue
        fn = repo.func(q)
        ck.analysed_fn(q)
        src = ast.unparse(fn)
        if any("style" in p.lower() for p in param_names(fn)) or "CommentStyle" in src or "get_comment_style" in src:
            aware.append(q)
    endp = end_pattern(folder)
    ends = sorted({s["end"] for s in styles if s["end"]})
    alpha = Alphabet([(endp, 0)], extra="".join(ends) + "ab ", exclude="\n\r")
    lang = Lang.from_regex(endp, 0, alpha, "full")
    cut = [e for e in ends if lang.accepts(e) and not e[0].isspace()]
    r.instance("reader-syntax-input", {"readers": readers, "syntax_aware": aware, "terminators_cut_everywhere": cut}, f"{EX}._END_PATTERN")
    if aware:
        ck.assumptions.append(f"C02-{rid}: {aware} receive comment-syntax information; which terminators are cut per syntax is not decided")
        return
    if cut:
        r.violation(f"{EX}._END_PATTERN", "a free-text value that ends in a comment terminator of any syntax loses it",
                    f"`# SPDX-FileCopyrightText: 2020 ACME {{Inc}}` in a Python file is read as `… ACME {{Inc`; `# SPDX-FileContributor: smile :)`"
                    f" as `smile`: the end pattern strips {cut[:6]}… in every file because the reader is given text only, not the"
                    " syntax of the line", repo.loc(repo.module_assign(EX, "_END_PATTERN")))


# ------------------------------------------------------------------ R10
def rule_window_cut(ck: Check, repo: Repo, rid: str = "R10") -> None:
    """'A tag is recognised with exactly the value its author wrote.'  The window is a byte count, not a line count: the
    line that straddles byte 4096 reaches the tag search cut short, and a tag on it is read with the cut value
    (`GPL-3.0-or-` for `GPL-3.0-or-later`).  Decided: whether anything between the sized read and the tag search treats
    the last, possibly incomplete, line of a full window differently from the others."""
    r = ck.rule(rid, "a line cut by the 4 KiB window is not interpreted as if it were complete")
    qs = [f"{EX}.decoded_text_from_binary", f"{EX}.reuse_info_of_file"]
    handles = []
    for q in qs:
        fn = repo.func(q)
        ck.analysed_fn(q)
        for c in ast.walk(fn):
            if isinstance(c, ast.Call) and isinstance(c.func, ast.Attribute) and c.func.attr in ("rfind", "rindex", "rpartition", "rsplit", "readline", "readlines"):
                handles.append(f"{q.split('.')[-1]}: {ast.unparse(c)[:50]}")
    sized = any(isinstance(c, ast.Call) and isinstance(c.func, ast.Attribute) and c.func.attr == "read" and c.args
                for c in ast.walk(repo.func(qs[0])))
    r.instance("window-tail", {"sized_read": sized, "last_line_handling": handles})
    if not sized:
        ck.assumptions.append(f"C02-{rid}: the window is no longer a sized read; the cut-line clause is not decided")
        return
    if not handles:
        r.violation(qs[1], "the last line of a full window is searched like a complete line",
                    "a header whose `SPDX-License-Identifier: GPL-3.0-or-later` line straddles byte 4096 is read as `GPL-3.0-or-`: lint"
                    " reports a bad and missing licence that occurs nowhere in the file (and a copyright notice cut the same way)",
                    repo.loc(repo.func(qs[1])))


def run(ck: Check, repo: Repo) -> None:
    ck.explanation = (
        "Reader tables against writer tables: every multi-line terminator of the 29 folded comment styles and the"
        " special endings lie in L(_END_PATTERN) (automaton membership); the two tag patterns have the shape"
        " ^(.*?)TAG:[ \\t]+(.*?)END on the regex syntax tree; no string of the SPDX expression language can end in a"
        " terminator or in a mirrored line prefix (language-intersection emptiness with witnesses); the yielded"
        " value passes only through strip() and the guarded frame slice (path tabulation); the 4 KiB/snippet/seek"
        " table of reuse_info_of_file; lossy-free decode. R9: the reader is not given the comment syntax, so a free-text value ending"
        " in any terminator loses it (recorded finding). Not decided: capture behaviour of backtracking beyond the shape argument."
    )
    ck.not_decided = ["regex backtracking behaviour beyond the syntax-tree shape"]
    ck.trust("CPython ast", "re._parser", "sa/fold.py", "sa/relang.py", "sa/tab.py")
    folder = Folder(repo)
    styles = style_tables(folder)
    ck.extra["styles"] = len(styles)
    if len(styles) < 29:
        raise AnalysisError(f"style-class floor: {len(styles)} < 29")
    rule_terminators(ck, repo, folder, styles)
    rule_tag_shape(ck, repo, folder)
    rule_value_integrity(ck, repo, folder, styles)
    rule_value_flow(ck, repo)
    rule_window(ck, repo, folder)
    rule_notice_per_line(ck, repo)
    from . import c07
    c07.rule_tables_roundtrip(ck, repo, folder, "R8")
    rule_syntax_blind(ck, repo, folder, styles)
    rule_window_cut(ck, repo)
    # an empty tag value parses to None: it must not be stored as an expression (shared with C07-R12)
    c07.rule_parse_none(ck, repo, "R11")
    # 'exactly the value its author wrote': the expression parser keeps identifiers as written (no symbol table) (shared with C06-R5)
    from . import c06
    c06.rule_language_and_case(ck, repo, folder, "R12")
    # order hazards met while folding (reported under C14, noted here)
    for h in folder.hazards:
        if "extract" in h.context:
            ck.assumptions.append(f"{h.context}: {h.what} at {h.where}; canonical (sorted) order used for the language checks")
