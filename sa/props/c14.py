"""C14 - results do not depend on scheduling, enumeration order or hash seed: order taint."""
from __future__ import annotations

import ast
import re

from ..callgraph import CallGraph
from ..fold import Folder
from ..model import AnalysisError, Repo, parent_of
from ..relang import Lang, difference
from ..report import Check
from ..rules import find_calls
from ..taint import OrderTaint, Sink
from ..typed import TypeFacts

MAIN = "reuse.cli.main.main"


def discharge(repo: Repo, s: Sink) -> str | None:
    """Reason why a sink is order-insensitive after all (checked side condition), or None."""
    q = s.function
    txt = ast.unparse(s.node)
    if s.kind == "S1" and q == "reuse.global_licensing.AnnotationsItem.__attrs_post_init__":
        from . import c05
        m = c05.Matcher(repo)
        if m.sorted_iter:
            return "the globs are sorted before they are joined"
        alpha = c05.path_alphabet()
        mode = m.mode or "match"
        for pair in (["a", "b/*"], ["*.a", "a/**"], ["a*", "*b"], ["a/*", "a"]):
            l1 = Lang.from_regex(m.regex_for(pair), m.flags, alpha, mode)
            l2 = Lang.from_regex(m.regex_for(list(reversed(pair))), m.flags, alpha, mode)
            if difference(l1, l2) is not None:
                return None
        mf = repo.func("reuse.global_licensing.AnnotationsItem.matches")
        rets = [ast.unparse(n.value) for n in ast.walk(mf) if isinstance(n, ast.Return)]
        if len(rets) == 1 and re.fullmatch(r"bool\(self\._paths_regex\.(match|fullmatch|search)\(path\)\)|self\._paths_regex\.(match|fullmatch|search)\(path\) is not None", rets[0]):
            return ("alternation of individually anchored operands: the compiled language is the same for either order of the"
                    f" operands (automata equivalence on 4 glob pairs) and the pattern is only used for the truthiness of .{mode if mode != 'full' else 'fullmatch'}")
        return None
    if s.kind == "S2":
        # a constant subscript that only feeds the message of a raised exception
        p = parent_of(s.node)
        while p is not None and not isinstance(p, ast.stmt):
            p = parent_of(p)
        if isinstance(p, ast.Raise):
            return "the element only appears in the message of a raised exception (the exit status and the decision do not depend on it)"
        # guarded by len(x) == 1
        base = ast.unparse(s.node.value) if isinstance(s.node, ast.Subscript) else ""
        cur = s.node
        while cur is not None:
            par = parent_of(cur)
            if isinstance(par, ast.If) and re.search(rf"len\({re.escape(base)}\) == 1", ast.unparse(par.test)):
                return f"guarded by len({base}) == 1: a single element has no order"
            if isinstance(par, ast.BoolOp) and isinstance(par.op, ast.And) and re.search(rf"len\({re.escape(base)}\) == 1", ast.unparse(par.values[0])):
                return f"guarded by len({base}) == 1: a single element has no order"
            cur = par
        return None
    return None


def rule_module_constants(ck: Check, repo: Repo) -> None:
    r = ck.rule("R0", "module-level constants on the lint path do not consume a set in iteration order")
    folder = Folder(repo)
    names = [("reuse.extract", n) for n in ("_END_PATTERN", "_LICENSE_IDENTIFIER_PATTERN", "_CONTRIBUTOR_PATTERN", "_COPYRIGHT_PATTERNS",
                                             "_LICENSEREF_PATTERN", "_SPDX_TAGS")] + \
            [("reuse.covered_files", n) for n in ("_IGNORE_DIR_PATTERNS", "_IGNORE_FILE_PATTERNS", "_IGNORE_MESON_PARENT_DIR_PATTERNS")] + \
            [("reuse.comment", n) for n in ("NAME_STYLE_MAP", "EXTENSION_COMMENT_STYLE_MAP_LOWERCASE", "FILENAME_COMMENT_STYLE_MAP_LOWERCASE")] + \
            [("reuse.copyright", "_COPYRIGHT_PREFIXES"), ("reuse._licenses", "ALL_NON_DEPRECATED_MAP") if False else ("reuse.global_licensing", "_TOML_KEYS")]
    for mod, name in names:
        folder.known(mod, name)
        r.instance(f"{mod}.{name}", None, f"{mod}.{name}")
    seen = set()
    for h in folder.hazards:
        key = (h.context, h.what)
        if key in seen:
            continue
        seen.add(key)
        r.instance(f"hazard:{h.context}", {"constant": h.context, "hazard": h.what, "where": h.where})
        r.violation(h.context, "constant built from a set in iteration order",
                    f"{h.what} at {h.where}: the value of {h.context} differs between runs with different PYTHONHASHSEED"
                    f" (for _END_PATTERN: the order in which comment terminators are stripped, hence what a tag's value is)",
                    h.where)
    r.floor(12, "module constants folded", got=len(names))


def rule_sinks(ck: Check, repo: Repo, cg: CallGraph, ot: OrderTaint) -> None:
    r = ck.rule("R1", "no order-tainted value reaches a content-affecting sink on the lint / lint-file / spdx paths")
    cmds = repo.commands()
    roots = [MAIN] + [repo.qualname_of(cmds[c]) for c in ("lint", "lint-file", "spdx")] + ["reuse.report._MultiprocessingContainer.__call__"]
    reach = cg.reachable(roots)
    ck.extra["reachable_functions"] = len(reach)
    ck.extra.setdefault("hygiene_scope", []).extend(sorted(reach))
    if len(reach) < 80:
        raise AnalysisError(f"reach set of lint/spdx too small: {len(reach)}")
    scope = sorted(reach)
    if ck.tier == "thorough":
        # every function of the package except those only reachable from the writing commands (annotate: C10; download, convert-dep5)
        others = cg.reachable([MAIN] + [repo.qualname_of(cmds[c]) for c in ("annotate", "download", "convert-dep5")])
        scope = sorted(set(reach) | (set(repo.functions) - set(others)))
    ck.extra["functions_in_scope"] = len(scope)
    sinks = ot.sinks(scope)
    n_iter = len(ot.set_iterations)
    r.count(n_iter, prefix="unordered-iteration")
    ck.extra["unordered_iterations"] = [f"{q} {repo.loc(n)}: {ast.unparse(n.iter)[:40]} <- {s}" for q, n, s in ot.set_iterations]
    r.floor(10, "iterations over unordered values seen on the lint/spdx paths", got=n_iter)
    for s in sinks:
        why = discharge(repo, s)
        r.instance(f"sink:{s.kind}:{s.function}:{ast.unparse(s.node)[:40]}",
                   {"sink": s.kind, "function": s.function, "what": s.why, "order_source": s.source, "discharged": why}, s.function)
        if why is None:
            r.violation(s.function, f"{s.kind}: {s.why}",
                        f"order comes from {s.source}; the result differs between runs that enumerate in a different order",
                        repo.loc(s.node))
    # positive control: the engine must see an os.walk-ordered value and a set-typed iteration
    if not any("os.walk" in s for _, _, s in ot.set_iterations) or not any("set" in s for _, _, s in ot.set_iterations):
        raise AnalysisError("C14-R1 positive control failed: no os.walk / set iteration recognised")
    # canonisers that today's tree relies on
    fr = repo.func("reuse.report.FileReport.generate")
    src = re.sub(r"\s+", " ", ast.unparse(fr))
    # structural: a string joined from set-ordered pieces is canonised before it is stored (simplify() sorts the operands of the
    # concluded licence; the notices of the copyright text are sorted) - whatever the pieces are called
    def _canonised(expr: ast.AST, canonisers: tuple) -> bool:
        """Some call on the path from the join to the stored value is a canoniser (`X.simplify()`, `sorted(...)` around or
        inside the join's argument)."""
        for n in ast.walk(expr):
            if isinstance(n, ast.Call):
                f = n.func
                if isinstance(f, ast.Attribute) and f.attr in canonisers:
                    return True
                if isinstance(f, ast.Name) and f.id in canonisers:
                    return True
        return False

    from ..rules import deep_text
    joins = [n for n in ast.walk(fr) if isinstance(n, ast.Call) and isinstance(n.func, ast.Attribute) and n.func.attr == "join"
             and isinstance(n.func.value, ast.Constant)]
    and_joins = [n for n in joins if n.func.value.value.strip() == "AND"]
    joined = True
    for j in and_joins:
        # the statement that contains the join (resolved through single-assignment locals)
        st = j
        while parent_of(st) is not None and not isinstance(st, ast.stmt):
            st = parent_of(st)
        text = deep_text(fr, st.value) if isinstance(st, (ast.Assign, ast.AnnAssign)) and st.value is not None else ast.unparse(st)
        tgt = st.targets[0].id if isinstance(st, ast.Assign) and isinstance(st.targets[0], ast.Name) else None
        uses = [deep_text(fr, n2.value) for n2 in ast.walk(fr) if tgt and isinstance(n2, ast.Assign) and n2 is not st
                and any(isinstance(x, ast.Name) and x.id == tgt for x in ast.walk(n2.value))]
        ok_here = ".simplify()" in text or any(".simplify()" in u for u in uses)
        joined = joined and ok_here
    r.instance("license_concluded-canonised", {"and_joins": len(and_joins), "simplify_after_join": joined})
    if and_joins and not joined:
        r.violation("reuse.report.FileReport.generate", "S5: concluded licence joins a set without canonising",
                    "the ' AND '.join over set-ordered expressions must go through simplify() (sorts operands) before it is rendered",
                    repo.loc(fr))
    cps = [n for n in ast.walk(fr) if isinstance(n, ast.Assign) and any(ast.unparse(t) == "report.copyright" for t in n.targets)]
    cp = bool(cps) and all(_canonised(ast.parse(deep_text(fr, n.value), mode="eval").body, ("sorted",)) for n in cps)
    r.instance("copyright-text-sorted", {"assignments": len(cps), "sorted": cp})
    if not cp:
        r.violation("reuse.report.FileReport.generate", "S5: FileCopyrightText joins notices without sorting", "", repo.loc(fr))
    # the ORDER of the entries of the SPDX document (file sections, LicenseInfoInFile lines, extracted licences) is outside the
    # property ("identical up to ordering of entries"): no clause on it


def rule_pool(ck: Check, repo: Repo, rid: str = "R2") -> None:
    r = ck.rule(rid, "multiprocessing: order-preserving map over the same file list; workers re-create the same state")
    q = "reuse.report._generate_file_reports"
    fn = repo.func(q)
    ck.analysed_fn(q, "reuse.report._MultiprocessingContainer.__call__")
    maps = find_calls(fn, lambda c, f: f.split(".")[-1] in ("map", "imap", "imap_unordered", "map_async", "starmap", "apply_async"))
    names = [ast.unparse(c.func) for c in maps]
    args = [[ast.unparse(a) for a in c.args] for c in maps]
    r.instance("maps", {"calls": names, "args": args})
    if sorted(names) != ["map", "pool.map"]:
        r.violation(q, "result order of the pool is not the input order", f"{names}: only map()/pool.map() keep results aligned"
                    " with the file list", repo.loc(fn))
    if any(a != ["container", "files"] for a in args):
        r.violation(q, "serial and parallel path map different things", f"{args}", repo.loc(fn))
    c = repo.func("reuse.report._MultiprocessingContainer.__call__")
    src = re.sub(r"\s+", " ", ast.unparse(c))
    # structural: when the container holds a dep5 copy (global_licensing=None in the copy), the worker parses
    # <root>/.reuse/dep5 and stores the result in project.global_licensing before the report is generated.  The guard may
    # or may not consult has_dep5: a parse that fails (no such file) is suppressed either way.
    from ..rules import deep_text
    parses = [n for n in ast.walk(c) if isinstance(n, ast.Call) and ast.unparse(n.func).endswith("ReuseDep5.from_file")
              and n.args and ".reuse/dep5" in ast.unparse(n.args[0]) and "self.project.root" in ast.unparse(n.args[0])]
    stores = [n for n in ast.walk(c) if isinstance(n, ast.Assign) and any(ast.unparse(t) == "self.project.global_licensing" for t in n.targets)]
    stored_from_parse = any("ReuseDep5.from_file" in ast.unparse(n.value) or ast.unparse(n.value) in ("self.reuse_dep5", "reuse_dep5", "dep5") for n in stores)
    gen = [n for n in ast.walk(c) if isinstance(n, ast.Call) and ast.unparse(n.func).endswith("FileReport.generate")]
    before = bool(parses and stores and gen) and max(n.lineno for n in stores) < min(n.lineno for n in gen)
    # the guard of the parse must be TRUE in the state it exists for: a dep5 project (has_dep5) whose worker has not parsed yet
    from ..rules import bool_formula as _bf
    from ..tab import Valuation as _Val, evalf as _ev
    negated_guard = False
    for n in ast.walk(c):
        if isinstance(n, ast.If) and any(p in list(ast.walk(n)) for p in parses):
            in_body = any(p in list(ast.walk(st)) for st in n.body for p in parses)
            try:
                f = _bf(n.test, lambda t, _n: {"self.has_dep5": "has", "self.reuse_dep5": "parsed", "self.reuse_dep5 is None": ("not", "parsed"),
                                               "self.reuse_dep5 is not None": "parsed"}.get(t))
                val = _ev(f, _Val({"has": True, "parsed": False}))
            except Exception:  # noqa: BLE001 - a guard over other atoms is not judged here
                continue
            if val != in_body:
                negated_guard = True
    ok = bool(parses) and stored_from_parse and before and not negated_guard
    r.instance("worker-dep5", {"ok": ok, "parses": len(parses), "stores": len(stores)})
    if not ok:
        r.violation("reuse.report._MultiprocessingContainer.__call__", "worker state",
                    "the worker must re-parse .reuse/dep5 into project.global_licensing (the attribute the serial path reads)", repo.loc(c))
    init = repo.func("reuse.report._MultiprocessingContainer.__init__")
    s2 = re.sub(r"\s+", " ", ast.unparse(init))
    # a hand-made copy of the project must carry the state along; when the container keeps the caller's object (or
    # copies it wholesale with attrs.evolve / copy.copy) there is nothing to lose here - R6 decides what it may do to it
    builds_copy = any(isinstance(c, ast.Call) and ast.unparse(c.func) == "Project" for c in ast.walk(init))
    r.instance("worker-copy", {"hand_made_copy": builds_copy})
    s2 = s2.replace("licenses=project.licenses,", "licenses=project.licenses.copy(),").replace("licenses=dict(project.licenses)", "licenses=project.licenses.copy()")   # sharing the dictionary loses nothing
    for frag in (("licenses=project.licenses.copy()", "license_map=project.license_map", "vcs_strategy=project.vcs_strategy",
                  "new_project.licenses_without_extension = project.licenses_without_extension") if builds_copy else ()):
        r.instance(f"worker-copy:{frag[:30]}", {"present": frag in s2})
        if frag not in s2:
            r.violation("reuse.report._MultiprocessingContainer.__init__", "project copy for workers loses state", f"missing {frag}",
                        repo.loc(init))


WORKER = "reuse.report._MultiprocessingContainer.__call__"
# in-place updates of longer-lived state that the per-file task is allowed to make: (function, target) -> reason
from ..canon import ref_table as _ref_table
_KNOWN_FNS = set(_ref_table().get("__functions__", []))

WORKER_STATE_EXCEPTIONS = {
    (WORKER, "self.reuse_dep5"): "lazy, idempotent re-parse of .reuse/dep5 inside a worker (R2 checks the guard and the value)",
    (WORKER, "self.project.global_licensing"): "same memo: the parsed dep5 is stored where the serial path reads it (R2)",
}


def _param_fresh_at_all_sites(repo: Repo, cg: CallGraph, fr, reach, q: str, recv: ast.AST, depth: int) -> bool:
    """`recv` is a bare parameter of q (or a subscript of one) and every call site of q inside the task passes an
    object created by the caller."""
    new_method = bool(_KNOWN_FNS) and q not in _KNOWN_FNS
    while isinstance(recv, ast.Subscript) or (new_method and isinstance(recv, ast.Attribute)):
        recv = recv.value
    if not isinstance(recv, ast.Name) or depth == 0:
        return False
    fn = repo.functions[q]
    params = [a.arg for a in fn.args.posonlyargs + fn.args.args]
    if new_method and recv.id == "self" and params[:1] == ["self"]:
        # a method the confirmed tree does not have (code moved out of its caller): `self` is the object the method is called
        # on at each site - own when every site calls it on an object the caller created
        sites = [(g, node) for g in reach for t, node in cg.edges.get(g, []) if t == q and isinstance(node, ast.Call)]
        if not sites:
            return False
        for g, call in sites:
            if not isinstance(call.func, ast.Attribute):
                return False
            obj = call.func.value
            if fr.fresh(obj, repo.functions[g], g):
                continue
            if not _param_fresh_at_all_sites(repo, cg, fr, reach, g, obj, depth - 1):
                return False
        return True
    if recv.id not in params or recv.id in ("self", "cls"):
        return False
    pos = params.index(recv.id)
    is_method = bool(params) and params[0] in ("self", "cls")
    sites = [(g, node) for g in reach for t, node in cg.edges.get(g, []) if t == q and isinstance(node, ast.Call)]
    if not sites:
        return False
    for g, call in sites:
        arg = None
        apos = pos - 1 if is_method else pos
        if 0 <= apos < len(call.args) and not any(isinstance(a, ast.Starred) for a in call.args):
            arg = call.args[apos]
        for kw in call.keywords:
            if kw.arg == recv.id:
                arg = kw.value
        if arg is None:
            return False
        gfn = repo.functions[g]
        if fr.fresh(arg, gfn, g):
            continue
        if not _param_fresh_at_all_sites(repo, cg, fr, reach, g, arg, depth - 1):
            return False
    return True


DRIVERS = ["reuse.report._MultiprocessingContainer.__init__", "reuse.report.ProjectReport.generate",
           "reuse.report.ProjectSubsetReport.generate", "reuse.report._generate_file_reports"]


def rule_task_purity(ck: Check, repo: Repo, cg: CallGraph, rid: str = "R6") -> None:
    """The result for one file may not depend on which files the same process handled before (serial run vs pool
    chunks vs enumeration order).  Structural necessary condition: the per-file task mutates in place only objects it
    created itself (freshness analysis, sa/fresh.py)."""
    from ..fresh import Fresh
    r = ck.rule(rid, "the per-file task mutates only objects it created (no state carried from one file to the next)")
    idx: dict = {}
    for q, es in cg.edges.items():
        for t, n in es:
            idx.setdefault((q, id(n)), []).append(t)
    fr = Fresh(repo, lambda q, c: idx.get((q, id(c)), []))
    if WORKER not in repo.functions:
        raise AnalysisError(f"anchor vanished: {WORKER}")
    reach = cg.reachable([WORKER])
    ck.extra["task_functions"] = len(reach)
    if len(reach) < 25:
        raise AnalysisError(f"per-file task reach set too small: {len(reach)}")
    n_sites = 0
    used = set()
    for q in sorted(reach):
        fn = repo.functions[q]
        for node, recv, what, ok in fr.mutations(fn, q):
            n_sites += 1
            tgt = what.split(" = ")[0].split(" ")[0] if " = " in what else ast.unparse(recv)
            exc = WORKER_STATE_EXCEPTIONS.get((q, tgt))
            if exc is None and _KNOWN_FNS and q not in _KNOWN_FNS and q.rsplit(".", 1)[0] == WORKER.rsplit(".", 1)[0]:
                # the memo moved into a method of the same class that the confirmed tree does not have: the same state, the same entry
                exc = WORKER_STATE_EXCEPTIONS.get((WORKER, tgt))
            r.instance(f"{q}:{what}@{n_sites}", {"function": q, "mutation": what, "own_object": ok, "exception": exc}, q)
            if ok:
                continue
            if exc:
                used.add((q, tgt))
                continue
            if _param_fresh_at_all_sites(repo, cg, fr, reach, q, recv, 2):
                continue  # an accumulator handed in by the caller, who created it (helper extracted from its caller)
            chain = " -> ".join(x.split(".")[-1] for x in cg.chain(reach, q))
            r.violation(q, f"in-place mutation of an object the task did not create: {what}",
                        f"`{ast.unparse(node)[:80]}` changes state that outlives the file being processed (call chain {chain}):"
                        f" the result for later files depends on which files this process handled before - serial run, pool"
                        f" chunks and enumeration order can then disagree", repo.loc(node))
    r.floor(40, "mutation sites in the per-file task", got=n_sites)
    # the drivers around the task: building a report must not change the Project it is handed - with a pool the workers
    # see pickled copies, so a change (and its undoing inside the task) reaches the caller's object only in the serial run
    n_drv = 0
    for q in DRIVERS:
        if q not in repo.functions:
            raise AnalysisError(f"anchor vanished: {q}")
        ck.analysed_fn(q)
        for node, recv, what, ok in fr.mutations(repo.functions[q], q):
            n_drv += 1
            r.instance(f"{q}:{what}@drv{n_drv}", {"function": q, "mutation": what, "own_object": ok}, q)
            if not ok:
                r.violation(q, f"report generation changes an object it was handed: {what}",
                            f"`{ast.unparse(node)[:80]}`: the caller's object is altered while a report is built; workers of a pool only"
                            f" ever see (and repair) pickled copies, so after a pooled run the caller's Project differs from what a serial"
                            f" run leaves behind - the next report from the same Project depends on how the previous one was scheduled",
                            repo.loc(node))
    r.floor(15, "mutation sites in the report drivers", got=n_drv)
    # positive control: the engine must see a mutation through a loop variable as not-own
    ctl = ast.parse("def f(infos):\n    out = []\n    for i in infos:\n        i.lines.clear()\n        out.append(i)\n    return out\n").body[0]
    got = [(w, ok) for _, _, w, ok in fr.mutations(ctl, "ctl.f")]
    if got != [("i.lines.clear(…)", False), ("out.append(…)", True)]:
        raise AnalysisError(f"C14-{rid} positive control failed: {got}")



def rule_glob_patterns(ck: Check, repo: Repo, rid: str = "R7") -> None:
    """A glob pattern built from a run-time path must escape that path: otherwise a root (or any directory on the way)
    whose NAME contains `[`, `*` or `?` changes what is found - the result then depends on how the root is spelled /
    where the project lives, not on its contents."""
    r = ck.rule(rid, "glob patterns built from run-time paths escape them (glob.escape)")
    from ..rules import resolve_deep
    n = 0
    for q, fn in sorted(repo.functions.items()):
        for c in ast.walk(fn):
            if not isinstance(c, ast.Call) or repo.enclosing_function(c) is not fn:
                continue
            f = ast.unparse(c.func)
            if f not in ("glob.glob", "glob.iglob", "iglob", "glob"):
                continue
            if not c.args:
                continue
            n += 1
            pat = resolve_deep(fn, c.args[0])
            unescaped = []

            def scan(e, escaped=False):
                if isinstance(e, ast.Call) and ast.unparse(e.func) in ("glob.escape", "escape"):
                    return
                if isinstance(e, ast.Constant):
                    return
                if isinstance(e, (ast.Name, ast.Attribute)):
                    unescaped.append(ast.unparse(e))
                    return
                if isinstance(e, ast.Call):
                    fnm = ast.unparse(e.func)
                    if fnm in ("str", "Path", "PurePath", "os.fspath", "os.path.join", "os.fsdecode") or fnm.endswith(".joinpath") \
                            or fnm.endswith(".as_posix") or fnm.endswith(".format") or fnm.endswith(".join"):
                        if isinstance(e.func, ast.Attribute) and not fnm.startswith(("os.", "glob.")):
                            scan(e.func.value)
                        for a in e.args:
                            scan(a)
                        for k in e.keywords:
                            scan(k.value)
                        return
                    unescaped.append(ast.unparse(e)[:40])
                    return
                for ch in ast.iter_child_nodes(e):
                    if isinstance(ch, ast.expr):
                        scan(ch)

            scan(pat)
            r.instance(f"{q}:{ast.unparse(c)[:50]}", {"function": q, "pattern": ast.unparse(pat)[:100], "unescaped_run_time_parts": unescaped}, q)
            if unescaped:
                r.violation(q, f"glob pattern contains the unescaped run-time path {unescaped[0]}",
                            f"`{ast.unparse(c)[:80]}` with pattern {ast.unparse(pat)[:80]}: when that path contains `[`, `]`, `*` or `?`"
                            f" (a project in a directory called `proj[1]`) the pattern no longer names the directory and nothing"
                            f" is found there", repo.loc(c))
    r.floor(1, "glob call sites", got=n)


# ---------------------------------------------------------------------------------------------------------------
# R12: the LICENSES/ scan reads no state that depends on the order of the scan
SCAN_READ_EXCEPTIONS = {
    ("_find_licenses", "identifier in license_files"):
        "duplicate detection is symmetric: whichever of two files with one identifier is scanned second raises",
    ("_find_licenses", "path.name in self.license_map"):
        "handler for a name without usable suffix: a LicenseRef- name registered by an earlier entry leads to the duplicate error in either order",
    ("_identifier_of_license", "path.stem in self.license_map"):
        "a stem that is a LicenseRef- registered earlier yields the same identifier as the LicenseRef- test right below",
}


def rule_scan_loop_state(ck: Check, repo: Repo, rid: str = "R12") -> None:
    """glob/os.walk enumerate in file-system order.  Inside such a loop a decision that reads a container the loop itself
    fills sees a different container for a different order.  Each such read is either provably about keys the loop never
    adds, or one of the reads confirmed (by reading the code) to have an order-symmetric outcome; any other is a violation."""
    r = ck.rule(rid, "the LICENSES/ scan decides every entry independently of the entries scanned before it")
    P = "reuse.project.Project"
    q = f"{P}._find_licenses"
    fn = repo.func(q)
    ck.analysed_fn(q, f"{P}._identifier_of_license")
    loops = [n for n in ast.walk(fn) if isinstance(n, ast.For) and re.search(r"iglob|glob\(|os\.walk|iterdir|scandir|rglob", ast.unparse(n.iter))]
    if len(loops) != 1:
        raise AnalysisError("_find_licenses: the file-system loop was not found")
    loop = loops[0]
    written: dict[str, list[ast.AST]] = {}
    for x in ast.walk(loop):
        if isinstance(x, (ast.Assign, ast.AugAssign)):
            for t in (x.targets if isinstance(x, ast.Assign) else [x.target]):
                if isinstance(t, ast.Subscript):
                    written.setdefault(ast.unparse(t.value), []).append(x)
        elif isinstance(x, ast.Call) and isinstance(x.func, ast.Attribute) and x.func.attr in ("add", "append", "update", "setdefault", "extend", "insert", "pop", "remove", "discard"):
            written.setdefault(ast.unparse(x.func.value), []).append(x)
    if not written:
        raise AnalysisError("_find_licenses: the scan no longer records anything (anchor vanished)")

    def guards(node: ast.AST, root: ast.AST) -> list[str]:
        """Positive conjuncts that hold where node executes (enclosing if-bodies and earlier operands of its own `and`)."""
        out: list[str] = []
        par = {id(c): p for p in ast.walk(root) for c in ast.iter_child_nodes(p)}
        cur = node
        while id(cur) in par:
            p = par[id(cur)]
            if isinstance(p, ast.If) and any(cur is s for s in p.body):
                t = p.test
                out += [ast.unparse(v) for v in (t.values if isinstance(t, ast.BoolOp) and isinstance(t.op, ast.And) else [t])]
            if isinstance(p, ast.BoolOp) and isinstance(p.op, ast.And):
                out += [ast.unparse(v) for v in p.values if v is not cur]
            cur = p
        return out

    only_lref = {}
    for name, sites in written.items():
        only_lref[name] = all(any(g.startswith("_LICENSEREF_PATTERN.match(") for g in guards(sx, fn)) for sx in sites)
    scope = [(q, loop)]
    for c in ast.walk(loop):
        if isinstance(c, ast.Call) and isinstance(c.func, ast.Attribute) and isinstance(c.func.value, ast.Name) and c.func.value.id == "self" \
                and repo.has_func(f"{P}.{c.func.attr}"):
            scope.append((f"{P}.{c.func.attr}", repo.func(f"{P}.{c.func.attr}")))
    n = 0
    for fq, root in scope:
        for x in ast.walk(root):
            if not (isinstance(x, ast.Compare) and len(x.ops) == 1 and isinstance(x.ops[0], (ast.In, ast.NotIn))):
                continue
            cont = ast.unparse(x.comparators[0])
            if cont not in written:
                continue
            n += 1
            key_raw = ast.unparse(x.left)
            # a key named by a local (`stem = path.stem`) is the expression it stands for
            from ..rules import deep_text as _dt12
            try:
                key = _dt12(repo.func(fq), x.left)
            except Exception:  # noqa: BLE001
                key = key_raw
            text = f"{key} in {cont}"
            gs = guards(x, root)
            stable = only_lref.get(cont) and any(g.replace(" ", "") == f"not_LICENSEREF_PATTERN.match({k_})".replace(" ", "") for g in gs for k_ in (key, key_raw))
            exc = SCAN_READ_EXCEPTIONS.get((fq.split(".")[-1], text))
            r.instance(f"read:{fq.split('.')[-1]}:{text}", {"function": fq, "test": text, "keys_never_added_by_the_scan": bool(stable), "confirmed_symmetric": exc}, fq)
            if stable or exc:
                continue
            r.violation(fq, f"`{text}` is decided on a container the scan is still filling",
                        f"`{cont}` is updated inside the loop over {ast.unparse(loop.iter)[:40]}, whose order is the file system's: with"
                        f" `LICENSES/LicenseRef-foo.bar` and `LicenseRef-foo.bar.txt` the outcome (two licences or a RuntimeError) depends"
                        f" on which entry the scan meets first", repo.loc(x))
    # a plain store `D[k] = v` keeps the LAST writer: which file that is depends on the order of the scan unless a second
    # writer for the same key is refused (`if k in D: raise`) on the same container
    for x in ast.walk(loop):
        if isinstance(x, ast.Assign) and len(x.targets) == 1 and isinstance(x.targets[0], ast.Subscript) and isinstance(x.value, ast.Name):
            cont = ast.unparse(x.targets[0].value)
            key = ast.unparse(x.targets[0].slice)
            if cont.startswith("self.licenses_without_extension"):
                continue   # same key => same identifier => the duplicate refusal below has already fired
            from ..rules import deep_text as _dtg
            _fnq = repo.func(q)

            def _asks_membership(t) -> bool:
                # `k in D`, or the same question through `D.get(k) is not None` (also via a local that holds the .get())
                try:
                    tt = _dtg(_fnq, t)
                except Exception:  # noqa: BLE001
                    tt = ast.unparse(t)
                return ast.unparse(t) == f"{key} in {cont}" or tt in (f"{key} in {cont}", f"{cont}.get({key}) is not None")

            guarded = any(isinstance(g, ast.If) and _asks_membership(g.test) and any(isinstance(y, ast.Raise) for y in ast.walk(g))
                          for g in ast.walk(loop))
            r.instance(f"store:{cont}[{key}]", {"container": cont, "key": key, "second_writer_refused": guarded}, q)
            if not guarded:
                r.violation(q, f"`{cont}[{key}] = …` keeps the last of several writers and no `if {key} in {cont}: raise` precedes it",
                            f"two licence files that resolve to one identifier (`LicenseRef-Custom.txt` and `LicenseRef-Custom.md`): the one the"
                            f" scan meets last wins - SPDX ExtractedText and the reported licence path differ with the directory listing order",
                            repo.loc(x))
    r.floor(3, "reads of scan-updated containers", got=n)


# ---------------------------------------------------------------------------------------------------------------
# R13: both sides of a path-prefix comparison are spelled the same way
_NORMALISERS = ("normpath", "abspath", "realpath", "relpath", "resolve", "absolute", "expanduser")


def _spelling_class(repo: Repo, fn: ast.FunctionDef, expr: ast.AST, depth: int = 0) -> tuple[str, str]:
    """('NORM', how) when the value went through a lexical / file-system normalisation, else ('RAW', '')."""
    from ..rules import resolve_deep
    e = resolve_deep(fn, expr)
    for c in ast.walk(e):
        if isinstance(c, ast.Call):
            last = ast.unparse(c.func).split(".")[-1]
            if last in _NORMALISERS:
                return "NORM", ast.unparse(c)[:50]
    if depth < 2:
        # an attribute that is a property of a package class: the class of what the property returns
        for a in ast.walk(e):
            if isinstance(a, ast.Attribute):
                cands = [(q, f) for q, f in repo.functions.items() if q.split(".")[-1] == a.attr
                         and any(ast.unparse(d) in ("property", "functools.cached_property", "cached_property") for d in f.decorator_list)]
                for q, f in cands:
                    for rt in [n for n in ast.walk(f) if isinstance(n, ast.Return) and n.value is not None]:
                        cls, how = _spelling_class(repo, f, rt.value, depth + 1)
                        if cls == "NORM":
                            return "NORM", f"{q.split('.')[-2]}.{a.attr}: {how}"
    return "RAW", ""


def rule_spelling_classes(ck: Check, repo: Repo, rid: str = "R13") -> None:
    """`a.relative_to(b)` / `a.is_relative_to(b)` compare path COMPONENTS as spelled.  The nested REUSE.toml lookup
    builds both sides from the root as the user spelled it (`src/..`, `/abs/proj/../proj`); they agree only while both are
    left as spelled or both are normalised.  One side through normpath / resolve and the other not: for a root with a
    collapsible `..` no REUSE.toml is relevant any more (or the wrong one is)."""
    r = ck.rule(rid, "both operands of a path-prefix comparison in the REUSE.toml lookup are spelled the same way (both as given or both normalised)")
    GLq = "reuse.global_licensing.NestedReuseTOML"
    n = 0
    for name in ("_find_relevant_tomls", "_find_relevant_tomls_and_items", "reuse_info_of"):
        q = f"{GLq}.{name}"
        fn = repo.func(q)
        ck.analysed_fn(q)
        for c in ast.walk(fn):
            if isinstance(c, ast.Call) and isinstance(c.func, ast.Attribute) and c.func.attr in ("relative_to", "is_relative_to") and c.args:
                n += 1
                left = _spelling_class(repo, fn, c.func.value)
                right = _spelling_class(repo, fn, c.args[0])
                r.instance(f"{name}:{ast.unparse(c)[:60]}", {"function": q, "comparison": ast.unparse(c)[:80], "receiver": left[0], "argument": right[0]}, q)
                if left[0] != right[0]:
                    norm_side, how = ("receiver", left[1]) if left[0] == "NORM" else ("argument", right[1])
                    r.violation(q, f"`{ast.unparse(c)[:60]}`: the {norm_side} is normalised ({how}), the other operand is spelled as given",
                                "with `--root src/..` (or `/abs/proj/../proj`) the two no longer share a prefix: annotations of REUSE.toml stop"
                                " matching or a nested REUSE.toml is dropped - `docs/index.md` is reported with the outer licence - while `--root .`"
                                " gives the right answer", repo.loc(c))
    r.floor(2, "path-prefix comparisons in the nested lookup", got=n)


def rule_toml_order(ck: Check, repo: Repo) -> None:
    from . import c04
    c04.rule_nesting_sort_only(ck, repo, "R3")


def run(ck: Check, repo: Repo) -> None:
    ck.explanation = (
        "Order taint (types from mypy): sources are expressions typed set/frozenset, os.walk / glob / iterdir results"
        " and unordered pools; propagation through iteration, comprehensions, list/tuple/join/+ and function"
        " summaries (returns, parameters) to a fixpoint; canonisers are sorted / sort / simplify / set construction /"
        " any-all-len-min-max. On every function reachable from lint, lint-file, spdx and the worker entry no tainted"
        " value may reach a content-affecting sink (regex construction, first element, first-match loop, most_common,"
        " rendered text); listing order of output is not a sink. Module-level constants are covered by the constant"
        " folder's order hazards. Plus: order-preserving pool.map, worker state, depth sort of REUSE.toml files."
        " Not decided: cwd / root-spelling independence (path arithmetic at run time)."
    )
    ck.not_decided = ["independence of the current working directory and of the spelling of --root beyond the SPDXID inputs"
                      " (values of path arithmetic at run time)"]
    ck.trust("CPython ast", "mypy (library) types and callees", "table T3 of order canonisers (sorted, list.sort, boolean.py simplify)")
    facts = TypeFacts(repo)
    cg = CallGraph(repo, facts)
    ot = OrderTaint(repo, facts, cg)
    rule_module_constants(ck, repo)
    rule_sinks(ck, repo, cg, ot)
    rule_pool(ck, repo)
    rule_toml_order(ck, repo)
    rule_scan_loop_state(ck, repo)
    rule_spelling_classes(ck, repo)
    r4 = ck.rule("R4", "identifiers derived by hashing take only root-relative inputs (clause of root-spelling independence)")
    from . import c18
    c18.spdx_id_inputs(ck, repo, r4)
    rule_task_purity(ck, repo, cg)
    rule_glob_patterns(ck, repo)
    # independence of the working directory: VCS membership tests compare paths of the same base (shared with C03-R6)
    from . import c03
    c03.rule_path_bases(ck, repo, "R8")
    c03.rule_vcs_output_verbatim(ck, repo, "R9")
    from . import c18 as _c18
    _c18.rule_document_name(ck, repo, "R10")
    c03.rule_meson_parent(ck, repo, "R11")
