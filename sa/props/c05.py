"""C05 - REUSE.toml glob language: extracted transducer vs. reference readings (automata inclusion)."""
from __future__ import annotations

import ast
import itertools
import multiprocessing as mp
import os
import random
import re

from ..model import AnalysisError, Repo
from ..relang import Alphabet, Lang, difference, in_a_not_b
from ..report import Check
from ..rules import expr_text, find_calls
from ..transducer import Transducer

GL = "reuse.global_licensing"
GLOB_ALPHABET = "a./*\\"
PATH_EXTRA = "ab./*\\"

_ALPHA = None


def path_alphabet() -> Alphabet:
    global _ALPHA
    if _ALPHA is None:
        _ALPHA = Alphabet([], extra=PATH_EXTRA + "\n")
    return _ALPHA


# ------------------------------------------------------------------ anchors by role
class FilteredAlternation(AnalysisError):
    """The comprehension that feeds re.compile drops some globs."""
    def __init__(self, conds, node):
        super().__init__(f"alternation filters the paths ({conds})")
        self.conds = conds
        self.node = node


class RewrittenGlob(AnalysisError):
    """The glob is transformed before it reaches the translator."""
    def __init__(self, expr, node):
        super().__init__(f"the glob is rewritten before translation ({expr})")
        self.expr = expr
        self.node = node


def _flag_value(e) -> int:
    """Value of a `re` flags expression (names of the re module joined by `|`); anything else is not decided."""
    if e is None:
        return 0
    if isinstance(e, ast.BinOp) and isinstance(e.op, ast.BitOr):
        return _flag_value(e.left) | _flag_value(e.right)
    if isinstance(e, ast.Attribute) and isinstance(e.value, ast.Name) and e.value.id == "re" and isinstance(getattr(re, e.attr, None), re.RegexFlag):
        return int(getattr(re, e.attr))
    if isinstance(e, ast.Constant) and isinstance(e.value, int):
        return e.value
    raise AnalysisError(f"flags of the compiled globs cannot be read: {ast.unparse(e)}")


class Matcher:
    """How AnnotationsItem turns its globs into the compiled pattern, extracted from the source:
    the expression passed to re.compile is kept as a template over `SEP.join(translate(p) for p in paths)`
    and evaluated for concrete glob lists with the extracted transducer standing in for the translator."""

    def __init__(self, repo: Repo):
        self.repo = repo
        post = repo.func(f"{GL}.AnnotationsItem.__attrs_post_init__")
        self.post = post
        self.compile_call = None
        for n in ast.walk(post):
            if isinstance(n, ast.Assign) and any(ast.unparse(t) == "self._paths_regex" for t in n.targets):
                self.compile_call = n.value
        v = self.compile_call
        if v is None:
            raise AnalysisError("anchor vanished: assignment of AnnotationsItem._paths_regex")
        if not (isinstance(v, ast.Call) and ast.unparse(v.func) == "re.compile" and 1 <= len(v.args) <= 2
                and all(k.arg == "flags" for k in v.keywords) and len(v.args) + len(v.keywords) <= 2):
            raise AnalysisError("_paths_regex is not a plain re.compile(<expr>[, flags])")
        self.expr = v.args[0]
        fl = v.args[1] if len(v.args) == 2 else (v.keywords[0].value if v.keywords else None)
        self.flags = _flag_value(fl)
        # how the compiled alternation is applied: the method `matches` calls on it
        self.mode = None
        mfn = repo.func(f"{GL}.AnnotationsItem.matches")
        for c in ast.walk(mfn):
            if isinstance(c, ast.Call) and isinstance(c.func, ast.Attribute) and ast.unparse(c.func.value) == "self._paths_regex" \
                    and c.func.attr in ("match", "fullmatch", "search"):
                self.mode = {"match": "match", "fullmatch": "full", "search": "search"}[c.func.attr]
        self.translator_name = None
        self.sorted_iter = None
        self.separators: list[str] = []
        self.drop_empty = False
        self._scan(self.expr, 0)
        if self.translator_name is None:
            raise AnalysisError("no `SEP.join(translator(p) for p in self.paths)` inside the compiled expression")
        qual = f"{GL}.AnnotationsItem.__attrs_post_init__.{self.translator_name}"
        if not repo.has_func(qual):
            qual = f"{GL}.{self.translator_name}"
        self.fn = repo.func(qual)
        self.qual = qual
        # module-level string constants may be emitted by name (`blocks.append(_ASTERISK_REGEX)`)
        consts = {}
        for st in repo.module(GL).tree.body:
            if isinstance(st, (ast.Assign, ast.AnnAssign)) and isinstance(getattr(st, "value", None), ast.Constant) and isinstance(st.value.value, str):
                for t in (st.targets if isinstance(st, ast.Assign) else [st.target]):
                    if isinstance(t, ast.Name):
                        consts[t.id] = st.value.value
        self.tr = Transducer(self.fn, consts=consts)

    def _local(self, name: str):
        from ..rules import single_assign_value
        return single_assign_value(self.post, name)

    def _scan(self, e, depth):
        if depth > 6:
            raise AnalysisError("compiled expression too deep")
        if isinstance(e, ast.Constant) and isinstance(e.value, str):
            return
        if isinstance(e, ast.JoinedStr):
            for p in e.values:
                if isinstance(p, ast.FormattedValue):
                    self._scan(p.value, depth + 1)
            return
        if isinstance(e, ast.BinOp) and isinstance(e.op, ast.Add):
            self._scan(e.left, depth + 1)
            self._scan(e.right, depth + 1)
            return
        if isinstance(e, ast.Name):
            v = self._local(e.id)
            if v is None:
                raise AnalysisError(f"cannot resolve local {e.id} in the compiled expression")
            self._scan(v, depth + 1)
            return
        if isinstance(e, ast.Call) and isinstance(e.func, ast.Attribute) and e.func.attr == "join" \
                and isinstance(e.func.value, ast.Constant) and len(e.args) == 1:
            gen = e.args[0]
            if not isinstance(gen, (ast.GeneratorExp, ast.ListComp)) or len(gen.generators) != 1:
                raise AnalysisError("join argument is not a comprehension over the paths")
            g = gen.generators[0]
            it = ast.unparse(g.iter)
            if it not in ("self.paths", "sorted(self.paths)", "list(self.paths)"):
                raise AnalysisError(f"alternation ranges over {it}, not over self.paths")
            if g.ifs:
                if len(g.ifs) == 1 and ast.unparse(g.ifs[0]) == ast.unparse(g.target):
                    # `... for path in self.paths if path`: only the EMPTY glob is dropped; whether that changes what the item
                    # matches is decided on the languages (R1), with the empty glob among the test lists
                    self.drop_empty = True
                else:
                    raise FilteredAlternation([ast.unparse(c) for c in g.ifs], e)
            elt = gen.elt
            if isinstance(elt, ast.Call) and isinstance(elt.func, ast.Name) and len(elt.args) == 1 \
                    and ast.unparse(elt.args[0]) != ast.unparse(g.target) \
                    and any(isinstance(n, ast.Name) and n.id == ast.unparse(g.target) for n in ast.walk(elt.args[0])):
                raise RewrittenGlob(ast.unparse(elt.args[0]), elt)
            if not (isinstance(elt, ast.Call) and isinstance(elt.func, ast.Name) and len(elt.args) == 1
                    and ast.unparse(elt.args[0]) == ast.unparse(g.target)):
                raise AnalysisError("alternation element is not translator(path)")
            self.translator_name = elt.func.id
            self.sorted_iter = it == "sorted(self.paths)"
            self.separators.append(e.func.value.value)
            return
        raise AnalysisError(f"unsupported construct in the compiled expression: {ast.unparse(e)[:60]}")

    def regex_for(self, globs: list[str]) -> str:
        order = sorted(globs) if self.sorted_iter else list(globs)
        if self.drop_empty:
            order = [g for g in order if g]

        def ev(e) -> str:
            if isinstance(e, ast.Constant):
                return e.value
            if isinstance(e, ast.JoinedStr):
                return "".join(p.value if isinstance(p, ast.Constant) else ev(p.value) for p in e.values)
            if isinstance(e, ast.BinOp):
                return ev(e.left) + ev(e.right)
            if isinstance(e, ast.Name):
                return ev(self._local(e.id))
            if isinstance(e, ast.Call):
                return e.func.value.value.join(self.tr.run(g)[0] for g in order)
            raise AnalysisError("template evaluation")

        return ev(self.expr)


def find_translator(repo: Repo):
    m = Matcher(repo)
    return m.fn, (m.separators[0] if m.separators else ""), m.compile_call


# ------------------------------------------------------------------ reference readings (B7)
def tokenise(glob: str):
    """-> list of ('lit', c) | ('s1',) | ('sa',) or None if the glob ends in an unpaired backslash."""
    toks = []
    i = 0
    while i < len(glob):
        c = glob[i]
        if c == "\\":
            if i + 1 >= len(glob):
                return None
            toks.append(("lit", glob[i + 1]))
            i += 2
        elif c == "*":
            j = i
            while j < len(glob) and glob[j] == "*":
                j += 1
            toks.append(("s1",) if j - i == 1 else ("sa",))
            i = j
        else:
            toks.append(("lit", c))
            i += 1
    return toks


def _not_slash(ch: str) -> bool:
    return ch != "/"


def _any(ch: str) -> bool:
    return True


def narrow_parts(toks):
    parts = []
    for t in toks:
        if t[0] == "lit":
            parts.append(("lit", t[1]))
        elif t[0] == "s1":
            parts.append(("star", _not_slash))
        else:
            parts.append(("star", _any))
    return parts


def wide_parts(toks):
    parts = []
    i = 0
    while i < len(toks):
        t = toks[i]
        if t[0] == "sa" and i + 1 < len(toks) and toks[i + 1] == ("lit", "/"):
            # `**/` may also match zero directories
            parts.append(("opt", [("star", _any), ("lit", "/")]))
            i += 2
            continue
        parts += narrow_parts([t])
        i += 1
    return parts


def bmodel_parts(toks):
    """Frozen description of the recorded defect (class B): while a globstar is
    'active', following '/', '*' and '**' tokens are dropped; an ordinary literal ends it."""
    parts = []
    gs = False
    dropped = False
    for t in toks:
        if t[0] == "sa":
            if gs:
                dropped = True
            else:
                parts.append(("star", _any))
                gs = True
        elif t[0] == "s1":
            if gs:
                dropped = True
            else:
                parts.append(("star", _not_slash))
        else:
            c = t[1]
            if c == "/":
                if gs:
                    dropped = True
                else:
                    parts.append(("lit", "/"))
            elif c in "*\\":
                parts.append(("lit", c))
            else:
                parts.append(("lit", c))
                gs = False
    return parts, dropped


# ------------------------------------------------------------------ per-glob decision
def decide(m: "Matcher", glob: str):
    """-> None (ok / skipped) or dict describing the deviation."""
    toks = tokenise(glob)
    if toks is None:
        # a lone trailing backslash: what it denotes is unspecified, but whatever the translator makes of it must be a
        # regular expression - otherwise re.compile raises re.error while REUSE.toml is loaded
        regex = m.regex_for([glob])
        try:
            import re._parser as _sp  # type: ignore
            _sp.parse(regex, 0)
        except Exception as err:  # noqa: BLE001 - re.error and friends
            return {"glob": glob, "regex": regex, "dir": "invalid", "witness": f"re.error: {err}", "classB": False}
        return "skipped"
    alpha = path_alphabet()
    regex = m.regex_for([glob])
    try:
        impl = Lang.from_regex(regex, m.flags, alpha, m.mode or "match")
    except AnalysisError as err:
        return {"glob": glob, "regex": regex, "dir": "invalid", "witness": str(err), "classB": False}
    narrow = Lang.from_parts(alpha, narrow_parts(toks), "narrow")
    wide = Lang.from_parts(alpha, wide_parts(toks), "wide")
    missing = in_a_not_b(narrow, impl)
    excess = in_a_not_b(impl, wide)
    if missing is None and excess is None:
        return None
    bparts, dropped = bmodel_parts(toks)
    class_b = False
    if dropped:
        bm = Lang.from_parts(alpha, bparts, "class-B model")
        class_b = difference(impl, bm) is None
    return {
        "glob": glob,
        "regex": regex,
        "dir": "missing" if missing is not None else "excess",
        "witness": missing if missing is not None else excess,
        "missing": missing,
        "excess": excess,
        "classB": class_b,
    }


_TR = None


def _worker(globs: list[str]):
    global _TR
    if _TR is None:
        _TR = Matcher(Repo())
    out = []
    skipped = 0
    for g in globs:
        d = decide(_TR, g)
        if d == "skipped":
            skipped += 1
        elif d is not None:
            out.append(d)
    return out, skipped, len(globs)


def all_globs(max_len: int):
    for n in range(1, max_len + 1):
        for tup in itertools.product(GLOB_ALPHABET, repeat=n):
            yield "".join(tup)


def chunks(it, size):
    buf = []
    for x in it:
        buf.append(x)
        if len(buf) >= size:
            yield buf
            buf = []
    if buf:
        yield buf


def run_globs(globs, jobs: int):
    devs = []
    skipped = 0
    total = 0
    if jobs <= 1:
        for ch in chunks(globs, 2000):
            d, s, n = _worker(ch)
            devs += d
            skipped += s
            total += n
    else:
        with mp.Pool(jobs) as pool:
            for d, s, n in pool.imap_unordered(_worker, chunks(globs, 1500)):
                devs += d
                skipped += s
                total += n
    return devs, skipped, total


def is_minimal(glob: str, bad: set[str]) -> bool:
    """No proper contiguous sub-glob deviates already."""
    n = len(glob)
    for i in range(n):
        for j in range(i + 1, n + 1):
            if (i, j) != (0, n) and glob[i:j] in bad:
                return False
    return True


# ------------------------------------------------------------------ rules
def _search_nonempty(a: Lang, b: Lang, nonempty: Lang):
    """difference(a, b) restricted to non-empty strings (three-way product search)."""
    from collections import deque
    chars = a.nfa.alpha.chars
    _, ta, aa = a.dfa()
    _, tb, ab = b.dfa()
    start = (0, 0, False)
    prev = {start: None}
    q = deque([start])
    while q:
        cur = q.popleft()
        if cur[2] and aa[cur[0]] != ab[cur[1]]:
            out = []
            node = cur
            while prev[node] is not None:
                p, c = prev[node]
                out.append(chars[c])
                node = p
            return ("only-first" if aa[cur[0]] else "only-second", "".join(reversed(out)))
        for c in range(len(chars)):
            nxt = (ta[cur[0]][c], tb[cur[1]][c], True)
            if nxt not in prev:
                prev[nxt] = (cur, c)
                q.append(nxt)
    return None


def rule_model(ck: Check, repo: Repo):
    r = ck.rule("R1", "glob translator extracted as a finite transducer; literal emissions escaped; full-match wrapper")
    global _TR
    m = Matcher(repo)
    _TR = m
    fn, compile_call, tr = m.fn, m.compile_call, m.tr
    sep = m.separators[0]
    qual = m.qual
    ck.analysed_fn(qual, f"{GL}.AnnotationsItem.__attrs_post_init__")
    r.count(len(tr.delta), prefix="transition")
    r.floor(16, "transducer transitions", got=len(tr.delta))
    for row in tr.table()[:3]:
        r.sample(row)
    ck.extra["transducer"] = {"states": len(tr.states), "transitions": len(tr.delta),
                              "state_vars": tr.state_vars, "input_classes": tr.literals + ["<other>"],
                              "wrapper": list(tr.wrapper), "compiled_expression": ast.unparse(m.expr),
                              "paths_sorted": m.sorted_iter, "table": tr.table()}
    for (st, cls), (nxt, toks) in tr.delta.items():
        for t in toks:
            if t.kind == "rawchar":
                r.violation(qual, f"raw emission of the input character in state [{tr.show_state(st)}]",
                            "a path character is copied into the regular expression without re.escape",
                            repo.loc(fn))
    # matcher: truthiness of .match on the compiled alternation
    mq = f"{GL}.AnnotationsItem.matches"
    mfn = repo.func(mq)
    ck.analysed_fn(mq)
    rets = [n for n in ast.walk(mfn) if isinstance(n, ast.Return)]
    txt = ast.unparse(rets[0].value) if len(rets) == 1 else "?"
    r.instance("matches", {"returns": txt}, mq)
    mode = None
    if txt in ("bool(self._paths_regex.match(path))", "self._paths_regex.match(path) is not None"):
        mode = "match"
    elif txt in ("bool(self._paths_regex.fullmatch(path))", "self._paths_regex.fullmatch(path) is not None"):
        mode = "full"
    else:
        r.violation(mq, "matcher is not the truthiness of match/fullmatch on the compiled globs",
                    f"matches() returns {txt}", repo.loc(mfn))
        mode = "match"
    # an item with several globs matches exactly the union of the single-glob languages (any order of the set)
    alpha = path_alphabet()
    from ..relang import union
    pairs = [("a", "b/*"), ("*.a", "a/**"), ("a*", "*b"), ("b", "a"), ("a/*", "a")]
    if m.drop_empty:
        pairs += [("", "a"), ("",)]
    for pair in pairs:
        for globs in (list(pair), list(reversed(pair))):
            both = Lang.from_regex(m.regex_for(globs), m.flags, alpha, mode)
            singles = []
            for g in globs:
                t = tokenise(g)
                singles.append(Lang.from_parts(alpha, narrow_parts(t), g))
            u = union(alpha, singles)
            d = difference(both, u)
            if d is not None and d[1] == "" and m.drop_empty:
                # the two differ on the EMPTY path only - no file has an empty relative path; look for a real witness
                d = _search_nonempty(both, u, None)
            r.instance(f"alternation:{globs}", {"globs": globs, "regex": m.regex_for(globs), "difference": d})
            if d is not None:
                r.violation(qual, f"an item with the globs {sorted(globs)} does not match the union of the two",
                            f"compiled as {m.regex_for(globs)!r}: path {d[1]!r} is "
                            f"{'matched although neither glob matches it' if d[0] == 'only-first' else 'not matched although one glob matches it'}",
                            repo.loc(compile_call), {"globs": globs, "witness": d[1]})
                break
    return tr, qual, fn


def rule_sandwich(ck: Check, repo: Repo, tr: Transducer, qual: str, fn) -> None:
    m = _TR
    r = ck.rule("R2", "for every glob <= N: narrow(g) ⊆ L(translate(g)) ⊆ wide(g), paths of any length")
    bound = 5 if ck.tier == "quick" else 8
    jobs = 1 if ck.tier == "quick" else min(16, os.cpu_count() or 1)
    if os.environ.get("VERIF_C05_BOUND"):
        bound = int(os.environ["VERIF_C05_BOUND"])
    globs = list(all_globs(bound))
    n_enum = len(globs)
    extra = []
    if ck.tier == "thorough":
        rnd = random.Random(ck.seed)
        for _ in range(60000):
            n = rnd.randint(bound + 1, 16)
            extra.append("".join(rnd.choice(GLOB_ALPHABET) for _ in range(n)))
    devs, skipped, total = run_globs(globs + extra, jobs)
    r.count(total, distinct=total - skipped, prefix="glob")
    ck.extra["globs"] = {"bound": bound, "enumerated": n_enum, "random_longer": len(extra),
                         "skipped_trailing_backslash": skipped, "deviating": len(devs),
                         "path_alphabet": path_alphabet().chars}
    ck.exhaustive = True
    bad = {d["glob"] for d in devs}
    class_b = [d for d in devs if d["classB"]]
    others = [d for d in devs if not d["classB"]]
    r.sample({"glob": "*.a", "regex": m.regex_for(["*.a"]), "verdict": "within [narrow, wide]"})
    if class_b:
        ex = min(class_b, key=lambda d: (len(d["glob"]), d["glob"]))
        r.violation(
            qual, "class B: '/', '*' and '**' directly after a globstar are dropped (language equals the frozen defect model)",
            f"{len(class_b)} of {total} globs deviate exactly as the recorded defect model predicts; smallest:"
            f" glob {ex['glob']!r} -> {ex['regex']} {('matches ' + repr(ex['excess'])) if ex['excess'] is not None else ('misses ' + repr(ex['missing']))}",
            repo.loc(fn), {"count": len(class_b), "examples": sorted((d["glob"] for d in class_b), key=lambda g: (len(g), g))[:10]})
    minimal = [d for d in others if is_minimal(d["glob"], {o["glob"] for o in others})]
    minimal.sort(key=lambda d: (len(d["glob"]), d["glob"]))
    for d in minimal[:12]:
        what = (f"misses path {d['missing']!r} that the specification requires" if d["missing"] is not None
                else f"matches path {d['excess']!r} outside even the widest reading")
        _, path = tr.run(d["glob"])
        r.violation(
            qual, f"glob {d['glob']!r} {d['dir']}",
            f"glob {d['glob']!r} compiles to {d['regex']} which {what}"
            f" ({len(others)} deviating globs <= {bound} outside the recorded class, {len(minimal)} minimal)",
            repo.loc(fn), {"glob": d["glob"], "regex": d["regex"], "missing": d["missing"], "excess": d["excess"],
                           "transitions": [(tr.show_state(s), repr(c), [t.kind + ':' + t.text for t in toks])
                                           for s, c, toks in path]})
    if ck.tier == "quick":
        r.floor(3000, "globs examined", got=total)


def _matches_operand(fn: ast.FunctionDef) -> str:
    """What the one `.matches(X)` call of *fn* receives, read through the local that names it."""
    from ..rules import reaching_value
    calls = find_calls(fn, lambda c, f: f.endswith(".matches"))
    if len(calls) != 1 or len(calls[0].args) != 1:
        return "?"
    a = calls[0].args[0]
    if isinstance(a, ast.Name):
        v = reaching_value(fn, a)
        if v is not None:
            return ast.unparse(v)
    return ast.unparse(a)


def rule_attribution(ck: Check, repo: Repo) -> None:
    r = ck.rule("R3", "annotations match the POSIX path relative to the REUSE.toml's directory")
    T = f"{GL}.ReuseTOML"
    for q in (f"{T}.find_annotations_item", f"{T}.reuse_info_of"):
        fn = repo.func(q)
        ck.analysed_fn(q)
        ok = any(isinstance(n, ast.Assign) and ast.unparse(n.value) == "PurePath(path).as_posix()"
                 and ast.unparse(n.targets[0]) == "path" for n in fn.body)
        if not ok and q.endswith(".find_annotations_item"):
            # the same normalisation under another local name: what matters is the operand of matches()
            ok = _matches_operand(fn) == "PurePath(path).as_posix()"
        r.instance(q, {"posix_normalised": ok}, q)
        if not ok:
            r.violation(q, "path not normalised to POSIX form",
                        "globs use '/' separators; the matched path must be PurePath(path).as_posix()", repo.loc(fn))
    from . import c04
    c04.selection_table(r, repo)
    fa = repo.func(f"{T}.find_annotations_item")
    calls = find_calls(fa, lambda c, f: f.endswith(".matches"))
    if len(calls) != 1 or _matches_operand(fa) != "PurePath(path).as_posix()":
        r.violation(f"{T}.find_annotations_item", "matches() operand", "items must be matched against the posix path",
                    repo.loc(fa))
    nq = f"{GL}.NestedReuseTOML._find_relevant_tomls_and_items"
    fn = repo.func(nq)
    ck.analysed_fn(nq)
    calls = find_calls(fn, lambda c, f: f.endswith(".find_annotations_item"))
    got = expr_text(fn, calls[0].args[0]) if calls else "?"
    r.instance(nq, {"argument": got}, nq)
    if got != "adjusted_path.relative_to(toml.directory)" and got != "(PurePath(self.source) / PurePath(path)).relative_to(toml.directory)":
        r.violation(nq, "path is not made relative to the REUSE.toml's directory",
                    f"find_annotations_item receives {got}", repo.loc(fn))
    nq2 = f"{GL}.NestedReuseTOML.reuse_info_of"
    fn = repo.func(nq2)
    ck.analysed_fn(nq2)
    calls = find_calls(fn, lambda c, f: f == "toml.reuse_info_of")
    from ..rules import deep_text as _deep
    got = expr_text(fn, calls[0].args[0]) if calls else "?"
    try:
        got_deep = _deep(fn, calls[0].args[0]) if calls else "?"   # through a local that names the joined path
    except Exception:  # noqa: BLE001
        got_deep = got
    r.instance(nq2, {"argument": got}, nq2)
    if "(PurePath(self.source) / path).relative_to(toml.directory)" not in (got, got_deep):
        r.violation(nq2, "path is not made relative to the REUSE.toml's directory",
                    f"toml.reuse_info_of receives {got}", repo.loc(fn))


def rule_wellformed(ck: Check, repo: Repo, rid: str) -> None:
    """Every glob - also one whose meaning is unspecified (a lone trailing backslash) - is translated to a string that
    re.compile accepts: the pattern is compiled while REUSE.toml is loaded, outside every handler for parse errors."""
    r = ck.rule(rid, "every REUSE.toml glob is translated to a well-formed regular expression (re.compile cannot raise while the file is loaded)")
    import re._parser as _sp  # type: ignore
    m = Matcher(repo)
    n = 0
    bad = None
    for g in all_globs(4):
        n += 1
        rx = m.regex_for([g])
        try:
            _sp.parse(rx, 0)
        except Exception as err:  # noqa: BLE001
            bad = (g, rx, str(err))
            break
    r.instance("globs", {"checked": n, "first_invalid": bad})
    if bad is not None:
        r.violation(m.qual, f"glob {bad[0]!r} is translated to {bad[1]!r}, which is not a regular expression ({bad[2]})",
                    f"`path = {bad[0]!r}` in a REUSE.toml: re.compile raises re.error inside the attrs post-init, which is not a"
                    " GlobalLicensingParseError - every command that loads the project ends in a traceback instead of a message naming the file",
                    "src/reuse/global_licensing.py")


def rule_converter_verbatim(ck: Check, repo: Repo, rid: str = "R6") -> None:
    """The glob TEXT reaches translate() as it was written: the attrs converter of `paths` may wrap a string in a set and
    turn a list into a set, nothing else.  A converter that strips, normalises or case-folds the strings changes which
    paths a glob denotes (`"data/raw "` would match `data/raw`)."""
    r = ck.rule(rid, "the converter of AnnotationsItem.paths hands every glob on verbatim")
    cls = repo.cls(f"{GL}.AnnotationsItem")
    conv = None
    for st in cls.body:
        if isinstance(st, ast.AnnAssign) and ast.unparse(st.target) == "paths" and isinstance(st.value, ast.Call):
            conv = next((ast.unparse(kw.value) for kw in st.value.keywords if kw.arg == "converter"), None)
    r.instance("paths-converter", {"converter": conv})
    if conv is None:
        return
    q = f"{GL}.{conv}"
    if not repo.has_func(q):
        raise AnalysisError(f"AnnotationsItem.paths: converter {conv} is not a function of the module (not decided)")
    fn = repo.func(q)
    ck.analysed_fn(q)
    p0 = fn.args.args[0].arg
    derived = {p0} | {t.id for n in ast.walk(fn) if isinstance(n, ast.comprehension) and any(isinstance(x, ast.Name) and x.id == p0 for x in ast.walk(n.iter))
                       for t in ast.walk(n.target) if isinstance(t, ast.Name)}
    touched = [c for c in ast.walk(fn) if isinstance(c, ast.Call) and isinstance(c.func, ast.Attribute) and isinstance(c.func.value, ast.Name)
               and c.func.value.id in derived]
    touched += [c for c in ast.walk(fn) if isinstance(c, ast.Call) and ast.unparse(c.func) in ("map", "PurePath", "PurePosixPath", "Path", "str.strip", "os.path.normpath")
                and any(isinstance(x, ast.Name) and x.id in derived for x in ast.walk(c))]
    r.instance("converter-body", {"function": q, "string_operations": [ast.unparse(c)[:50] for c in touched]})
    for c in touched:
        r.violation(q, f"the converter rewrites the strings it stores ({ast.unparse(c)[:50]})",
                    "`path = \"data/raw \"` (a name that ends in a blank) is compiled as `data/raw`: the glob now matches a path outside its language"
                    " and misses the one it denotes - 'every other character matches only itself'", repo.loc(c))


def run(ck: Check, repo: Repo) -> None:
    ck.explanation = (
        "The glob translator is extracted from its source as an exact finite-state transducer (conditional"
        " constant propagation over the loop body, once per state and input class). For every glob over"
        " {a . / * \\} up to the bound (complete enumeration; thorough adds seeded random globs up to length 16)"
        " the regular expression the transducer produces is converted to an automaton and compared, for paths of"
        " ANY length, with the narrowest and widest reading of the specification (language inclusion, shortest"
        " witness). Deviations that coincide exactly with the frozen model of the recorded defect (class B) are"
        " reported as that known finding; any other deviation is a violation."
    )
    ck.not_decided = ["globs longer than the bound (the transducer is exact for all lengths; only the language"
                      " comparison is bounded in |g|)"]
    ck.assumptions.append("paths range over all strings (line breaks included) over the minterm alphabet"
                          " {a, b, '.', '/', '*', '\\\\', other}")
    ck.trust("CPython ast", "re._parser", "sa/transducer.py", "sa/relang.py")
    try:
        tr, qual, fn = rule_model(ck, repo)
    except RewrittenGlob as err:
        r = next((x for x in ck.rules if x.rid == "R1"), None) or ck.rule("R1", "compiled pattern = anchored alternation of every translated glob")
        r.violation(f"{GL}.AnnotationsItem.__attrs_post_init__", f"the glob text is rewritten before it is translated ({err.expr})",
                    "every character of a glob other than `*` and `\\` matches only itself: a normalisation of the glob TEXT (path"
                    " normalisation drops a trailing `/`, a leading `./`, `//`; case folding; stripping) changes the language - the"
                    " glob then matches paths it does not denote and misses paths it does", repo.loc(err.node))
        return
    except FilteredAlternation as err:
        r = next((x for x in ck.rules if x.rid == "R1"), None) or ck.rule("R1", "compiled pattern = anchored alternation of every translated glob")
        r.violation(f"{GL}.AnnotationsItem.__attrs_post_init__", f"globs are filtered out of the alternation ({'; '.join(err.conds)})",
                    "an annotation applies exactly when ONE OF ITS GLOBS matches: a glob that is dropped before compilation can never"
                    " match, and when every glob is dropped the pattern is empty and (with match()) accepts EVERY path",
                    repo.loc(err.node))
        return
    rule_sandwich(ck, repo, tr, qual, fn)
    rule_attribution(ck, repo)
    # 'an annotation applies to a file exactly when one of its globs matches': the nested lookup asks every REUSE.toml
    from . import c04
    c04.rule_relevant_items(ck, repo, "R5")
    rule_converter_verbatim(ck, repo)
