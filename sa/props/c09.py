"""C09 - annotate accumulates information and never drops any."""
from __future__ import annotations

import ast
import re

from ..model import AnalysisError, Repo
from ..report import Check
from ..rules import bool_formula, equivalent, find_calls
from ..tab import Hooks, Valuation, show_valuation, tabulate
from . import c07, c11

HD = "reuse.header"
RI = "reuse.ReuseInfo"
EXI = "extract_reuse_info(header)"


def rule_union(ck: Check, repo: Repo) -> None:
    r = ck.rule("R1", "create_header: what is rendered derives from BOTH the existing header's information and the request")
    q = f"{HD}.create_header"
    fn = repo.func(q)
    ck.analysed_fn(q)

    class H(Hooks):
        def atom(self, text, node, it):
            return {"header": "header", "merge_copyrights": "merge", "template is None": "@t", "style is None": "@s"}.get(text)

        def raises(self, text, call, it):
            if text == EXI:
                return ["ExpressionError", "ParseError"]
            return []

        def event(self, text, call, it):
            if ast.unparse(call.func) == "_create_new_header":
                return ("render", it.text(call.args[0]))
            return None

    UNION = f"reuse_info.copyright_lines.union({EXI}.copyright_lines)"
    UNION2 = f"{EXI}.copyright_lines.union(reuse_info.copyright_lines)"

    def ref(v: Valuation):
        if not v("header"):
            # without an existing header the request itself is rendered - under --merge-copyrights possibly in merged form
            # (what a second run would make of it; C10-R10)
            if v("merge"):
                return ("render", ["reuse_info", "reuse_info.copy(copyright_lines=merge_copyright_lines(reuse_info.copyright_lines))"])
            return ("render", ["reuse_info"])
        if v(f"raise[ExpressionError]@{EXI}") or v(f"raise[ParseError]@{EXI}"):
            return ("raise", "CommentCreateError")
        plain = [UNION, UNION2, f"reuse_info.copyright_lines | {EXI}.copyright_lines", f"{EXI}.copyright_lines | reuse_info.copyright_lines"]
        if v("merge"):
            cl = [f"merge_copyright_lines({u})" for u in plain]
        else:
            cl = plain
        bases = [f"({EXI} | reuse_info)", f"({EXI}.union(reuse_info))", f"{EXI}.union(reuse_info)", f"(reuse_info | {EXI})", f"reuse_info.union({EXI})"]
        return ("render", [f"{b}.copy(copyright_lines={c})" for b in bases for c in cl])

    leaves = tabulate(fn, H(), ref)
    r.floor(4, "paths through create_header", got=len(leaves))
    for d, leaf, exp in leaves:
        name = show_valuation({k.split("@")[0] if k.startswith("raise[") else k: v for k, v in d.items() if not k.startswith("@")})
        rend = [e[1] for e in leaf.events if e[0] == "render"]
        r.instance("path:" + show_valuation(d), {"valuation": name, "rendered_info": rend[0][:120] if rend else None,
                                                 "outcome": leaf.outcome[0]})
        if exp[0] == "raise":
            if leaf.outcome[:2] != ("raise", "CommentCreateError") or rend:
                r.violation(q, f"erroneous existing header [{name}]", f"{leaf.outcome[:2]}", repo.loc(fn))
            continue
        if len(rend) != 1 or rend[0] not in exp[1]:
            what = "the existing header's information is not part of what is rendered" if d.get("header") else "request"
            r.violation(q, f"rendered information when [{name}]",
                        f"_create_new_header receives {rend[0][:200] if rend else None}; it must be the union of the existing"
                        f" header's information and the request ({what})", repo.loc(fn), {"accepted_forms": exp[1][:3]})
    # the existing header handed to create_header is the block that was found
    far = repo.func(f"{HD}.find_and_replace_header")
    src = re.sub(r"\s+", " ", ast.unparse(far))
    ok = ("before, header, after = _find_first_spdx_comment(text, style=style)" in src
          or "before, header, after = _find_first_spdx_comment(text, style)" in src) and \
        ("except MissingReuseInfoError: before, header, after = ('', '', text)" in src
         or "except MissingReuseInfoError: before = '' header = '' after = text" in src)
    r.instance("found-header", {"ok": ok})
    if not ok:
        r.violation(f"{HD}.find_and_replace_header", "existing header block", "the found block (or '' when none) must be passed on", repo.loc(far))


def rule_reuseinfo(ck: Check, repo: Repo) -> None:
    r = ck.rule("R2", "ReuseInfo.union is total over the set fields; copy preserves unspecified fields; predicates")
    q = f"{RI}.union"
    fn = repo.func(q)
    ck.analysed_fn(q, f"{RI}.copy", f"{RI}.contains_copyright_or_licensing", f"{RI}.contains_copyright_xor_licensing", f"{RI}.contains_info")

    class H(Hooks):
        def atom(self, text, node, it):
            if text == "isinstance(attr_val, set)":
                return "is_set"
            if text in ("(other_val := getattr(value, key))", "getattr(value, key)"):
                return "other_nonempty"
            return None

        def store(self, ttext, vt, target, it):
            if ttext == "new_kwargs[key]":
                return ("set", vt)
            return None

    P = "each (key, attr_val) in self.__dict__.items()::"

    def ref(v):
        return v(P + "is_set") and v(P + "other_nonempty")

    n = 0
    for d, leaf, exp in tabulate(fn, H(), ref):
        sets = [e[2][1] for e in leaf.events if e[0] == "each" and e[2][0] == "set"]
        n += 1
        want = ["attr_val.union(getattr(value, key))"] if exp else ["attr_val"]
        r.instance("union:" + show_valuation({k.split('::')[-1]: v for k, v in d.items()}), {"stores": sets})
        if sets not in (want, ["attr_val | getattr(value, key)"] if exp else want):
            r.violation(q, f"field value when set={d.get(P + 'is_set')} other_nonempty={d.get(P + 'other_nonempty')}",
                        f"{sets}; expected {want}", repo.loc(fn))
        if leaf.outcome[1] != "self.__class__(**new_kwargs)":
            r.violation(q, "result", f"{leaf.outcome[1]}", repo.loc(fn))
    r.floor(3, "union cells", got=n)
    loops = [l for l in ast.walk(fn) if isinstance(l, ast.For)]
    if len(loops) != 1 or ast.unparse(loops[0].iter) != "self.__dict__.items()":
        r.violation(q, "union does not range over all fields", "", repo.loc(fn))
    orq = f"{RI}.__or__"
    orf = repo.func(orq)
    rets = [ast.unparse(n.value) for n in ast.walk(orf) if isinstance(n, ast.Return)]
    r.instance(orq, {"returns": rets})
    if rets != ["self.union(value)"]:
        r.violation(orq, "| is not union", f"{rets}", repo.loc(orf))
    cq = f"{RI}.copy"
    cf = repo.func(cq)
    src = re.sub(r"\s+", " ", ast.unparse(cf))
    ok = "for key, value in self.__dict__.items(): new_kwargs[key] = kwargs.get(key, value)" in src and \
        "return self.__class__(**new_kwargs)" in src
    r.instance(cq, {"ok": ok})
    if not ok:
        r.violation(cq, "copy does not preserve unspecified fields", "", repo.loc(cf))
    # predicates
    def atom(text, node):
        return {"self.spdx_expressions": "L", "self.copyright_lines": "C"}.get(text)

    for name, want in (("contains_copyright_or_licensing", ("or", "L", "C")), ("contains_copyright_xor_licensing", ("xor", "L", "C"))):
        pf = repo.func(f"{RI}.{name}")
        rets = [n.value for n in ast.walk(pf) if isinstance(n, ast.Return)]
        f = bool_formula(rets[0], atom) if rets else False
        bad = equivalent(f, want)
        r.instance(f"{RI}.{name}", {"formula": repr(f)})
        if bad is not None:
            r.violation(f"{RI}.{name}", "predicate", f"{ast.unparse(rets[0])} differs from {want} at {bad}", repo.loc(pf))
    ci = repo.func(f"{RI}.contains_info")
    s = re.sub(r"\s+", " ", ast.unparse(ci))
    ok = "{key for key in self.__dict__ if key not in ('path', 'source_path', 'source_type')}" in s and \
        "return any((self.__dict__[key] for key in keys))" in s
    r.instance(f"{RI}.contains_info", {"ok": ok})
    if not ok:
        r.violation(f"{RI}.contains_info", "predicate", "any field except path/source_path/source_type", repo.loc(ci))
    # ReuseInfo.copy(...) call sites only name dataclass fields (so _check_nonexistent's KeyError is unreachable)
    cls = repo.cls(RI)
    fields = {st.target.id for st in cls.body if isinstance(st, ast.AnnAssign) and isinstance(st.target, ast.Name)}
    n_sites = 0
    for fq, f in repo.functions.items():
        for c in ast.walk(f):
            if isinstance(c, ast.Call) and isinstance(c.func, ast.Attribute) and c.func.attr == "copy" and c.keywords:
                names = {kw.arg for kw in c.keywords if kw.arg}
                if True:  # dict/list/set.copy take no keyword arguments: every keyword .copy() is ReuseInfo.copy
                    n_sites += 1
                    extra = names - fields
                    r.instance(f"copy-site:{fq}:{sorted(names)}", None)
                    # `copy(**{attr: … for attr in NAMES …})`: the keys are the strings of a module-level tuple / list
                    dyn_unknown = False
                    for kw in c.keywords:
                        if kw.arg is not None:
                            continue
                        keys = None
                        v = kw.value
                        if isinstance(v, ast.DictComp) and isinstance(v.key, ast.Name) and len(v.generators) == 1 \
                                and isinstance(v.generators[0].target, ast.Name) and v.generators[0].target.id == v.key.id:
                            src_it = v.generators[0].iter
                            cand = [src_it.id] if isinstance(src_it, ast.Name) else []
                            # a local set built from such a constant (`wanted = set(_CLOSEST_ATTRIBUTES)`)
                            for st in ast.walk(f):
                                if cand and isinstance(st, ast.Assign) and any(isinstance(t, ast.Name) and t.id == cand[0] for t in st.targets):
                                    cand += [n.id for n in ast.walk(st.value) if isinstance(n, ast.Name)]
                            mod = repo.module_of(f)
                            for nm in cand:
                                for st in mod.tree.body:
                                    if isinstance(st, ast.Assign) and any(isinstance(t, ast.Name) and t.id == nm for t in st.targets) \
                                            and isinstance(st.value, (ast.Tuple, ast.List)) and all(isinstance(e, ast.Constant) and isinstance(e.value, str) for e in st.value.elts):
                                        keys = {e.value for e in st.value.elts}
                        if keys is None:
                            dyn_unknown = True
                        else:
                            extra |= keys - fields
                    if dyn_unknown and not extra:
                        ck.defer(AnalysisError(f"{fq}: ReuseInfo.copy(**…) with keys that cannot be read from the source: whether they are fields is not decided"))
                        continue
                    if extra:
                        r.violation(fq, f"ReuseInfo.copy with unknown field {sorted(extra)}", "raises KeyError at run time", repo.loc(c))
    r.floor(5, "ReuseInfo.copy call sites", got=n_sites)


def rule_skip(ck: Check, repo: Repo) -> None:
    r = ck.rule("R3", "--skip-existing returns before any effect (nothing is rewritten, so nothing can be dropped)")
    q = "reuse._annotate.add_header_to_file"
    fn = repo.func(q)
    n = 0
    for d, leaf, _ in tabulate(fn, c11.AHHooks(), lambda v: v("skip_existing") and v("has_info")):
        if not (d.get("skip_existing") and d.get("has_info")):
            continue
        n += 1
        fx = [e for e in leaf.events if e[0] in ("fs", "build")]
        r.instance("skip:" + show_valuation(d), {"effects": [repr(e) for e in fx], "outcome": leaf.outcome[:2]})
        if fx or leaf.outcome[:2] != ("return", "0"):
            r.violation(q, "--skip-existing on a file with REUSE information", f"effects {fx}, outcome {leaf.outcome[:2]}", repo.loc(fn))
    r.floor(1, "skip-existing paths", got=n)
    if "contains_reuse_info(text)" not in ast.unparse(fn):
        r.violation(q, "skip test operand", "must test the text that was read", repo.loc(fn))


MUTATORS = {"add", "update", "discard", "remove", "clear", "pop", "append", "extend", "insert", "sort", "reverse",
            "difference_update", "intersection_update", "symmetric_difference_update", "setdefault", "popitem"}


def rule_no_mutation(ck: Check, repo: Repo, rid: str = "R5") -> None:
    """The annotate command builds ONE request (ReuseInfo) and reuses it for every path: nothing on the
    per-file path may mutate an object reachable from its parameters (which API hands out a mutable
    reference to shared storage)."""
    r = ck.rule(rid, "the request object is shared by all files of one invocation: no in-place mutation of parameter-reachable sets")
    funcs = [f"{HD}.create_header", f"{HD}._create_new_header", f"{HD}.find_and_replace_header", f"{HD}.add_new_header",
             "reuse._annotate.add_header_to_file", "reuse.copyright.merge_copyright_lines", f"{RI}.union", f"{RI}.copy",
             "reuse.cli.annotate.annotate"]
    n = 0
    for q in funcs:
        fn = repo.func(q)
        ck.analysed_fn(q)
        params = {a.arg for a in fn.args.args + fn.args.kwonlyargs} - {"self", "cls"}
        if q.endswith(".union") or q.endswith(".copy"):
            params |= {"self"}
        # aliases: local = <param>.<attr> / <param> (single plain assignment, no copy)
        alias: dict[str, str] = {}
        for st in ast.walk(fn):
            if isinstance(st, ast.Assign) and len(st.targets) == 1 and isinstance(st.targets[0], ast.Name):
                v = st.value
                base = v
                while isinstance(base, ast.Attribute):
                    base = base.value
                if isinstance(v, (ast.Attribute, ast.Name)) and isinstance(base, ast.Name) and (base.id in params or base.id in alias):
                    if st.targets[0].id not in params or True:
                        alias[st.targets[0].id] = ast.unparse(v)
        # a name that is re-bound to a fresh object before any mutation is not an alias any more: keep it simple and
        # conservative - only names whose EVERY assignment is an alias assignment count
        for name in list(alias):
            assigns = [st for st in ast.walk(fn) if isinstance(st, ast.Assign) and any(ast.unparse(t) == name for t in st.targets)]
            if any(not isinstance(st.value, (ast.Attribute, ast.Name)) for st in assigns):
                # mixed: decide per mutation site by the nearest preceding assignment
                pass

        def shared(expr: ast.AST, at_line: int) -> str | None:
            base = expr
            while isinstance(base, ast.Attribute):
                base = base.value
            if not isinstance(base, ast.Name):
                return None
            if base.id in params and isinstance(expr, ast.Attribute):
                return ast.unparse(expr)
            if isinstance(expr, ast.Name) and expr.id in alias:
                prev = [st for st in ast.walk(fn) if isinstance(st, ast.Assign) and st.lineno <= at_line
                        and any(ast.unparse(t) == expr.id for t in st.targets)]
                if prev:
                    last = max(prev, key=lambda st: st.lineno)
                    v = last.value
                    b = v
                    while isinstance(b, ast.Attribute):
                        b = b.value
                    if isinstance(v, (ast.Attribute, ast.Name)) and isinstance(b, ast.Name) and (b.id in params or b.id in alias) \
                            and not (isinstance(v, ast.Name) and v.id in params and False):
                        return f"{expr.id} (alias of {ast.unparse(v)})"
            return None

        for node in ast.walk(fn):
            hit = None
            if isinstance(node, ast.AugAssign):
                hit = shared(node.target, node.lineno)
                what = f"{ast.unparse(node.target)} {type(node.op).__name__}= …"
            elif isinstance(node, ast.Call) and isinstance(node.func, ast.Attribute) and node.func.attr in MUTATORS:
                hit = shared(node.func.value, node.lineno)
                what = f"{ast.unparse(node.func)}(…)"
            else:
                continue
            n += 1
            r.instance(f"{q}:{ast.unparse(node)[:50]}", {"function": q, "site": ast.unparse(node)[:70], "shared_object": hit})
            if hit and not (q.endswith("annotate.annotate")):
                r.violation(q, f"in-place mutation of {hit}",
                            f"`{what}` changes an object that belongs to the caller; `reuse annotate` reuses one request for every"
                            f" path, so information from one file leaks into all files processed after it", repo.loc(node))
    r.floor(3, "mutation sites examined", got=n)


# ------------------------------------------------------------------ R9: a new .license sibling hides what the file itself declares
READERS = ("reuse_info_of_file", "extract_reuse_info", "reuse_info_of", "contains_reuse_info", "decoded_text_from_binary")


def rule_sibling_hides(ck: Check, repo: Repo, rid: str = "R9") -> None:
    """FILE.license takes precedence over FILE: once it exists, the reader looks at nothing else.  Where annotate
    redirects the header of an existing text file to a (new) sibling - --force-dot-license, an uncommentable type,
    --fallback-dot-license - the information FILE itself declares stops being declared unless it is carried over.
    Decided: in the redirecting branches (command loop and add_header_to_file), whether the original file is read at all."""
    r = ck.rule(rid, "redirecting the header to FILE.license keeps what FILE itself declares (the file is read before the sibling hides it)")
    sites = []
    for q in (repo.qualname_of(repo.commands()["annotate"]), "reuse._annotate.add_header_to_file"):
        fn = repo.func(q)
        ck.analysed_fn(q)
        for node in ast.walk(fn):
            if not isinstance(node, ast.If):
                continue
            for branch in (node.body, node.orelse):   # whichever branch redirects (an inverted test puts it in the else clause)
                body_calls = [c for st in branch for c in ast.walk(st) if isinstance(c, ast.Call)]
                direct = [c for st in branch if not isinstance(st, ast.If) for c in ast.walk(st) if isinstance(c, ast.Call)
                          and ast.unparse(c.func).split(".")[-1] == "_determine_license_suffix_path"]
                if not direct:
                    continue
                reads = [ast.unparse(c.func) for c in body_calls if ast.unparse(c.func).split(".")[-1] in READERS]
                sites.append((q, node, reads))
    if not sites:
        raise AnalysisError("no branch redirects the header to a .license sibling (anchor vanished)")
    for q, node, reads in sites:
        cond = ast.unparse(node.test)
        r.instance(f"redirect:{q.split('.')[-1]}", {"condition": cond[:120], "reads_original": reads}, q)
    # the command-level redirect is the one that applies to files with a header of their own
    unread = [(q, node) for q, node, reads in sites if not reads]
    if unread:
        q, node = unread[0]
        r.violation(q, "the header is redirected to a .license sibling and the file's own declarations are not carried over",
                    "`a.py` with `2019 Old / 0BSD` in its header, `reuse annotate -c New -l MIT --force-dot-license a.py`: a.py.license holds only"
                    " New / MIT and - the sibling taking precedence - lint no longer reports Old / 0BSD for a.py", repo.loc(node))


def rule_unrecognised_kept(ck: Check, repo: Repo, rid: str = "R11") -> None:
    """Existing content that the finder does not recognise as a header is KEPT (it goes to place_header with the rest of
    the text).  'Not recognised' includes 'declares something that cannot be parsed': contains_reuse_info answers False on
    a parse error.  A statement that clears the kept text on that path discards what the file declared."""
    r = ck.rule(rid, "content the finder does not recognise is handed on unchanged, never discarded")
    q = "reuse.header.find_and_replace_header"
    fn = repo.func(q)
    ck.analysed_fn(q, "reuse.extract.contains_reuse_info")
    # (a) the recogniser answers False for unparseable information
    cri = repo.func("reuse.extract.contains_reuse_info")
    swallowed = []
    for h in ast.walk(cri):
        if isinstance(h, ast.ExceptHandler) and any(isinstance(x, ast.Return) and isinstance(x.value, ast.Constant) and x.value.value is False for x in h.body):
            swallowed += [ast.unparse(t) for t in (h.type.elts if isinstance(h.type, ast.Tuple) else [h.type] if h.type is not None else [])]
    # (b) the handler of the finder's MissingReuseInfoError binds the whole text to one of the three parts
    kept = None
    handler = None
    for t in ast.walk(fn):
        if isinstance(t, ast.Try) and any("_find_first_spdx_comment" in ast.unparse(b) for b in t.body):
            for h in t.handlers:
                for st in h.body:
                    if isinstance(st, ast.Assign) and isinstance(st.targets[0], ast.Tuple) and isinstance(st.value, ast.Tuple):
                        for tg, v in zip(st.targets[0].elts, st.value.elts):
                            if isinstance(v, ast.Name) and v.id == fn.args.args[0].arg and isinstance(tg, ast.Name):
                                kept, handler = tg.id, t
    if kept is None:
        raise AnalysisError("find_and_replace_header: the path on which no header is found could not be read (shape not enumerated)")
    r.instance("recogniser", {"answers_false_on": swallowed, "kept_in": kept}, q)
    # (c) statements after the try that rebind the kept part to something that does not contain it
    idx = fn.body.index(handler) if handler in fn.body else None
    if idx is None:
        raise AnalysisError("find_and_replace_header: finder call is not a top-level statement")
    n = 0
    for st in fn.body[idx + 1:]:
        for sub in ast.walk(st):
            if isinstance(sub, ast.Assign) and any(isinstance(t, ast.Name) and t.id == kept for t in sub.targets) \
                    and not any(isinstance(x, ast.Name) and x.id == kept for x in ast.walk(sub.value)) \
                    and not (isinstance(sub.value, ast.Call) and "_extract_shebang" in ast.unparse(sub.value.func)):
                # guard under which it runs
                guard = None
                for g in ast.walk(st):
                    if isinstance(g, ast.If) and sub in list(ast.walk(g)):
                        guard = ast.unparse(g.test)
                        break
                n += 1
                found_part = [a for a in ("header",) if guard and re.search(rf"\b{a}\b", guard)]
                r.instance(f"clears:{guard}", {"statement": ast.unparse(sub), "guard": guard, "requires_found_header": bool(found_part)}, q)
                if not found_part and swallowed:
                    r.violation(q, f"`{ast.unparse(sub)}` under `{guard}` also runs when no header was recognised",
                                f"the text was bound to `{kept}` because the finder recognised nothing - and contains_reuse_info answers False for"
                                f" information it cannot parse ({', '.join(swallowed)}): a side file `b.png.license` with a valid copyright notice and"
                                f" `SPDX-License-Identifier: MIT OR` is replaced wholesale by `reuse annotate -c Bob b.png` (exit 0), the notice is gone",
                                repo.loc(sub))
    r.floor(1, "statements that rebind the kept text", got=n) if False else None


def run(ck: Check, repo: Repo) -> None:
    ck.explanation = (
        "R1 on every path of create_header with an existing header, the information handed to the renderer is the"
        " union of extract_reuse_info(header) and the request, with copyright_lines the (optionally merged) union of"
        " both; an unparseable existing header raises instead of being dropped. R2 ReuseInfo.union as a per-field"
        " table over all fields, copy, the three predicates as boolean formulas, and every .copy() call site names only"
        " dataclass fields. R3 --skip-existing has no effect at all. R4 the post-render check (shared with C07-R1) is"
        " what makes 'never drops' observable. Not decided: monotonicity over arbitrary histories of header shapes;"
        " year-merge arithmetic (C20)."
    )
    ck.not_decided = ["monotonicity over arbitrary histories (needs run-time header shapes)", "merge arithmetic (C20-R3)"]
    ck.trust("CPython ast", "sa/tab.py")
    rule_union(ck, repo)
    rule_reuseinfo(ck, repo)
    rule_skip(ck, repo)
    r4 = ck.rule("R4", "post-render check (shared with C07-R1)")
    c07.postcondition(ck, repo, r4)
    rule_no_mutation(ck, repo)
    from . import c20, c10
    c20.rule_merge(ck, repo, "R6")
    c10.rule_finder_predicate(ck, repo, "R7")
    # what a run re-renders (the union of old and new information) must be written verbatim (shared with C07-R2)
    r8 = ck.rule("R8", "template environments write values verbatim (no auto-escaping of re-rendered information)")
    c07.environments_verbatim(r8, repo)  # an existing header that is not found is not merged either
    rule_sibling_hides(ck, repo)
    # what is merged is the existing header AS FOUND: the block handed to the merger and the text after it are slices of
    # the one text at the position found - a block cut short loses the notices on the cut line (shared with C08-R4)
    from . import c08
    c08.rule_partition(ck, repo, "R10")
    rule_unrecognised_kept(ck, repo)
