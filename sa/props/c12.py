"""C12 - ignore blocks: index truthiness, branch table of filter_ignore_block, filter-first dataflow."""
from __future__ import annotations

import ast
import re

from ..fold import Folder
from ..model import AnalysisError, Repo, walk_no_nested
from ..report import Check
from ..tab import Hooks, Valuation, show_valuation, tabulate

EX = "reuse.extract"


# ------------------------------------------------------------------ R1: index truthiness lint (whole package)
def _index_min(expr: ast.AST, folder: Folder, mod) -> int | None:
    """Lower bound of an expression built from str.index/find (+ positive constants); None if not an index."""
    if isinstance(expr, ast.Call) and isinstance(expr.func, ast.Attribute) and expr.func.attr in ("index", "rindex"):
        return 0
    if isinstance(expr, ast.Call) and isinstance(expr.func, ast.Attribute) and expr.func.attr in ("find", "rfind"):
        return -1
    if isinstance(expr, ast.BinOp) and isinstance(expr.op, ast.Add):
        l = _index_min(expr.left, folder, mod)
        r = _index_min(expr.right, folder, mod)
        lc = _const_len(expr.left, folder, mod)
        rc = _const_len(expr.right, folder, mod)
        if l is not None and rc is not None:
            return l + rc
        if r is not None and lc is not None:
            return r + lc
    return None


def _const_len(expr: ast.AST, folder: Folder, mod) -> int | None:
    if isinstance(expr, ast.Constant) and isinstance(expr.value, int):
        return expr.value
    if isinstance(expr, ast.Call) and ast.unparse(expr.func) == "len" and len(expr.args) == 1:
        v = folder.fold(expr.args[0], mod, {})
        if isinstance(v, (str, bytes)):
            return len(v)
    return None


def _truth_tests(fn: ast.FunctionDef):
    """Yield (Name node, context) for every truthiness test of a bare name."""
    def leaves(e):
        if isinstance(e, ast.BoolOp):
            for v in e.values:
                yield from leaves(v)
        elif isinstance(e, ast.UnaryOp) and isinstance(e.op, ast.Not):
            yield from leaves(e.operand)
        elif isinstance(e, ast.Name):
            yield e

    for n in walk_no_nested(fn):
        if isinstance(n, (ast.If, ast.While, ast.IfExp)):
            yield from ((x, n) for x in leaves(n.test))
        elif isinstance(n, ast.Assert):
            yield from ((x, n) for x in leaves(n.test))


def rule_index_truthiness(ck: Check, repo: Repo, folder: Folder, floor: int = 2) -> None:
    r = ck.rule("R1", "a value produced by str.index/find (range includes 0) is never tested by truthiness")
    n_index_vars = 0
    for q, fn in sorted(repo.functions.items()):
        mod = repo.module_of(fn)
        mins: dict[str, list[int]] = {}
        for n in walk_no_nested(fn):
            if isinstance(n, ast.Assign) and len(n.targets) == 1 and isinstance(n.targets[0], ast.Name):
                m = _index_min(n.value, folder, mod)
                if m is not None:
                    mins.setdefault(n.targets[0].id, []).append(m)
        if not mins:
            continue
        n_index_vars += len(mins)
        for name_node, ctx in _truth_tests(fn):
            if name_node.id in mins:
                lo = min(mins[name_node.id])
                r.instance(f"{q}:{name_node.id}", {"function": q, "variable": name_node.id, "min": lo,
                                                   "test": ast.unparse(ctx.test)[:60]}, q)
                if lo <= 0:
                    r.violation(q, f"truthiness test of index variable {name_node.id}",
                                f"`{ast.unparse(ctx.test)[:60]}`: {name_node.id} comes from str.index()/find() and can be 0,"
                                f" which the test confuses with 'not found'", repo.loc(ctx))
    if floor:
        r.floor(floor, "index-valued variables in the package", got=n_index_vars)
    # positive control: the rule must recognise the idiom on an embedded example
    ctl = ast.parse("def f(t):\n    i = None\n    if 'x' in t:\n        i = t.index('x')\n    if not i:\n        return t\n    return t[:i]\n").body[0]
    hit = [n.id for n, _ in _truth_tests(ctl)]
    if hit != ["i"] or _index_min(ctl.body[1].body[0].value, folder, None) != 0:
        raise AnalysisError("C12-R1 positive control failed")


# ------------------------------------------------------------------ R2: branch table of filter_ignore_block
def rule_branch_table(ck: Check, repo: Repo, folder: Folder) -> None:
    r = ck.rule("R2", "filter_ignore_block: which part is kept depends only on marker presence/order")
    q = f"{EX}.filter_ignore_block"
    fn = repo.func(q)
    ck.analysed_fn(q)
    start = folder.known(EX, "REUSE_IGNORE_START")
    end = folder.known(EX, "REUSE_IGNORE_END")
    r.instance("markers", {"start": start, "end": end})
    if start != "REUSE-IgnoreStart" or end != "REUSE-IgnoreEnd":
        r.violation(f"{EX}.REUSE_IGNORE_START/END", "marker spelling", f"{start!r} / {end!r}",
                    repo.loc(repo.module_assign(EX, "REUSE_IGNORE_START")))

    IDX_S = "text.index(REUSE_IGNORE_START)"
    IDX_E = "text.index(REUSE_IGNORE_END) + len(REUSE_IGNORE_END)"

    class H(Hooks):
        def atom(self, text, node, it):
            t = text
            if t == "REUSE_IGNORE_START in text":
                return "has_start"
            if t == "REUSE_IGNORE_END in text":
                return "has_end"
            if t in (f"{IDX_S} is None", f"{IDX_E} is None"):
                return False
            if t in (f"{IDX_S} is not None", f"{IDX_E} is not None"):
                return True
            if t == f"{IDX_E} > {IDX_S}":
                return "end_after_start"
            if t == f"{IDX_S} < {IDX_E}":
                return "end_after_start"
            # `>=` decides the same: equality means the first end marker stands directly in front of the first start marker
            # (END...ENDSTART): cutting at the start and continuing behind that end marker continues AT the start marker, and
            # the recursive call then does what the `rest` branch does - the kept text is the same in both readings
            if t in (f"{IDX_E} >= {IDX_S}", f"{IDX_S} <= {IDX_E}"):
                return "end_after_start"
            if re.fullmatch(r"REUSE_IGNORE_END in text\[.*\]", t):
                return "end_in_rest"
            if t == IDX_E:
                return True  # >= len(marker) > 0: never falsy
            return None

    def classify(out: tuple) -> str:
        if out[0] != "return":
            return f"{out}"
        t = out[1]
        if t == "text":
            return "KEEP"
        if t == f"text[:{IDX_S}]":
            return "CUT-TO-END"
        m = re.fullmatch(re.escape(f"text[:{IDX_S}] + filter_ignore_block(") + r"(.*)\)", t)
        if m:
            inner = m.group(1)
            if inner == f"text[{IDX_E}:]":
                return "CUT-AND-CONTINUE(after end)"
            rest_ = f"text[{IDX_S} + len(REUSE_IGNORE_START):]"
            if inner == f"{rest_}[{rest_}.index(REUSE_IGNORE_END) + len(REUSE_IGNORE_END):]":
                return "CUT-AND-CONTINUE(after end in rest)"
            if inner.startswith(rest_ + "["):
                # continues somewhere else in the rest than directly behind its first end marker
                return f"CUT-AND-CONTINUE(in rest at {inner[len(rest_):][:80]})"
            return f"CUT-AND-CONTINUE({inner})"
        return t

    def ref(v: Valuation) -> str:
        if not v("has_start"):
            return "KEEP"
        if not v("has_end"):
            return "CUT-TO-END"
        if v("end_after_start"):
            return "CUT-AND-CONTINUE(after end)"
        if v("end_in_rest"):
            return "CUT-AND-CONTINUE(after end in rest)"
        return "CUT-TO-END"

    leaves = tabulate(fn, H(), ref)
    r.floor(4, "paths through filter_ignore_block", got=len(leaves))
    for d, leaf, expected in leaves:
        got = classify(leaf.outcome)
        r.instance("path:" + show_valuation(d), {"valuation": show_valuation(d), "kept": got})
        if got != expected:
            free = [a for a in d if a.startswith("?")]
            why = ""
            if free:
                why = f"; the outcome depends on {free[0][1:]!r} (an index that is 0 is treated as 'no marker')"
            r.violation(q, f"[{show_valuation({k: x for k, x in d.items() if not k.startswith('?')})}]"
                        + (" index-is-falsy" if free and not d[free[0]] else ""),
                        f"kept part is {got}, the specification says {expected}{why}",
                        f"{repo.module(EX).rel}:{leaf.trace[-1] if leaf.trace else fn.lineno}",
                        {"valuation": d})
    # the end cut includes the marker itself
    src = ast.unparse(fn)
    ok = "text.index(REUSE_IGNORE_END) + len(REUSE_IGNORE_END)" in src and "rest.index(REUSE_IGNORE_END) + len(REUSE_IGNORE_END)" in src
    r.instance("end-cut-includes-marker", {"ok": ok})
    if not ok:
        r.violation(q, "end marker not removed", "the cut must end after the end marker (index + len(marker))", repo.loc(fn))
    from ..rules import has
    if not has(src, "rest = text[ignore_start + len(REUSE_IGNORE_START):]", ["rest", "ignore_start", "text"]):
        r.violation(q, "rest does not start after the start marker", "", repo.loc(fn))


# ------------------------------------------------------------------ R3: filter first
def rule_filter_first(ck: Check, repo: Repo) -> None:
    r = ck.rule("R3", "every tag search in extract_reuse_info runs on the filtered text")
    q = f"{EX}.extract_reuse_info"
    fn = repo.func(q)
    ck.analysed_fn(q)

    class H(Hooks):
        def event(self, text, call, it):
            f = ast.unparse(call.func)
            if f == "find_spdx_tag":
                return ("search", it.text(call.args[0]))
            if f.endswith(".splitlines"):
                return ("lines", it.text(call.func.value))
            return None

        def raises(self, text, call, it):
            return []

    leaves = tabulate(fn, H())
    n = 0
    for d, leaf, _ in leaves:
        for e in leaf.events:
            while e[0] == "each":
                e = e[2]
            if e[0] in ("search", "lines"):
                n += 1
                r.instance(f"{e[0]}:{e[1]}", {"use": e[0], "operand": e[1]})
                if e[1] != "filter_ignore_block(text)":
                    r.violation(q, f"{e[0]} on unfiltered text", f"{e[0]} receives {e[1]!r} instead of the filtered text",
                                repo.loc(fn))
    r.floor(2, "tag-search sites", got=n)


def rule_unbounded(ck: Check, repo: Repo, rid: str = "R5") -> None:
    """'any number of blocks may follow one another': the filter must not consume one stack frame per block, and the
    kept pieces must not be fused into one line."""
    r = ck.rule(rid, "the filter handles any number of blocks (no recursion per block) and keeps the pieces around a block apart")
    q = f"{EX}.filter_ignore_block"
    fn = repo.func(q)
    rec = [c for c in ast.walk(fn) if isinstance(c, ast.Call) and ast.unparse(c.func) == "filter_ignore_block"]
    loops = [n for n in ast.walk(fn) if isinstance(n, (ast.While, ast.For))]
    r.instance("iteration", {"recursive_calls": len(rec), "loops": len(loops)}, q)
    if rec:
        r.violation(q, "one recursive call per ignore block",
                    f"`{ast.unparse(rec[0])[:60]}`: the recursion depth equals the number of blocks; a text with about a thousand blocks"
                    f" (a file with SPDX-SnippetBegin is read whole) ends in RecursionError and the file contributes nothing",
                    repo.loc(rec[0]))
    # kept pieces: text[:start] + <rest> with nothing in between
    joins = [b for b in ast.walk(fn) if isinstance(b, ast.BinOp) and isinstance(b.op, ast.Add)
             and isinstance(b.left, ast.Subscript) and isinstance(b.right, ast.Call) and ast.unparse(b.right.func) == "filter_ignore_block"]
    r.instance("joins", {"direct_concatenations": len(joins)}, q)
    sub = _regex_filter_call(repo, fn)
    if sub is not None and isinstance(sub[1], ast.Constant) and sub[1].value == "":
        r.violation(q, "the text before a block and the text after it are concatenated directly",
                    "the block is replaced by the empty string: when the start marker follows a tag on the same line and the end marker"
                    " precedes another tag on its line, the two tags end up on one line and are read as ONE value (neither contributes)",
                    repo.loc(sub[5]))
    if joins:
        r.violation(q, "the text before a block and the text after it are concatenated directly",
                    f"`{ast.unparse(joins[0])[:70]}`: when the start marker follows a tag on the same line and the end marker precedes"
                    f" another tag on its line, the two tags end up on one line and are read as ONE value (neither contributes)",
                    repo.loc(joins[0]))



# ------------------------------------------------------------------ R2 (regex family)
def _regex_filter_call(repo: Repo, fib: ast.FunctionDef):
    """`return re.sub(P, R, text[, count[, flags]])` / `return P.sub(R, text[, count])` as the whole body -> (P, R, subject, count, flags, call)."""
    from ..rules import resolve_deep
    body = [st for st in fib.body if not (isinstance(st, ast.Expr) and isinstance(st.value, ast.Constant))]
    rets = [n for n in ast.walk(fib) if isinstance(n, ast.Return)]
    if len(rets) != 1 or not body or body[-1] is not rets[0] or rets[0].value is None:
        return None
    call = resolve_deep(fib, rets[0].value)
    if not (isinstance(call, ast.Call) and isinstance(call.func, ast.Attribute) and call.func.attr in ("sub", "subn")):
        return None
    kws = {k.arg: k.value for k in call.keywords if k.arg}
    if ast.unparse(call.func.value) == "re":
        a = list(call.args) + [None] * 5
        pat, repl, subj = kws.get("pattern", a[0]), kws.get("repl", a[1]), kws.get("string", a[2])
        count, flags = kws.get("count", a[3]), kws.get("flags", a[4])
    else:
        a = list(call.args) + [None] * 4
        pat, repl, subj = call.func.value, kws.get("repl", a[0]), kws.get("string", a[1])
        count, flags = kws.get("count", a[2]), None
    return pat, repl, subj, count, flags, rets[0]


def rule_regex_filter(ck: Check, repo: Repo, folder: Folder) -> None:
    """The filter written as ONE regular-expression substitution.  `START .*? (END | end-of-text)` with DOTALL, replaced
    everywhere (count 0) by the empty string, removes exactly: from each start marker that is not inside a block up to the
    next end marker, or up to the end of the text - the specified behaviour (blocks do not nest, a stray end marker is
    ordinary text, any number of blocks).  Each deviation from that shape is a named violation."""
    import re as _re
    import re._parser as sp  # type: ignore
    import re._constants as sc  # type: ignore
    from ..fold import Regex
    r = ck.rule("R2", "filter_ignore_block (substitution form): START .*? (END | end of text), DOTALL, every occurrence, replaced by nothing")
    q = f"{EX}.filter_ignore_block"
    fib = repo.func(q)
    ck.analysed_fn(q)
    pat, repl, subj, count, flags, ret = _regex_filter_call(repo, fib)
    mod = repo.module(EX)
    pv = folder.fold(pat, mod, folder.env(EX))
    if isinstance(pv, Regex):
        pattern, pflags = pv.pattern, pv.flags
    elif isinstance(pv, str):
        pattern, pflags = pv, 0
    else:
        raise AnalysisError(f"filter_ignore_block: the substitution pattern `{ast.unparse(pat)[:60]}` does not fold to a constant")
    loc = repo.loc(ret)
    start = folder.known(EX, "REUSE_IGNORE_START")
    end = folder.known(EX, "REUSE_IGNORE_END")
    r.instance("substitution", {"pattern": pattern, "compiled_flags": pflags, "count": ast.unparse(count) if count is not None else None,
                                "flags": ast.unparse(flags) if flags is not None else None, "replacement": ast.unparse(repl) if repl is not None else None}, q)
    if subj is None or ast.unparse(subj) != fib.args.args[0].arg:
        r.violation(q, "the substitution does not run on the text given", f"subject is `{ast.unparse(subj) if subj is not None else None}`", loc)
    if repl is None or not (isinstance(repl, ast.Constant) and repl.value == ""):
        r.violation(q, "an ignore block is replaced by something other than nothing", f"replacement `{ast.unparse(repl) if repl is not None else None}`", loc)
    # every occurrence: the count position must be absent or 0 - a FLAG in the count position is the classic slip
    if count is not None:
        cv = folder.fold(count, mod, folder.env(EX))
        txt = ast.unparse(count)
        if not (isinstance(cv, int) and not isinstance(cv, bool) and cv == 0 and not txt.startswith("re.")):
            n = f" = {int(cv)}" if isinstance(cv, int) else ""
            r.violation(q, f"only a bounded number of ignore blocks is removed (count `{txt}`{n})",
                        f"the 4th positional parameter of re.sub (3rd of Pattern.sub) is `count`, not `flags`: with `{txt}`{n} the blocks after"
                        f" the first{n.replace(' = ', ' ')} stay in the text and the tags inside them are read - 'any number of blocks may follow one another'", loc)
    if flags is not None:
        fv = folder.fold(flags, mod, folder.env(EX))
        if isinstance(fv, int):
            pflags |= int(fv)
        if isinstance(pv, Regex) and pv.flags and False:
            pass
    try:
        tree = sp.parse(pattern, pflags)
    except Exception as err:  # noqa: BLE001
        raise AnalysisError(f"filter_ignore_block: pattern does not parse: {err}")
    eff = pflags | tree.state.flags
    items = list(tree)
    lit = ""
    i = 0
    while i < len(items) and items[i][0] is sc.LITERAL:
        lit += chr(items[i][1])
        i += 1
    if lit != start:
        r.violation(q, "a block does not begin exactly at the start marker", f"pattern begins with {lit!r}, marker is {start!r}", loc)
    body = items[i] if i < len(items) else (None, None)
    i += 1
    if body[0] is sc.MAX_REPEAT and body[1][2][0][0] is sc.ANY:
        r.violation(q, "a block runs to the LAST end marker of the text (greedy .*)",
                    "`S a E b S c E`: everything between the first start and the last end marker is removed, the tag `b` between two blocks is lost", loc)
    elif not (body[0] is sc.MIN_REPEAT and body[1][0] == 0 and body[1][1] == sc.MAXREPEAT and [x[0] for x in body[1][2]] == [sc.ANY]):
        r.violation(q, "the inside of a block is not `.*?`", f"{body}", loc)
    if not eff & _re.DOTALL:
        r.violation(q, "a block that spans several lines is not removed (DOTALL missing)",
                    "`.` does not match a newline: `REUSE-IgnoreStart\\nSPDX-License-Identifier: X\\nREUSE-IgnoreEnd` keeps its tag", loc)
    tail = items[i:] if i <= len(items) else []
    # (END | \Z): a literal END alone forgets the unterminated block
    def lits(seq):
        return "".join(chr(x[1]) for x in seq if x[0] is sc.LITERAL) if all(x[0] is sc.LITERAL for x in seq) else None
    ok_tail = False
    unterminated = False
    if len(tail) == 1 and tail[0][0] is sc.SUBPATTERN:
        tail = list(tail[0][1][3])
    if len(tail) == 1 and tail[0][0] is sc.BRANCH:
        alts = [list(a) for a in tail[0][1][1]]
        has_end = any(lits(a) == end for a in alts)
        has_eot = any(len(a) == 1 and a[0][0] is sc.AT and a[0][1] in (sc.AT_END_STRING,) or
                      (len(a) == 1 and a[0][0] is sc.AT and a[0][1] is sc.AT_END and not eff & _re.MULTILINE) for a in alts)
        ok_tail = has_end and has_eot and len(alts) == 2
        unterminated = has_eot
    elif lits(tail) == end:
        ok_tail, unterminated = False, False
        r.violation(q, "a block without an end marker hides nothing",
                    "the pattern requires the end marker: `tag REUSE-IgnoreStart tag2` with no end marker keeps tag2, which the statement says is ignored up to the end of the scanned text", loc)
        ok_tail = True
    if not ok_tail:
        r.violation(q, "a block does not end at the next end marker or the end of the text", f"pattern tail {tail}", loc)
    if eff & _re.IGNORECASE:
        r.violation(q, "markers are matched case-insensitively", "`reuse-ignorestart` in ordinary text opens a block", loc)


def run(ck: Check, repo: Repo) -> None:
    ck.explanation = (
        "R1: package-wide lint with value intervals: a local assigned from str.index/find (+ positive constant"
        " lengths, folded) whose interval contains 0 must not be tested by truthiness. R2: branch table of"
        " filter_ignore_block over the atoms {has_start, has_end, end_after_start, end_in_rest}, explored jointly with"
        " the specified table; an outcome that depends on any other condition (e.g. an index being 0) is a"
        " violation. R3: the filter result is the only text reaching find_spdx_tag / splitlines. Not decided:"
        " correctness of the slice arithmetic for every interleaving of markers (string-index reasoning)."
    )
    ck.not_decided = ["exact slice arithmetic for every interleaving of markers (needs string/integer reasoning)"]
    ck.trust("CPython ast", "sa/tab.py", "sa/fold.py")
    folder = Folder(repo)
    fib = repo.func(f"{EX}.filter_ignore_block")
    uses_index = any(isinstance(n, ast.Call) and isinstance(n.func, ast.Attribute) and n.func.attr in ("index", "find")
                     for n in ast.walk(fib))
    recursive = any(isinstance(n, ast.Call) and ast.unparse(n.func) == "filter_ignore_block" for n in ast.walk(fib))
    regex_family = _regex_filter_call(repo, fib) is not None
    if regex_family:
        rule_index_truthiness(ck, repo, folder, floor=0)  # the substitution form has no index variables of its own
        rule_regex_filter(ck, repo, folder)
        rule_filter_first(ck, repo)
        rule_unbounded(ck, repo)
        from . import c02 as _c02
        _c02.rule_window(ck, repo, folder, "R4")
        return
    # ... a find() whose result is KEPT as a position (assigned, or used in arithmetic / as a slice bound); `text.find(M) != -1` used
    # as a membership test is the structure the table knows
    def _is_find(n):
        return isinstance(n, ast.Call) and isinstance(n.func, ast.Attribute) and n.func.attr in ("find", "rfind")
    uses_find = any((isinstance(st, (ast.Assign, ast.AnnAssign, ast.AugAssign)) and st.value is not None and any(_is_find(x) for x in ast.walk(st.value)))
                    or (isinstance(st, (ast.Slice, ast.BinOp)) and any(_is_find(x) for x in ast.walk(st)))
                    for st in ast.walk(fib))
    if uses_find and not regex_family:
        # positions by str.find (-1 for 'absent') instead of membership test + str.index: the branch table's atoms (`MARKER in text`,
        # an index that is 0) do not describe such a function - misreading `pos == -1` as an index test would be a false alarm
        raise AnalysisError("filter_ignore_block locates the markers with str.find (absence is -1): the branch table is stated for the"
                            " membership-test + str.index structure; this analyser cannot decide the find() form")
    if not (uses_index and recursive):
        raise AnalysisError("filter_ignore_block no longer has the index-and-recurse structure that the branch table models"
                            " (marker positions by str.index, recursion on the rest): this analyser cannot decide the new"
                            " implementation - string-splitting code needs value reasoning that is outside static reach here")
    rule_index_truthiness(ck, repo, folder)
    rule_branch_table(ck, repo, folder)
    rule_filter_first(ck, repo)
    rule_unbounded(ck, repo)
    # 'the scanned text': one window per file, decoded once and filtered as ONE text - a block that is open at a cut
    # between two separately filtered pieces would be forgotten (shared with C02-R5)
    from . import c02
    c02.rule_window(ck, repo, folder, "R4")
