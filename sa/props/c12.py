"""C12 - ignore blocks: index truthiness, branch table of filter_ignore_block, filter-first dataflow."""
from __future__ import annotations

import ast
import re

from ..fold import Folder
from ..model import AnalysisError, Repo, walk_no_nested
from ..report import Check
from ..tab import Hooks, Valuation, show_valuation, tabulate

EX = "reuse.extract"


# ------------------------------------------------------------------ R1: index truthiness lint (whole package)
def _index_min(expr: ast.AST, folder: Folder, mod) -> int | None:
    """Lower bound of an expression built from str.index/find (+ positive constants); None if not an index."""
    if isinstance(expr, ast.Call) and isinstance(expr.func, ast.Attribute) and expr.func.attr in ("index", "rindex"):
        return 0
    if isinstance(expr, ast.Call) and isinstance(expr.func, ast.Attribute) and expr.func.attr in ("find", "rfind"):
        return -1
    if isinstance(expr, ast.BinOp) and isinstance(expr.op, ast.Add):
        l = _index_min(expr.left, folder, mod)
        r = _index_min(expr.right, folder, mod)
        lc = _const_len(expr.left, folder, mod)
        rc = _const_len(expr.right, folder, mod)
        if l is not None and rc is not None:
            return l + rc
        if r is not None and lc is not None:
            return r + lc
    return None


def _const_len(expr: ast.AST, folder: Folder, mod) -> int | None:
    if isinstance(expr, ast.Constant) and isinstance(expr.value, int):
        return expr.value
    if isinstance(expr, ast.Call) and ast.unparse(expr.func) == "len" and len(expr.args) == 1:
        v = folder.fold(expr.args[0], mod, {})
        if isinstance(v, (str, bytes)):
            return len(v)
    return None


def _truth_tests(fn: ast.FunctionDef):
    """Yield (Name node, context) for every truthiness test of a bare name."""
    def leaves(e):
        if isinstance(e, ast.BoolOp):
            for v in e.values:
                yield from leaves(v)
        elif isinstance(e, ast.UnaryOp) and isinstance(e.op, ast.Not):
            yield from leaves(e.operand)
        elif isinstance(e, ast.Name):
            yield e

    for n in walk_no_nested(fn):
        if isinstance(n, (ast.If, ast.While, ast.IfExp)):
            yield from ((x, n) for x in leaves(n.test))
        elif isinstance(n, ast.Assert):
            yield from ((x, n) for x in leaves(n.test))


def rule_index_truthiness(ck: Check, repo: Repo, folder: Folder) -> None:
    r = ck.rule("R1", "a value produced by str.index/find (range includes 0) is never tested by truthiness")
    n_index_vars = 0
    for q, fn in sorted(repo.functions.items()):
        mod = repo.module_of(fn)
        mins: dict[str, list[int]] = {}
        for n in walk_no_nested(fn):
            if isinstance(n, ast.Assign) and len(n.targets) == 1 and isinstance(n.targets[0], ast.Name):
                m = _index_min(n.value, folder, mod)
                if m is not None:
                    mins.setdefault(n.targets[0].id, []).append(m)
        if not mins:
            continue
        n_index_vars += len(mins)
        for name_node, ctx in _truth_tests(fn):
            if name_node.id in mins:
                lo = min(mins[name_node.id])
                r.instance(f"{q}:{name_node.id}", {"function": q, "variable": name_node.id, "min": lo,
                                                   "test": ast.unparse(ctx.test)[:60]}, q)
                if lo <= 0:
                    r.violation(q, f"truthiness test of index variable {name_node.id}",
                                f"`{ast.unparse(ctx.test)[:60]}`: {name_node.id} comes from str.index()/find() and can be 0,"
                                f" which the test confuses with 'not found'", repo.loc(ctx))
    r.floor(2, "index-valued variables in the package", got=n_index_vars)
    # positive control: the rule must recognise the idiom on an embedded example
    ctl = ast.parse("def f(t):\n    i = None\n    if 'x' in t:\n        i = t.index('x')\n    if not i:\n        return t\n    return t[:i]\n").body[0]
    hit = [n.id for n, _ in _truth_tests(ctl)]
    if hit != ["i"] or _index_min(ctl.body[1].body[0].value, folder, None) != 0:
        raise AnalysisError("C12-R1 positive control failed")


# ------------------------------------------------------------------ R2: branch table of filter_ignore_block
def rule_branch_table(ck: Check, repo: Repo, folder: Folder) -> None:
    r = ck.rule("R2", "filter_ignore_block: which part is kept depends only on marker presence/order")
    q = f"{EX}.filter_ignore_block"
    fn = repo.func(q)
    ck.analysed_fn(q)
    start = folder.known(EX, "REUSE_IGNORE_START")
    end = folder.known(EX, "REUSE_IGNORE_END")
    r.instance("markers", {"start": start, "end": end})
    if start != "REUSE-IgnoreStart" or end != "REUSE-IgnoreEnd":
        r.violation(f"{EX}.REUSE_IGNORE_START/END", "marker spelling", f"{start!r} / {end!r}",
                    repo.loc(repo.module_assign(EX, "REUSE_IGNORE_START")))

    IDX_S = "text.index(REUSE_IGNORE_START)"
    IDX_E = "text.index(REUSE_IGNORE_END) + len(REUSE_IGNORE_END)"

    class H(Hooks):
        def atom(self, text, node, it):
            t = text
            if t == "REUSE_IGNORE_START in text":
                return "has_start"
            if t == "REUSE_IGNORE_END in text":
                return "has_end"
            if t in (f"{IDX_S} is None", f"{IDX_E} is None"):
                return False
            if t in (f"{IDX_S} is not None", f"{IDX_E} is not None"):
                return True
            if t == f"{IDX_E} > {IDX_S}":
                return "end_after_start"
            if t == f"{IDX_S} < {IDX_E}":
                return "end_after_start"
            if re.fullmatch(r"REUSE_IGNORE_END in text\[.*\]", t):
                return "end_in_rest"
            if t == IDX_E:
                return True  # >= len(marker) > 0: never falsy
            return None

    def classify(out: tuple) -> str:
        if out[0] != "return":
            return f"{out}"
        t = out[1]
        if t == "text":
            return "KEEP"
        if t == f"text[:{IDX_S}]":
            return "CUT-TO-END"
        m = re.fullmatch(re.escape(f"text[:{IDX_S}] + filter_ignore_block(") + r"(.*)\)", t)
        if m:
            inner = m.group(1)
            if inner == f"text[{IDX_E}:]":
                return "CUT-AND-CONTINUE(after end)"
            if inner.startswith(f"text[{IDX_S} + len(REUSE_IGNORE_START):]["):
                return "CUT-AND-CONTINUE(after end in rest)"
            return f"CUT-AND-CONTINUE({inner})"
        return t

    def ref(v: Valuation) -> str:
        if not v("has_start"):
            return "KEEP"
        if not v("has_end"):
            return "CUT-TO-END"
        if v("end_after_start"):
            return "CUT-AND-CONTINUE(after end)"
        if v("end_in_rest"):
            return "CUT-AND-CONTINUE(after end in rest)"
        return "CUT-TO-END"

    leaves = tabulate(fn, H(), ref)
    r.floor(4, "paths through filter_ignore_block", got=len(leaves))
    for d, leaf, expected in leaves:
        got = classify(leaf.outcome)
        r.instance("path:" + show_valuation(d), {"valuation": show_valuation(d), "kept": got})
        if got != expected:
            free = [a for a in d if a.startswith("?")]
            why = ""
            if free:
                why = f"; the outcome depends on {free[0][1:]!r} (an index that is 0 is treated as 'no marker')"
            r.violation(q, f"[{show_valuation({k: x for k, x in d.items() if not k.startswith('?')})}]"
                        + (" index-is-falsy" if free and not d[free[0]] else ""),
                        f"kept part is {got}, the specification says {expected}{why}",
                        f"{repo.module(EX).rel}:{leaf.trace[-1] if leaf.trace else fn.lineno}",
                        {"valuation": d})
    # the end cut includes the marker itself
    src = ast.unparse(fn)
    ok = "text.index(REUSE_IGNORE_END) + len(REUSE_IGNORE_END)" in src and "rest.index(REUSE_IGNORE_END) + len(REUSE_IGNORE_END)" in src
    r.instance("end-cut-includes-marker", {"ok": ok})
    if not ok:
        r.violation(q, "end marker not removed", "the cut must end after the end marker (index + len(marker))", repo.loc(fn))
    from ..rules import has
    if not has(src, "rest = text[ignore_start + len(REUSE_IGNORE_START):]", ["rest", "ignore_start", "text"]):
        r.violation(q, "rest does not start after the start marker", "", repo.loc(fn))


# ------------------------------------------------------------------ R3: filter first
def rule_filter_first(ck: Check, repo: Repo) -> None:
    r = ck.rule("R3", "every tag search in extract_reuse_info runs on the filtered text")
    q = f"{EX}.extract_reuse_info"
    fn = repo.func(q)
    ck.analysed_fn(q)

    class H(Hooks):
        def event(self, text, call, it):
            f = ast.unparse(call.func)
            if f == "find_spdx_tag":
                return ("search", it.text(call.args[0]))
            if f.endswith(".splitlines"):
                return ("lines", it.text(call.func.value))
            return None

        def raises(self, text, call, it):
            return []

    leaves = tabulate(fn, H())
    n = 0
    for d, leaf, _ in leaves:
        for e in leaf.events:
            while e[0] == "each":
                e = e[2]
            if e[0] in ("search", "lines"):
                n += 1
                r.instance(f"{e[0]}:{e[1]}", {"use": e[0], "operand": e[1]})
                if e[1] != "filter_ignore_block(text)":
                    r.violation(q, f"{e[0]} on unfiltered text", f"{e[0]} receives {e[1]!r} instead of the filtered text",
                                repo.loc(fn))
    r.floor(2, "tag-search sites", got=n)


def rule_unbounded(ck: Check, repo: Repo, rid: str = "R5") -> None:
    """'any number of blocks may follow one another': the filter must not consume one stack frame per block, and the
    kept pieces must not be fused into one line."""
    r = ck.rule(rid, "the filter handles any number of blocks (no recursion per block) and keeps the pieces around a block apart")
    q = f"{EX}.filter_ignore_block"
    fn = repo.func(q)
    rec = [c for c in ast.walk(fn) if isinstance(c, ast.Call) and ast.unparse(c.func) == "filter_ignore_block"]
    loops = [n for n in ast.walk(fn) if isinstance(n, (ast.While, ast.For))]
    r.instance("iteration", {"recursive_calls": len(rec), "loops": len(loops)}, q)
    if rec:
        r.violation(q, "one recursive call per ignore block",
                    f"`{ast.unparse(rec[0])[:60]}`: the recursion depth equals the number of blocks; a text with about a thousand blocks"
                    f" (a file with SPDX-SnippetBegin is read whole) ends in RecursionError and the file contributes nothing",
                    repo.loc(rec[0]))
    # kept pieces: text[:start] + <rest> with nothing in between
    joins = [b for b in ast.walk(fn) if isinstance(b, ast.BinOp) and isinstance(b.op, ast.Add)
             and isinstance(b.left, ast.Subscript) and isinstance(b.right, ast.Call) and ast.unparse(b.right.func) == "filter_ignore_block"]
    r.instance("joins", {"direct_concatenations": len(joins)}, q)
    if joins:
        r.violation(q, "the text before a block and the text after it are concatenated directly",
                    f"`{ast.unparse(joins[0])[:70]}`: when the start marker follows a tag on the same line and the end marker precedes"
                    f" another tag on its line, the two tags end up on one line and are read as ONE value (neither contributes)",
                    repo.loc(joins[0]))



def run(ck: Check, repo: Repo) -> None:
    ck.explanation = (
        "R1: package-wide lint with value intervals: a local assigned from str.index/find (+ positive constant"
        " lengths, folded) whose interval contains 0 must not be tested by truthiness. R2: branch table of"
        " filter_ignore_block over the atoms {has_start, has_end, end_after_start, end_in_rest}, explored jointly with"
        " the specified table; an outcome that depends on any other condition (e.g. an index being 0) is a"
        " violation. R3: the filter result is the only text reaching find_spdx_tag / splitlines. Not decided:"
        " correctness of the slice arithmetic for every interleaving of markers (string-index reasoning)."
    )
    ck.not_decided = ["exact slice arithmetic for every interleaving of markers (needs string/integer reasoning)"]
    ck.trust("CPython ast", "sa/tab.py", "sa/fold.py")
    folder = Folder(repo)
    fib = repo.func(f"{EX}.filter_ignore_block")
    uses_index = any(isinstance(n, ast.Call) and isinstance(n.func, ast.Attribute) and n.func.attr in ("index", "find")
                     for n in ast.walk(fib))
    recursive = any(isinstance(n, ast.Call) and ast.unparse(n.func) == "filter_ignore_block" for n in ast.walk(fib))
    if not (uses_index and recursive):
        raise AnalysisError("filter_ignore_block no longer has the index-and-recurse structure that the branch table models"
                            " (marker positions by str.index, recursion on the rest): this analyser cannot decide the new"
                            " implementation - string-splitting code needs value reasoning that is outside static reach here")
    rule_index_truthiness(ck, repo, folder)
    rule_branch_table(ck, repo, folder)
    rule_filter_first(ck, repo)
    rule_unbounded(ck, repo)
    # 'the scanned text': one window per file, decoded once and filtered as ONE text - a block that is open at a cut
    # between two separately filtered pieces would be forgotten (shared with C02-R5)
    from . import c02
    c02.rule_window(ck, repo, folder, "R4")
