"""C20 - copyright notices: writer prefix table vs reader patterns, builder table, merge coverage."""
from __future__ import annotations

import ast
import re

from ..fold import Folder, Regex
from ..model import AnalysisError, Repo, walk_no_nested
from ..relang import Alphabet, Lang
from ..report import Check
from ..tab import Hooks, Valuation, show_valuation, tabulate

CP = "reuse.copyright"
EX = "reuse.extract"


def reader_patterns(folder: Folder) -> list[Regex]:
    pats = folder.known(EX, "_COPYRIGHT_PATTERNS")
    if not isinstance(pats, list) or not all(isinstance(p, Regex) for p in pats):
        raise AnalysisError("_COPYRIGHT_PATTERNS did not fold to compiled patterns")
    return pats


def reader_choice(repo: Repo) -> tuple[str, str]:
    """Which match the reader takes when several notice patterns match one line: ('first', m) = the first pattern of the
    table that matches (m = search/match), ('leftmost', m) = the match that starts first.  Read from extract_reuse_info."""
    fn = repo.func(f"{EX}.extract_reuse_info")
    for loop in ast.walk(fn):
        if isinstance(loop, ast.For) and ast.unparse(loop.iter) == "_COPYRIGHT_PATTERNS" and isinstance(loop.target, ast.Name):
            pv = loop.target.id
            meth = {c.func.attr for c in ast.walk(loop) if isinstance(c, ast.Call) and isinstance(c.func, ast.Attribute)
                    and isinstance(c.func.value, ast.Name) and c.func.value.id == pv and c.func.attr in ("search", "match", "fullmatch")}
            has_break = any(isinstance(n, ast.Break) for n in ast.walk(loop))
            if len(meth) == 1 and has_break:
                return "first", meth.pop()
    # comprehension over the table + min(..., key=start)
    src = ast.unparse(fn)
    m = re.search(r"(\w+)\.(search|match)\(\w+\) for \1 in _COPYRIGHT_PATTERNS", src)
    if m and re.search(r"min\([^\n]*key=lambda \w+: \w+\.start\(\)", src):
        return "leftmost", m.group(2)
    raise AnalysisError("extract_reuse_info: how one of several matching notice patterns is chosen could not be read (shape not enumerated)")


def rule_tables(ck: Check, repo: Repo, folder: Folder) -> None:
    r = ck.rule("R1", "every writer prefix is read back by the first matching reader pattern as that prefix/year/holder")
    prefixes = folder.known(CP, "_COPYRIGHT_PREFIXES")
    if not isinstance(prefixes, dict):
        raise AnalysisError("_COPYRIGHT_PREFIXES did not fold")
    pats = reader_patterns(folder)
    r.floor(10, "writer prefixes", got=len(prefixes))
    compiled = [re.compile(p.pattern, p.flags) for p in pats]  # stdlib re on folded constants only
    ck.trust("stdlib re applied to the folded reader constants and schematic notices generated from the folded"
             " writer table (constants against constants; no repository code runs)")
    holders = ["Jane Doe", "Example Corp. <https://example.com>", "Ünïcode Wörks & Sons, Inc.", "a", "Yoyodyne Holdings (Europe)",
               "The Copyright Holders"]
    how, meth = reader_choice(repo)
    r.instance("reader-choice", {"chosen_match": how, "method": meth}, f"{EX}.extract_reuse_info")
    # structural twin of the table: between the lazy statement group and the shared end pattern there is nothing - whatever
    # is put there (an optional bracket, quote, dot) is taken from the END of every holder that ends in it
    from . import c02 as _c02
    endp = _c02.end_pattern(folder)
    for idx, pt in enumerate(pats):
        ok_tail = pt.pattern.endswith("(?P<statement>.*?))" + endp)
        r.instance(f"statement-tail:{idx}", {"pattern": idx, "statement_group_directly_before_end_pattern": ok_tail})
        if not ok_tail:
            tail = pt.pattern[pt.pattern.rfind("(?P<statement>"):][:60]
            r.violation(f"{EX}._COPYRIGHT_PATTERNS[{idx}]", "something stands between the holder group and the end pattern",
                        f"`…{tail}…`: the lazy holder group gives up whatever the inserted piece can match - a holder such as"
                        " `Yoyodyne Holdings (Europe)` is read back without its last character and merged under the cut name",
                        repo.loc(repo.module_assign(EX, "_COPYRIGHT_PATTERNS")))
    if ck.tier == "thorough":
        holders += ["J. R. \"Bob\" Dobbs", "Jane Doe <jane@example.com> and others", "The Foo Authors (see AUTHORS)", "Team #42",
                    "contributors to foo-bar", "X", "Doe, Jane", "O'Neil & Söhne", "jane@example.com", "https://example.com/people",
                    "Free Software Foundation Europe e.V.", "Acme Inc., a Delaware corporation", "foo (bar) baz", "Jane Doe, 2nd",
                    "ACME — Research", "Frédéric Müller"]
    years = [(None, ""), ("2020", "2020 "), ("2019-2020", "2019-2020 "), ("2019 - 2020", "2019 - 2020 "),
             ("2019- 2020", "2019- 2020 "), ("2019 -2020", "2019 -2020 ")]
    loc = repo.loc(repo.module_assign(CP, "_COPYRIGHT_PREFIXES"))
    for key, p in prefixes.items():
        for holder in holders:
            for year, ytext in years:
                line = f"{p} {ytext}{holder}"
                cands = [(idx, getattr(c, meth)(line)) for idx, c in enumerate(compiled)]
                cands = [(idx, m) for idx, m in cands if m is not None]
                first = None
                if cands:
                    first = cands[0] if how == "first" else min(cands, key=lambda t: t[1].start())
                case = {"prefix_key": key, "line": line}
                r.instance(f"{key}|{year}|{holder}", case if holder == "Jane Doe" and year in (None, "2019 - 2020") else None,
                           f"{CP}._COPYRIGHT_PREFIXES")
                if first is None:
                    r.violation(f"{CP}._COPYRIGHT_PREFIXES[{key}]", f"notice with prefix {key!r} is not recognised",
                                f"{line!r} matches none of the reader patterns", loc, case)
                    continue
                idx, m = first
                g = m.groupdict()
                problems = []
                if g.get("prefix") != p:
                    problems.append(f"prefix read as {g.get('prefix')!r}")
                if g.get("year") != year:
                    problems.append(f"year read as {g.get('year')!r} instead of {year!r}")
                if g.get("statement") != holder:
                    problems.append(f"holder read as {g.get('statement')!r}")
                if g.get("copyright", "").strip() != line:
                    problems.append(f"notice read as {g.get('copyright')!r}")
                if problems:
                    r.violation(f"{CP}._COPYRIGHT_PREFIXES[{key}]",
                                f"prefix {key!r} ({'with' if year else 'without'} year) is read back differently"
                                + (f" for the holder {holder!r} (it contains a copyright word)" if re.search(r"Copyright|©|\([Cc]\)", holder) else ""),
                                f"{line!r} is read by pattern {idx} with " + "; ".join(problems), loc, case)
    # language part: the year group's language
    year_ref = r"(\d{4} ?- ?\d{4}|\d{4})$"
    for idx, p in enumerate(pats):
        m = re.search(r"\(\?P<year>(.*?)\),\?\\s\+\)\?", p.pattern)
        r.instance(f"year-group:{idx}", {"pattern": idx, "year_group": m.group(1) if m else None})
        if not m:
            r.violation(f"{EX}._COPYRIGHT_PATTERNS[{idx}]", "year group not found", "expected an optional named group `year`", loc)
            continue
        alpha = Alphabet([(m.group(1), 0), (year_ref, 0)], extra="0 -a", exclude="\n")
        from ..relang import difference
        d = difference(Lang.from_regex("(" + m.group(1) + ")$", 0, alpha, "match"), Lang.from_regex(year_ref, 0, alpha, "match"))
        if d is not None:
            r.violation(f"{EX}._COPYRIGHT_PATTERNS[{idx}]", "year language",
                        f"year group accepts/rejects {d[1]!r} ({d[0]}) compared with YYYY | YYYY ?- ?YYYY", loc)
    # the option's choices are the table keys
    ann = repo.module("reuse.cli.annotate")
    src = ast.unparse(ann.tree)
    ok = "type=click.Choice(list(_COPYRIGHT_PREFIXES))" in src
    r.instance("cli-choice", {"choices_from_table": ok})
    if not ok:
        r.violation("reuse.cli.annotate.annotate", "--copyright-prefix choices", "must be list(_COPYRIGHT_PREFIXES)", ann.rel)


def rule_builder(ck: Check, repo: Repo) -> None:
    r = ck.rule("R2", "make_copyright_line table: newline/unknown prefix ⇒ error; already a notice ⇒ verbatim; else prefix [year] holder")
    q = f"{CP}.make_copyright_line"
    fn = repo.func(q)
    ck.analysed_fn(q)

    anchored: list = []

    def unblank(text: str) -> str:
        # removing the blanks around the statement first is not a different notice
        return text.replace("statement.strip()", "statement")

    class H(Hooks):
        def atom(self, text, node, it):
            text = unblank(text)
            if text == "'\\n' in statement":
                return "newline"
            if text == "_COPYRIGHT_PREFIXES.get(copyright_prefix) is None":
                return "unknown_prefix"
            m = re.fullmatch(r"any\((\w+)\.(match|fullmatch|search)\(statement\)( is not None)? for \1 in _COPYRIGHT_PATTERNS\)", text)
            if m:
                anchored.append(m.group(2))
                return "is_notice"
            if text == "year is not None":
                return "has_year"
            if text == "year is None":
                return ("not", "has_year")
            return None

    P = "_COPYRIGHT_PREFIXES.get(copyright_prefix)"

    def ref(v: Valuation):
        if v("newline"):
            return ("raise", "RuntimeError")
        if v("unknown_prefix"):
            return ("raise", "RuntimeError")
        if v("is_notice"):
            return ("return", "statement")
        if v("has_year"):
            return ("return", "f'{" + P + "} {year} {statement}'")
        return ("return", "f'{" + P + "} {statement}'")

    leaves = tabulate(fn, H(), ref)
    r.floor(5, "paths through make_copyright_line", got=len(leaves))
    # 'already a notice' means: BEGINS with a copyright tag.  search() also accepts a holder that merely contains the word
    r.instance("notice-test", {"method": sorted(set(anchored))})
    if "search" in anchored:
        r.violation(q, "a statement that merely CONTAINS a copyright tag is taken for a complete notice",
                    "`pattern.search(statement)`: the holder 'The Copyright Holders' is returned without prefix and year; the reader"
                    " then takes 'Copyright Holders' for the notice and 'The ' is lost at the next merge", repo.loc(fn))
    for d, leaf, expected in leaves:
        got = leaf.outcome[:2]
        if len(got) == 2 and isinstance(got[1], str):
            got = (got[0], unblank(got[1]))
        r.instance("path:" + show_valuation(d), {"valuation": show_valuation(d), "outcome": got})
        if got != expected:
            r.violation(q, f"[{show_valuation(d)}]", f"builds {got}, the specification says {expected}", repo.loc(fn),
                        {"valuation": d})


def rule_merge(ck: Check, repo: Repo, rid: str = "R3") -> None:
    r = ck.rule(rid, "merge_copyright_lines: every parsed statement reaches the output with min..max of all its years")
    q = f"{CP}.merge_copyright_lines"
    fn = repo.func(q)
    ck.analysed_fn(q, f"{CP}._parse_copyright_year")
    # generic lint: itertools.groupby only groups ADJACENT items - its input must be sorted by the grouping key
    n_gb = 0
    for c in ast.walk(fn):
        if isinstance(c, ast.Call) and ast.unparse(c.func).split(".")[-1] == "groupby" and c.args:
            n_gb += 1
            key = next((ast.unparse(kw.value) for kw in c.keywords if kw.arg == "key"), ast.unparse(c.args[1]) if len(c.args) > 1 else None)
            seq = c.args[0]
            sorted_same = isinstance(seq, ast.Call) and ast.unparse(seq.func) == "sorted" and \
                next((ast.unparse(kw.value) for kw in seq.keywords if kw.arg == "key"), None) == key
            if isinstance(seq, ast.Name):
                from ..rules import single_assign_value
                d = single_assign_value(fn, seq.id)
                sorted_same = isinstance(d, ast.Call) and ast.unparse(d.func) == "sorted" and \
                    next((ast.unparse(kw.value) for kw in d.keywords if kw.arg == "key"), None) == key
                sorted_same = sorted_same or any(isinstance(x, ast.Call) and ast.unparse(x.func) == f"{seq.id}.sort" and
                                                 next((ast.unparse(kw.value) for kw in x.keywords if kw.arg == "key"), None) == key
                                                 for x in ast.walk(fn))
            r.instance(f"groupby:{ast.unparse(c)[:50]}", {"key": key, "input_sorted_by_key": sorted_same})
            if not sorted_same:
                r.violation(q, "groupby over a sequence that is not sorted by the grouping key",
                            f"`{ast.unparse(c)[:90]}`: groupby only merges ADJACENT equal keys; two notices of one holder separated by"
                            f" another holder's notice form two groups and the later group overwrites the earlier one (years are lost)",
                            repo.loc(c))
    loops = [n for n in fn.body if isinstance(n, ast.For)]
    if len(loops) != 2 or n_gb:
        if r.violations:
            return
        raise AnalysisError("merge_copyright_lines: unrecognised structure (expected a parse loop and a per-line output loop)")
    parse_loop, out_loop = loops
    # the model below is written for an output loop that walks the parsed notices themselves (`for line_info in copyright_in`) and
    # re-collects the notices of the same holder; an output loop over something else (the distinct statements, a grouping
    # dictionary) is another algorithm - not decided
    out_it = ast.unparse(out_loop.iter)
    collected = [st.targets[0].id for st in parse_loop.body if False] or [
        c.func.value.id for c in ast.walk(parse_loop) if isinstance(c, ast.Call) and isinstance(c.func, ast.Attribute) and c.func.attr == "append"
        and isinstance(c.func.value, ast.Name)]
    if not collected or out_it not in (collected[0], f"sorted({collected[0]})", f"list({collected[0]})"):
        raise AnalysisError(f"merge_copyright_lines: the output loop walks `{out_it[:60]}`, not the parsed notices: another merge algorithm than the one"
                            " this rule models (shape not enumerated)")
    # parse loop: every input line is examined, first matching pattern, the three groups are kept
    it = ast.unparse(parse_loop.iter)
    r.instance("parse-loop", {"iter": it})
    if it not in ("copyright_lines", "sorted(copyright_lines)"):
        r.violation(q, "parse loop source", f"iterates {it}", repo.loc(parse_loop))
    src = ast.unparse(parse_loop)
    for key, expr in (("statement", "match.groupdict()['statement']"), ("prefix", "match.groupdict()['prefix']"),
                      ("year", "_parse_copyright_year(match.groupdict()['year'])")):
        ok = f"'{key}': {expr}" in src
        r.instance(f"parse:{key}", {"kept": ok})
        if not ok:
            r.violation(q, f"parsed field {key}", f"the {key} group is not kept as {expr}", repo.loc(parse_loop))
    # output loop: tabulated as a generic element; add() on every path, no continue/break
    class H(Hooks):
        def event(self, text, call, it):
            if isinstance(call.func, ast.Attribute) and call.func.attr == "add" and call.args and \
                    ast.unparse(call.args[0]).startswith("make_copyright_line("):
                return ("add", it.text(call.args[0]))
            if isinstance(call.func, ast.Attribute) and call.func.attr in ("add", "append", "update", "extend", "insert") and call.args:
                return ("store", call.func.attr, it.text(call.func.value), it.text(call.args[-1]))
            return None

    out_label = f"each {ast.unparse(out_loop.target)} in {ast.unparse(out_loop.iter)}"
    parse_label = f"each {ast.unparse(parse_loop.target)} in {ast.unparse(parse_loop.iter)}"
    leaves = tabulate(fn, H())
    # parse loop as a generic element: a line that matches a pattern is stored exactly once in the list the output
    # loop iterates, with its three fields; it never reaches the output (or anything else) directly - a notice that
    # by-passes the grouping is not merged with the other notices of the same holder
    parse_acc = ast.unparse(out_loop.iter)
    seen_parse = set()
    for d, leaf, _ in leaves:
        stores = [e[2] for e in leaf.events if e[0] == "each" and e[1][:1] == (parse_label,) and e[2][0] in ("store", "add")]
        matched = [v for k, v in d.items() if k.startswith(parse_label + "::") and re.search(r"\.(search|match|fullmatch)\(", k)
                   and "groupdict" not in k and ".group(" not in k]
        key = (tuple(matched), tuple(stores))
        if key in seen_parse:
            continue
        seen_parse.add(key)
        good = [st for st in stores if st[0] == "store" and st[1] == "append" and st[2] == parse_acc]
        other = [st for st in stores if st not in good]
        r.instance(f"parse-path:{matched}:{len(good)}:{len(other)}", {"pattern_matched": matched, "stored_for_merging": len(good),
                                                                    "other_stores": [repr(o)[:80] for o in other]})
        if other:
            r.violation(q, "a parsed notice by-passes the per-holder grouping",
                        f"the parse loop stores {other[0][1:3]} directly: that line is never merged with the other notices of the"
                        f" same holder (one holder, several lines)", repo.loc(parse_loop))
        elif matched and any(matched) and len(good) != 1:
            r.violation(q, "a line matching a copyright pattern is not kept for merging", f"appends to {parse_acc}: {len(good)}",
                        repo.loc(parse_loop))
        elif matched and not any(matched) and good:
            r.violation(q, "a line matching no pattern is stored", f"{good}", repo.loc(parse_loop))
    adds_seen = 0
    for d, leaf, _ in leaves:
        adds = []
        ends = []
        for e in leaf.events:
            if e[0] == "each" and len(e[1]) == 1 and e[1][-1] == out_label:
                if e[2][0] == "add":
                    adds.append(e[2][1])
                if e[2][0] == "element-end":
                    ends.append(e[2][1])
        short = {k.split("::")[-1]: v for k, v in d.items()}
        r.instance("path:" + show_valuation(short), {"adds": adds[:1]})
        if len(adds) != 1 or ends != ["next"]:
            r.violation(q, f"output loop drops a statement when [{show_valuation(short)}]",
                        f"each parsed line must add exactly one merged notice (adds={len(adds)}, exit={ends})", repo.loc(out_loop))
            continue
        adds_seen += 1
        a = adds[0]
        if not re.match(r"make_copyright_line\(str\(\w+\['statement'\]\), ", a):
            r.violation(q, "merged notice is not built from the line's own statement", a[:120], repo.loc(out_loop))
        # the year argument, cell by cell: no years -> None; all equal -> that year; otherwise min - max of ALL years
        try:
            call = ast.parse(a, mode="eval").body
            ya = ast.unparse(call.args[1]) if len(call.args) > 1 else next((ast.unparse(k.value) for k in call.keywords if k.arg == "year"), "None")
        except SyntaxError:
            ya = "?"
        ys = sorted({m for k in d for m in re.findall(r"\w+__after_loop", k)} | set(re.findall(r"\w+__after_loop", a)))
        Y = ys[0] if len(ys) == 1 else None
        if Y is None and not any(isinstance(n, ast.AugAssign) for n in ast.walk(out_loop)):
            # the years of a group are not accumulated by the `years += …` loop this table is stated for (a comprehension, a helper
            # that computes the range): another way of computing the same range - not decided
            raise AnalysisError("merge_copyright_lines: the years of a group are not gathered by the accumulating loop this rule models"
                                " (shape not enumerated): whether the merged range spans every stated year is not decided")
        hy = next((v for k, v in d.items() if Y and k.split("::")[-1] == f"?{Y}"), None)
        sm = next((v for k, v in d.items() if Y and k.split("::")[-1] in (f"?min({Y}) == max({Y})", f"?max({Y}) == min({Y})", f"?len(set({Y})) == 1")), None)
        if hy is False:
            want_y = ["None"]
        elif hy is True and sm is True:
            want_y = [f"min({Y})", f"max({Y})", f"{Y}[0]"]
        elif hy is True and sm is False:
            want_y = [f"f'{{min({Y})}} - {{max({Y})}}'"]
        else:
            want_y = []
        r.instance("year-cell:" + show_valuation(short), {"year_argument": ya, "accepted": want_y})
        if ya not in want_y:
            r.violation(q, f"merged year when [{show_valuation(short)}]",
                        f"the notice gets year {ya}; the specification says {want_y or 'a value decided by: any years? / all equal?'}"
                        f" - the merged range must span every stated year", repo.loc(out_loop), {"valuation": d})
    r.floor(1, "paths with a merged notice", got=adds_seen)
    from ..rules import has
    osrc = ast.unparse(fn)
    L = ["item", "copyright_in", "statement", "copy", "copyright_list", "years", "year", "line_info"]
    checks = {
        "same-statement group": has(osrc, "copyright_list = [item for item in copyright_in if item['statement'] == statement]", L)
        and has(osrc, "for line_info in copyright_in: statement = str(line_info['statement'])", L),
        "years of the whole group": has(osrc, "for copy in copyright_list: years += copy['year']", L),
    }
    for name, ok in checks.items():
        r.instance(name, {"ok": ok})
        if not ok:
            r.violation(q, name, f"the {name} computation changed; the merged range must span every stated year",
                        repo.loc(out_loop))
    # reader/parser agreement: every year string the reader can capture is understood by _parse_copyright_year
    py = repo.func(f"{CP}._parse_copyright_year")
    folder = Folder(repo)
    pats = reader_patterns(folder)
    year_groups = set()
    for p in pats:
        m = re.search(r"\(\?P<year>(.*?)\),\?\\s\+\)\?", p.pattern)
        if m:
            year_groups.add(m.group(1))
    branches = []  # (regex, result expression)
    for node in ast.walk(py):
        if isinstance(node, ast.If) and isinstance(node.test, ast.Call) and ast.unparse(node.test.func) in ("re.match", "re.fullmatch") \
                and len(node.test.args) == 2 and isinstance(node.test.args[0], ast.Constant) and ast.unparse(node.test.args[1]) == "year":
            res = [ast.unparse(st.value) for st in node.body if isinstance(st, (ast.Assign, ast.Return)) and st.value is not None]
            rx = node.test.args[0].value
            if ast.unparse(node.test.func) == "re.fullmatch" and not rx.endswith("$"):
                rx += "$"
            branches.append((rx, res[0] if res else None))
    r.instance("_parse_copyright_year", {"branches": branches, "reader_year_groups": sorted(year_groups)})
    if not branches or not year_groups:
        raise AnalysisError("_parse_copyright_year / reader year group: cannot extract the regular expressions")
    allp = [(b[0], 0) for b in branches] + [("(" + g + ")$", 0) for g in year_groups]
    alpha = Alphabet(allp, extra="0 -a", exclude="\n")
    from ..relang import in_a_not_b, union
    parsed = union(alpha, [Lang.from_regex(b[0], 0, alpha, "match") for b in branches])
    for g in sorted(year_groups):
        w = in_a_not_b(Lang.from_regex("(" + g + ")$", 0, alpha, "match"), parsed)
        if w is not None:
            r.violation(f"{CP}._parse_copyright_year", f"a year the reader captures is not understood by the merger: {w!r}",
                        f"the reader's year group /{g}/ accepts {w!r} but none of {[b[0] for b in branches]} matches it: the notice"
                        f" is merged as if it had no year and the stated years are lost", repo.loc(py), {"witness_year": w})
    dg = next(c for c in alpha.chars if c.isdigit()) * 4
    single = [b for b in branches if Lang.from_regex(b[0], 0, alpha, "match").accepts(dg)]
    rng = [b for b in branches if Lang.from_regex(b[0], 0, alpha, "match").accepts(f"{dg}-{dg}") or
           Lang.from_regex(b[0], 0, alpha, "match").accepts(f"{dg} - {dg}")]
    if not single or not (single[0][1] == "[year]" or re.fullmatch(r"year\.split\('[^']*\D[^']*'\)", single[0][1] or "")):
        r.violation(f"{CP}._parse_copyright_year", "single year", f"{single}", repo.loc(py))
    for rx, res in rng:
        ok = res in ("[year[:4], year[-4:]]",) or (res is not None and re.fullmatch(r"re\.split\('.*', year\)", res or "") is not None)
        if res == "year.split(' - ')" and in_a_not_b(Lang.from_regex(rx, 0, alpha, "match"),
                                                      Lang.from_regex(r"\d{4} - \d{4}$", 0, alpha, "match")) is None:
            ok = True
        if not ok:
            r.violation(f"{CP}._parse_copyright_year", "range endpoints", f"branch /{rx}/ yields {res}; expected the first and last four digits",
                        repo.loc(py))


def rule_get_year(ck: Check, repo: Repo, rid: str = "R4") -> None:
    r = ck.rule(rid, "get_year table and get_reuse_info plumbing")
    q = "reuse.cli.annotate.get_year"
    fn = repo.func(q)
    ck.analysed_fn(q, "reuse.cli.annotate.get_reuse_info")

    class H(Hooks):
        def atom(self, text, node, it):
            return {"exclude_year": "exclude", "years": "given", "len(years) > 1": "several"}.get(text)

    def ref(v: Valuation):
        if v("exclude"):
            return ("return", "None")
        if not v("given"):
            return ("return", "str(datetime.date.today().year)")
        if v("several"):
            return ("return", "f'{min(years)} - {max(years)}'")
        return ("return", "years[0]")

    for d, leaf, expected in tabulate(fn, H(), ref):
        r.instance("path:" + show_valuation(d), {"valuation": show_valuation(d), "year": leaf.outcome[1]})
        if leaf.outcome[:2] != expected:
            r.violation(q, f"[{show_valuation(d)}]", f"year is {leaf.outcome[1]}, expected {expected[1]}", repo.loc(fn))
    gq = "reuse.cli.annotate.get_reuse_info"
    g = repo.func(gq)
    gs = ast.unparse(g)
    from ..model import kwarg as _kw
    from ..rules import deep_text
    ctor = [c for n in ast.walk(g) if isinstance(n, ast.Return) and isinstance(n.value, ast.Call) for c in [n.value]]
    ok = False
    if len(ctor) == 1 and ast.unparse(ctor[0].func) == "ReuseInfo":
        def plain(node):
            """Blank-stripping of an element does not change which option feeds which field."""
            from ..rules import unstrip
            return ast.unparse(unstrip(node, fold_to_iterable=False))

        from ..rules import resolve_deep as _rd
        got = {k: (plain(_rd(g, _kw(ctor[0], k))) if _kw(ctor[0], k) is not None else None)
               for k in ("spdx_expressions", "copyright_lines", "contributor_lines")}
        cl = got["copyright_lines"] or ""
        m = re.fullmatch(r"\{(make_copyright_line\(.*\)) for (\w+) in copyrights\}", cl)
        mk_ok = False
        if m:
            mc = ast.parse(m.group(1), mode="eval").body
            a = {k: ast.unparse(v) for k, v in __import__("sa.model", fromlist=["named_args"]).named_args(mc).items()}
            mk_ok = a == {"statement": m.group(2), "year": "year", "copyright_prefix": "copyright_prefix"}
        ok = got["spdx_expressions"] == "set(licenses)" and got["contributor_lines"] == "set(contributors)" and mk_ok
    r.instance(gq, {"ok": ok})
    if not ok:
        r.violation(gq, "request construction", "the three sets must be built from the three options, copyright through"
                    " make_copyright_line(item, year=year, copyright_prefix=copyright_prefix)", repo.loc(g))
    # merge branch of create_header
    ch = repo.func("reuse.header.create_header")
    cs = ast.unparse(ch)
    # structural: some merge call of create_header receives (through whatever locals) the union of the requested and the
    # existing notices, in either operand order, spelled `.union()` or `|`
    from ..rules import reaching_value as _reach
    A, B = "reuse_info.copyright_lines", "extract_reuse_info(header).copyright_lines"
    accepted = {f"{A}.union({B})", f"{B}.union({A})", f"{A} | {B}", f"{B} | {A}"}
    seen_inputs = []
    for c in ast.walk(ch):
        if isinstance(c, ast.Call) and ast.unparse(c.func) == "merge_copyright_lines" and c.args:
            a = c.args[0]
            if isinstance(a, ast.Name):
                a = _reach(ch, a) or a
            seen_inputs.append(deep_text(ch, a))
    ok = any(t in accepted for t in seen_inputs)
    # ... on EVERY --merge-copyrights path with an existing header: the tests that guard that merge call speak about
    # `merge_copyrights` and `header` only (a merge that also waits for "something new was added" leaves old notices unmerged)
    from ..rules import resolve_deep as _rd20
    for c in ast.walk(ch):
        if isinstance(c, ast.Call) and ast.unparse(c.func) == "merge_copyright_lines" and c.args:
            a = c.args[0]
            if isinstance(a, ast.Name):
                a = _reach(ch, a) or a
            if deep_text(ch, a) not in accepted:
                continue
            for g in ast.walk(ch):
                tests = []
                if isinstance(g, ast.If) and any(x is c for st in g.body + g.orelse for x in ast.walk(st)):
                    tests.append(g.test)
                elif isinstance(g, ast.IfExp) and any(x is c for x in ast.walk(g.body)) or (isinstance(g, ast.IfExp) and any(x is c for x in ast.walk(g.orelse))):
                    tests.append(g.test)
                for t in tests:
                    extra = sorted({n.id for n in ast.walk(_rd20(ch, t)) if isinstance(n, ast.Name)} - {"merge_copyrights", "header"})
                    r.instance(f"merge-guard:{ast.unparse(t)[:40]}", {"names": extra})
                    if extra:
                        ok = False
    r.instance("create_header.merge", {"ok": ok})
    if not ok:
        r.violation("reuse.header.create_header", "merge input", "merge must receive the union of requested and existing notices",
                    repo.loc(ch))


def run(ck: Check, repo: Repo) -> None:
    ck.explanation = (
        "R1 writer table against reader tables: for each of the 10 folded prefixes x 6 year spellings x 4 holder"
        " shapes the first matching folded reader pattern (list order) must report that prefix, year and holder"
        " (constants evaluated against constants with the standard library's re; no repository code runs), plus the"
        " year group's language by DFA equivalence. R2 decision table of make_copyright_line. R3 structure of the"
        " merge (every parsed statement produces one notice; years min..max over the whole group). R4 get_year table"
        " and option plumbing. Not decided: arbitrary holder strings beyond the schematic ones; year arithmetic on"
        " arbitrary sets."
    )
    ck.not_decided = ["holder strings beyond the schematic shapes (holders that themselves look like years/prefixes)",
                      "year arithmetic over arbitrary sets of notices"]
    ck.trust("CPython ast", "sa/fold.py", "sa/tab.py", "sa/relang.py")
    folder = Folder(repo)
    rule_tables(ck, repo, folder)
    rule_builder(ck, repo)
    rule_merge(ck, repo)
    rule_get_year(ck, repo)
    # merging happens only with the notices of the header that was FOUND: the finder's predicate must cover every
    # notice style the builder can write (shared with C10-R6)
    from . import c10
    c10.rule_finder_predicate(ck, repo, "R5")
    # what building and merging produced must reach the header as it is: one template line per notice, unfiltered (a
    # `| unique` - case-insensitive in Jinja2 - or a condition in the template loses a holder after the merge) (shared with C07-R2)
    from . import c07
    c07.rule_pipeline(ck, repo, folder, "R6")
