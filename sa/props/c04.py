"""C04 - per-file sources and precedence: decision/effect tables."""
from __future__ import annotations

import ast
import re

from ..model import AnalysisError, Repo
from ..report import Check
from ..rules import find_calls
from ..tab import Const, Hooks, NeedAtom, Sym, Valuation, explore, run_block, show_valuation, tabulate, vtext

P = "reuse.project.Project"
GL = "reuse.global_licensing"
CLOSEST = "global_results[PrecedenceType.CLOSEST]"
GR_FULL = "defaultdict(list, self.global_licensing.reuse_info_of(self.relative_from_root(path)))"
READ = "reuse_info_of_file(_determine_license_path(path), path, self.root)"


def squash(text: str) -> str:
    return re.sub(r"\s+", " ", text)


class RIHooks(Hooks):
    def atom(self, text, node, it):
        t = text
        if t == "self.global_licensing":
            return "G"
        if t == f"PrecedenceType.OVERRIDE in {GR_FULL}":
            return "OV"
        if t == "PrecedenceType.OVERRIDE in defaultdict(list)":
            return False
        if t == "is_binary(str(_determine_license_path(path)))":
            return "BIN"
        for base, known in ((READ, True), ("ReuseInfo()", False)):
            if t == f"{base}.contains_info()":
                return "FI" if known else False
            if t == f"{base}.contains_copyright_or_licensing()":
                return ("or", "FC", "FL") if known else False
            if t == f"{base}.contains_copyright_xor_licensing()":
                return ("xor", "FC", "FL") if known else False
            if t == f"{base}.copyright_lines":
                return "FC" if known else False
            if t == f"{base}.spdx_expressions":
                return "FL" if known else False
        if t in (f"{GR_FULL}[PrecedenceType.CLOSEST]",):
            return "CL"
        if t == "defaultdict(list)[PrecedenceType.CLOSEST]":
            return False
        return None

    def loop_policy(self, node, it):
        if "global_results.values()" in ast.unparse(node.iter):
            return "skip"  # pure logging
        return None

    def loop_label(self, node, it_text, it):
        return f"each {ast.unparse(node.target)} in {ast.unparse(node.iter)}"

    aug_inplace = True  # the accumulator keeps its name after a recognised `+=`

    def augassign(self, ttext, op, vt, st, it):
        # `result += X` is `result.extend(X)`
        if op == "Add":
            m = re.fullmatch(r"global_results\[PrecedenceType\.(\w+)\]", ast.unparse(st.value))
            return ("extend", m.group(1) if m else vt)
        return None

    def event(self, text, call, it):
        f = ast.unparse(call.func)
        if f == "reuse_info_of_file":
            return ("read", [it.text(a) for a in call.args])
        if f == "result.extend" and len(call.args) == 1:
            m = re.fullmatch(r"global_results\[PrecedenceType\.(\w+)\]", ast.unparse(call.args[0]))
            return ("extend", m.group(1) if m else it.text(call.args[0]))
        if f == "result.append" and len(call.args) == 1:
            arg = it.text(call.args[0])
            if arg in (READ, "ReuseInfo()"):
                return ("append-file", arg)
            m = re.fullmatch(r"(.+)\.copy\((copyright_lines|spdx_expressions)=set\(\)\)", arg)
            if m:
                return ("append-closest-minus", m.group(2), m.group(1))
            return ("append", arg)
        if f == "result.insert":
            return ("insert", text)
        return None


def feasible(v: Valuation) -> bool:
    g = v.get
    if g("G") is False and (g("OV") or g("CL")):
        return False
    if g("FI") is False and (g("FC") or g("FL")):
        return False
    return True


def rule_table(ck: Check, repo: Repo, rid: str = "R1") -> None:
    r = ck.rule(rid, "decision/effect table of Project.reuse_info_of equals the specified precedence table")
    q = f"{P}.reuse_info_of"
    fn = repo.func(q)
    ck.analysed_fn(q)
    def ref(v: Valuation):
        """Specified table (B3); queries exactly the atoms the specification depends on."""
        g = v("G")
        ov = v("OV") if g else False
        binary = False if ov else v("BIN")
        read = not ov and not binary
        fi = v("FI") if read else False
        fc = v("FC") if read else False
        fl = v("FL") if read else False
        return {"ov": ov, "bin": binary, "read": read, "fi": fi, "fc": fc, "fl": fl}

    leaves = tabulate(fn, RIHooks(), ref, feasible=feasible)
    r.floor(12, "leaves of the reuse_info_of table", got=len(leaves))
    reported = set()

    def viol(key, msg, d, leaf):
        if key in reported:
            return
        reported.add(key)
        r.violation(q, key, msg, f"{repo.module('reuse.project').rel}:{leaf.trace[-1] if leaf.trace else fn.lineno}",
                    {"valuation": d, "events": [repr(e) for e in leaf.events]})

    # the table is stated over ONE accumulator list that is extended / appended to and returned at the end; early returns of
    # other expressions, or an accumulator that starts as a copy of one of the lists, are another layout - not decided
    rets_ = [n for n in ast.walk(fn) if isinstance(n, ast.Return) and n.value is not None]
    acc_inits = [st.value for st in ast.walk(fn) if isinstance(st, (ast.Assign, ast.AnnAssign)) and st.value is not None
                 and any(isinstance(t, ast.Name) and t.id == "result" for t in (st.targets if isinstance(st, ast.Assign) else [st.target]))]
    if len(rets_) != 1 or ast.unparse(rets_[0].value) != "result" or any(ast.unparse(v) not in ("[]", "list()") for v in acc_inits):
        raise AnalysisError("Project.reuse_info_of: the result is not one list built by extend / append and returned at the end (shape not enumerated)")
    for d, leaf, spec in leaves:
        top = {k: v for k, v in d.items() if "::" not in k}
        name = show_valuation(top)
        evs = leaf.events
        r.instance("leaf:" + show_valuation(d), {"valuation": name, "events": [repr(e)[:90] for e in evs]})
        free = [a for a in top if a.startswith("?")]
        if free:
            viol(f"outcome depends on unrecognised condition {free[0]}", f"valuation [{name}]", d, leaf)
            continue
        ov, binary = spec["ov"], spec["bin"]
        reads = [e for e in evs if e[0] == "read"]
        should_read = spec["read"]
        if bool(reads) != should_read:
            viol(f"file {'not ' if should_read else ''}read when override={ov} binary={binary}",
                 "the file's own content is read iff there is no override and the file is not binary", d, leaf)
            continue
        if reads and reads[0][1][:2] != ["_determine_license_path(path)", "path"]:
            viol("read operands", f"reads {reads[0][1]}; expected (.license-resolved path, original path)", d, leaf)
        fc, fl, fi = spec["fc"], spec["fl"], spec["fi"]
        seq = [e for e in evs if e[0] in ("extend", "append-file", "append", "insert", "append-closest-minus")
               or (e[0] == "each")]
        head = [("extend", "OVERRIDE"), ("extend", "AGGREGATE")]
        if fi:
            head.append(("append-file", READ))
        got_head = [tuple(e) for e in seq[: len(head)]]
        if got_head != head:
            viol(f"result order/contents when [{name}]",
                 f"expected {head} first, got {got_head}", d, leaf)
            continue
        tail = seq[len(head):]
        if not fc and not fl:
            if [tuple(e) for e in tail] != [("extend", "CLOSEST")]:
                viol(f"closest information not used when the file has none [{name}]",
                     f"expected extend(CLOSEST), got {tail}", d, leaf)
        elif fc and fl:
            if tail:
                viol(f"REUSE.toml 'closest' information added although the file has both [{name}]", f"{tail}", d, leaf)
        else:
            lacks = "copyright_lines" if fc else "spdx_expressions"  # attribute to blank in the closest copy
            direct = [e for e in tail if e[0] == "append-closest-minus"]
            each = [e for e in tail if e[0] == "each"]
            if direct:
                src = direct[0][2]
                if re.search(r"\[\s*0\s*\]$|\[-1\]$", src):
                    viol("only one closest entry is consulted when the file lacks one attribute",
                         f"`{src}` picks a single element; when copyright and licence come from different REUSE.toml"
                         f" files the other file's contribution is lost (the specification supplies whichever the"
                         f" file lacks from the nearest REUSE.toml that provides it)", d, leaf)
                else:
                    viol("closest special case", f"unexpected source {src}", d, leaf)
                continue
            # loop form: every closest entry, minus what the file already has (empty leftovers may be skipped)
            labels = {e[1][-1] for e in each}
            if not each and not top.get("CL"):
                continue
            if not labels or not all(re.fullmatch(r"each \w+ in global_results\[PrecedenceType\.CLOSEST\]", l) for l in labels):
                viol(f"closest entries not consulted when the file lacks one attribute [{name}]", f"{tail}", d, leaf)
                continue
            apps = [e[2] for e in each if e[2][0] in ("append-closest-minus", "append")]
            guard = [k for k, v in d.items() if "::" in k]
            ok_guard = all(re.search(r"contains_copyright_or_licensing\(\)$|\.(spdx_expressions|copyright_lines)$", g) for g in guard)
            skipped = any(not d[g] for g in guard)
            if apps:
                a = apps[0]
                blank = a[1] if a[0] == "append-closest-minus" else None
                if blank is None:
                    m = re.search(r"\.copy\((copyright_lines|spdx_expressions)=set\(\)\)", a[1])
                    blank = m.group(1) if m else None
                if blank != lacks:
                    viol(f"wrong attribute blanked in the closest entry [{name}]",
                         f"file has {'copyright' if fc else 'licence'}; the closest copy must blank {lacks}, got {a}", d, leaf)
            elif not (skipped and ok_guard):
                viol(f"closest entry dropped [{name}]", f"no append for a closest entry; guards {guard}", d, leaf)
        if leaf.outcome[:2] != ("return", "[]") and leaf.outcome[:2] != ("return", "result"):
            viol("return value", f"{leaf.outcome}", d, leaf)


def rule_license_path(ck: Check, repo: Repo) -> None:
    r = ck.rule("R2", "FILE.license shadows FILE; information is reported for the original path")
    q = "reuse._util._determine_license_path"
    fn = repo.func(q)
    ck.analysed_fn(q)

    class H(Hooks):
        def atom(self, text, node, it):
            if text == "Path(f'{path}.license').exists()":
                return "sibling"
            return None

    def ref(v):
        return ("return", "Path(f'{path}.license')") if v("sibling") else ("return", "Path(path)")

    for d, leaf, exp in tabulate(fn, H(), ref):
        r.instance("path:" + show_valuation(d), {"valuation": show_valuation(d), "returns": leaf.outcome[1]})
        if leaf.outcome[:2] != exp:
            r.violation(q, f"[{show_valuation(d)}]", f"returns {leaf.outcome[1]}, expected {exp[1]}", repo.loc(fn))


def selection_table(r, repo: Repo) -> None:
    """find_annotations_item as a decision table: the outcome depends on nothing but whether some table matches the
    POSIX path (a path-shape shortcut in front of the loop silently un-covers files)."""
    q = f"{GL}.ReuseTOML.find_annotations_item"
    fn = repo.func(q)

    class HS(Hooks):
        def atom(self, text, node, it):
            m = re.fullmatch(r"any\((\w+)\.matches\(PurePath\(path\)\.as_posix\(\)\) for (\w+) in (.+)\)", text)
            if m and m.group(1) == m.group(2):
                return "some_table_matches"
            return None

    def ref(v):
        return ("return", "<the matching table>") if v("some_table_matches") else ("return", "None")

    leaves = tabulate(fn, HS(), ref, params=["self", "path"])
    r.floor(2, "paths through find_annotations_item", got=len(leaves))
    for d, leaf, exp in leaves:
        got = leaf.outcome[:2]
        if got[0] == "return" and got[1] not in ("None",) and re.fullmatch(r"\w+", got[1]):
            got = ("return", "<the matching table>")
        r.instance("selection:" + show_valuation(d), {"valuation": show_valuation(d), "returns": leaf.outcome[1]})
        if got != exp:
            free = [a[1:] for a in d if a.startswith("?")]
            r.violation(q, f"[{show_valuation(d)}] selection outcome",
                        f"returns {leaf.outcome[1]}, the specification says {exp[1]}"
                        + (f": the result depends on {free[0]!r}, but only the globs decide which table covers a path" if free else ""),
                        f"{repo.module(GL).rel}:{leaf.trace[-1] if leaf.trace else fn.lineno}", {"valuation": d})


def rule_single_toml(ck: Check, repo: Repo) -> None:
    r = ck.rule("R3", "within one REUSE.toml the last matching [[annotations]] table applies; provenance is named")
    q = f"{GL}.ReuseTOML.find_annotations_item"
    fn = repo.func(q)
    ck.analysed_fn(q, f"{GL}.ReuseTOML.reuse_info_of")
    loops = [n for n in fn.body if isinstance(n, ast.For)]
    if len(loops) != 1:
        raise AnalysisError("find_annotations_item: expected one selection loop")
    lp = loops[0]
    it = ast.unparse(lp.iter)
    first_match = (len(lp.body) == 1 and isinstance(lp.body[0], ast.If) and isinstance(lp.body[0].body[-1], ast.Return)
                   and ast.unparse(lp.body[0].body[-1].value) == ast.unparse(lp.target)
                   and re.fullmatch(rf"{re.escape(ast.unparse(lp.target))}\.matches\(\w+\)", ast.unparse(lp.body[0].test)) is not None)
    r.instance("selection", {"iter": it, "returns_first_match": first_match})
    if not first_match:
        r.violation(q, "selection loop shape", "must return the first element of the iteration that matches", repo.loc(lp))
    if it not in ("reversed(self.annotations)", "self.annotations[::-1]"):
        r.violation(q, f"selection iterates {it}", "the LAST matching table must win: iterate reversed(self.annotations)"
                    " and return the first match", repo.loc(lp))
    selection_table(r, repo)
    q2 = f"{GL}.ReuseTOML.reuse_info_of"
    fn2 = repo.func(q2)

    class H(Hooks):
        def atom(self, text, node, it):
            if text == "self.find_annotations_item(PurePath(path).as_posix())":
                return "item"
            return None

    for d, leaf, _ in tabulate(fn2, H()):
        out = leaf.outcome[1]
        r.instance("path:" + show_valuation(d), {"valuation": show_valuation(d), "returns": out[:100]})
        if d.get("item") is False:
            if out != "{}":
                r.violation(q2, "no match", f"returns {out}", repo.loc(fn2))
        elif d.get("item"):
            it_ = "self.find_annotations_item(PurePath(path).as_posix())"
            need = [f"{{{it_}.precedence: [ReuseInfo(", f"spdx_expressions={it_}.spdx_expressions",
                    f"copyright_lines={it_}.copyright_lines", "source_path='REUSE.toml'", "source_type=SourceType.REUSE_TOML",
                    "path=PurePath(path).as_posix()"]
            for n in need:
                if n not in out:
                    r.violation(q2, f"result lacks {n.split('=')[0][:30]}", f"returns {out[:200]}", repo.loc(fn2))
        else:
            r.violation(q2, "unrecognised condition", show_valuation(d), repo.loc(fn2))


def check_depth_sort(ck: Check, repo: Repo, r) -> None:
    q = f"{GL}.NestedReuseTOML._find_relevant_tomls"
    fn = repo.func(q)
    ck.analysed_fn(q, f"{GL}.NestedReuseTOML.reuse_info_of", f"{GL}.NestedReuseTOML._find_relevant_tomls_and_items")
    from ..rules import frag
    src = squash(ast.unparse(fn))
    bind = frag(src, "for toml in self.reuse_tomls: if PurePath(path).is_relative_to(toml.directory): found.append(toml)",
                ["toml", "path", "found"])
    filt = bind is not None
    filt_loop = filt
    comp_node = None
    acc = bind["found"] if bind else "found"
    if not filt:
        # the same filter written as a comprehension: acc = [t for t in self.reuse_tomls if P.is_relative_to(t.directory)]
        from ..rules import single_assign_value
        p0 = fn.args.args[1].arg if len(fn.args.args) > 1 else "path"
        comp_node = None
        holders = [(st.value, st.targets[0] if isinstance(st, ast.Assign) else st.target) for st in fn.body
                   if isinstance(st, (ast.Assign, ast.AnnAssign)) and isinstance(st.value, ast.ListComp)]
        # ... or handed to sorted() directly (a list comprehension or a generator)
        holders += [(c.args[0], None) for c in ast.walk(fn) if isinstance(c, ast.Call) and ast.unparse(c.func) == "sorted" and c.args
                    and isinstance(c.args[0], (ast.ListComp, ast.GeneratorExp))]
        # ... or returned as it is
        holders += [(st.value, None) for st in ast.walk(fn) if isinstance(st, ast.Return) and isinstance(st.value, (ast.ListComp, ast.GeneratorExp))]
        for comp, tgt in holders:
            if len(comp.generators) == 1:
                g = comp.generators[0]
                if not (isinstance(g.target, ast.Name) and (tgt is None or isinstance(tgt, ast.Name)) and ast.unparse(g.iter) == "self.reuse_tomls"
                        and ast.unparse(comp.elt) == g.target.id and len(g.ifs) == 1):
                    continue
                c = g.ifs[0]
                if isinstance(c, ast.Call) and isinstance(c.func, ast.Attribute) and c.func.attr == "is_relative_to" and len(c.args) == 1 \
                        and ast.unparse(c.args[0]) == f"{g.target.id}.directory":
                    recv = c.func.value
                    if isinstance(recv, ast.Name) and recv.id != p0:
                        recv = single_assign_value(fn, recv.id) or recv
                    if ast.unparse(recv) in (p0, f"PurePath({p0})", f"Path({p0})"):
                        filt = True
                        if tgt is not None:
                            acc = tgt.id
                        else:
                            comp_node = comp
    def depth_key(call: ast.Call) -> bool:
        """key=lambda t: t.directory.parts (or its length): orders by depth of the REUSE.toml's directory."""
        key = next((kw.value for kw in call.keywords if kw.arg == "key"), None)
        if not isinstance(key, ast.Lambda) or len(key.args.args) != 1:
            return False
        x = key.args.args[0].arg
        return ast.unparse(key.body) in (f"{x}.directory.parts", f"len({x}.directory.parts)")

    # statements at any nesting depth (a memo wrapper `if cached is None: ...` around the body is still the same function),
    # ordered by execution position
    from ..model import order_index as _oi
    _pos = _oi(fn)
    _stmts = sorted((n for n in ast.walk(fn) if isinstance(n, ast.stmt) and n is not fn), key=lambda n: _pos[id(n)])
    sorts = [(_pos[id(s)], s.value) for s in _stmts if isinstance(s, ast.Expr) and isinstance(s.value, ast.Call)
             and ast.unparse(s.value.func) == f"{acc}.sort"]
    ret = [_pos[id(s)] for s in _stmts if isinstance(s, ast.Return)][-1:]
    _ret_nodes = [s for s in _stmts if isinstance(s, ast.Return)]
    _rv = _ret_nodes[-1].value if _ret_nodes else None
    ret_sorted = isinstance(_rv, ast.Call) and ast.unparse(_rv.func) == "sorted" and bool(_rv.args) \
        and (ast.unparse(_rv.args[0]) == acc or (not filt_loop and _rv.args[0] is comp_node)) and depth_key(_rv) \
        and not any(kw.arg == "reverse" for kw in _rv.keywords)
    stmt_sorted = any(depth_key(c) and not any(kw.arg == "reverse" for kw in c.keywords) and ret and i < ret[0] for i, c in sorts)
    keys = [ast.unparse(kw.value) for _, c in sorts for kw in c.keywords if kw.arg == "key"]
    r.instance("relevant-tomls", {"filter": filt, "sort_keys": keys, "sorted_by_depth": stmt_sorted or ret_sorted})
    all_sorts = [c for c in ast.walk(fn) if isinstance(c, ast.Call) and (ast.unparse(c.func) == "sorted" or (
        isinstance(c.func, ast.Attribute) and c.func.attr == "sort"))]
    if not filt and "is_relative_to" in src:
        raise AnalysisError("_find_relevant_tomls: the ancestor filter is there but written in a shape this rule does not enumerate")
    if filt and not (stmt_sorted or ret_sorted) and all_sorts and all(depth_key(c) and not any(kw.arg == "reverse" for kw in c.keywords)
                                                                      for c in all_sorts):
        raise AnalysisError("_find_relevant_tomls: a depth-ordered sort is there but what it sorts could not be tied to the filtered list"
                            " (shape not enumerated)")
    if not filt:
        r.violation(q, "ancestor filter", "only REUSE.toml files in ancestor directories of the path are relevant", repo.loc(fn))
    if not (stmt_sorted or ret_sorted):
        r.violation(q, "not sorted from topmost to deepest",
                    f"sort keys {keys or 'none'}: the relevant REUSE.toml files must be ordered by the depth of their"
                    " directory (key = directory.parts); otherwise override/closest follow enumeration or name order",
                    repo.loc(fn))


def rule_nesting_sort_only(ck: Check, repo: Repo, rid: str) -> None:
    r = ck.rule(rid, "relevant REUSE.toml files are ordered by directory depth, not by enumeration order")
    check_depth_sort(ck, repo, r)


def check_relevant_items(ck: Check, repo: Repo, r) -> None:
    # items: every relevant toml, matched against the path relative to its directory, in that order
    q1 = f"{GL}.NestedReuseTOML._find_relevant_tomls_and_items"
    f1 = repo.func(q1)
    s1 = squash(ast.unparse(f1))
    from ..rules import deep_text
    ok = False
    detail = {}
    loops1 = [n for n in f1.body if isinstance(n, ast.For) and isinstance(n.target, ast.Name)]
    if len(loops1) == 1:
        lp = loops1[0]
        lv = lp.target.id
        adj = "PurePath(self.source) / path"
        detail["iterates"] = deep_text(f1, lp.iter)
        apps = [c for c in ast.walk(lp) if isinstance(c, ast.Call) and isinstance(c.func, ast.Attribute) and c.func.attr == "append"
                and len(c.args) == 1 and isinstance(c.args[0], ast.Tuple) and len(c.args[0].elts) == 2]
        want_item = f"{lv}.find_annotations_item(({adj}).relative_to({lv}.directory))"
        if len(apps) == 1:
            first, second = (deep_text(f1, e) for e in apps[0].args[0].elts)
            detail["appends"] = [first, second]
            guards = [n for n in ast.walk(lp) if isinstance(n, ast.If) and apps[0] in list(ast.walk(n))]
            gtxt = [deep_text(f1, g.test) for g in guards]
            detail["guards"] = gtxt
            rets = [deep_text(f1, n.value) for n in ast.walk(f1) if isinstance(n, ast.Return) and n.value is not None]
            acc = ast.unparse(apps[0].func.value)
            ok = detail["iterates"] == f"self._find_relevant_tomls({adj})" and first == lv and second == want_item \
                and gtxt == [f"{want_item} is not None"] and rets == [acc] \
                and not any(isinstance(n, (ast.Break, ast.Continue)) for n in ast.walk(lp))
    cut = []
    for lp2 in [n for n in ast.walk(f1) if isinstance(n, ast.For)]:
        itn = ast.unparse(lp2.iter)
        if isinstance(lp2.iter, ast.Call) and ast.unparse(lp2.iter.func) == "enumerate" and lp2.iter.args:
            itn = ast.unparse(lp2.iter.args[0])
        for x in ast.walk(lp2):
            if isinstance(x, ast.Delete) and any(isinstance(t, ast.Subscript) and ast.unparse(t.value) == itn for t in x.targets):
                cut.append(x)
            elif isinstance(x, ast.Call) and isinstance(x.func, ast.Attribute) and ast.unparse(x.func.value) == itn \
                    and x.func.attr in ("pop", "remove", "clear", "insert", "append", "extend", "sort", "reverse"):
                cut.append(x)
    if cut:
        r.violation(q1, f"the list of relevant REUSE.toml files is changed while it is walked: `{ast.unparse(cut[0])[:60]}`",
                    "the list comes from _find_relevant_tomls; when that result is shared (returned from a cache, or the attribute"
                    " itself) cutting it here removes REUSE.toml files for every later file of the directory: their annotations no"
                    " longer apply although their globs match", repo.loc(cut[0]))
    r.instance("relevant-items", {"ok": ok, **detail})
    if not ok and not cut and len(loops1) != 1 and "find_annotations_item(" in s1 and "_find_relevant_tomls(" in s1:
        raise AnalysisError("_find_relevant_tomls_and_items: the items are collected in a shape other than the one loop over the relevant"
                            " REUSE.toml files that this rule enumerates (a comprehension / generator pipeline): not decided")
    if not ok and not cut:
        r.violation(q1, "item collection", "every relevant REUSE.toml contributes its matching item, in depth order", repo.loc(f1))


def rule_relevant_items(ck: Check, repo: Repo, rid: str) -> None:
    """'An annotation applies to a file exactly when one of its globs matches': every REUSE.toml at or above the file is
    asked for its matching item - none is skipped, cached away or cut off (shared with C04-R4)."""
    r = ck.rule(rid, "every REUSE.toml at or above a file is asked for its matching annotation, in depth order")
    check_depth_sort(ck, repo, r)
    check_relevant_items(ck, repo, r)


def rule_nesting(ck: Check, repo: Repo) -> None:
    r = ck.rule("R4", "nested REUSE.toml: top-down, stop at the first override, closest per attribute")
    check_depth_sort(ck, repo, r)
    check_relevant_items(ck, repo, r)
    # walk + override stop
    q2 = f"{GL}.NestedReuseTOML.reuse_info_of"
    f2 = repo.func(q2)

    class H(Hooks):
        def atom(self, text, node, it):
            if re.fullmatch(r"\w+(\[1\])?\.precedence == PrecedenceType\.OVERRIDE", text):
                return "is_override"
            if text == "result[PrecedenceType.CLOSEST]":
                return "closest_nonempty"
            return None

        def event(self, text, call, it):
            f = ast.unparse(call.func)
            if re.fullmatch(r"result\[.*\]\.append", f):
                return ("collect", it.text(call.func.value.slice), text)     # the key through a local that names it
            return None

        def store(self, ttext, vt, target, it):
            return ("store", ttext, vt)

        def loop_policy(self, node, it):
            if "reversed(result[PrecedenceType.CLOSEST])" in ast.unparse(node.iter):
                return "skip"  # analysed separately as a flag machine
            return None

    walk_ok = 0

    walk_loops = [n for n in f2.body if isinstance(n, ast.For)]
    WL = f"each {ast.unparse(walk_loops[0].target)} in {ast.unparse(walk_loops[0].iter)}::" if walk_loops else "?"

    def wref(v: Valuation):
        return v(WL + "is_override")

    for d, leaf, _ in tabulate(f2, H(), wref):
        ends = [e[2][1] for e in leaf.events if e[0] == "each" and e[2][0] == "element-end" and "toml_items" in e[1][-1] or
                (e[0] == "each" and e[2][0] == "element-end" and "_find_relevant_tomls_and_items" in e[1][-1])]
        ends = [e[2][1] for e in leaf.events if e[0] == "each" and e[2][0] == "element-end"]
        coll = [e[2] for e in leaf.events if e[0] == "each" and e[2][0] == "collect"]
        short = {k.split("::")[-1]: v for k, v in d.items()}
        r.instance("walk:" + show_valuation(short), {"valuation": show_valuation(short), "element_exit": ends})
        if len(coll) != 1 or not re.fullmatch(r"\w+(\[1\])?\.precedence", coll[0][1]):
            r.violation(q2, "collection key", f"every item must be collected under its own precedence: {coll}", repo.loc(f2))
            continue
        txt = coll[0][2]
        if ".copy(path=path.as_posix(), source_path=PurePath(" not in txt.replace("PurePath(path)", "path") or \
                "relative_to(self.source).as_posix()" not in txt:
            r.violation(q2, "provenance of nested results", f"source_path must be the REUSE.toml relative to the root: {txt[:160]}",
                        repo.loc(f2))
        if short.get("is_override") is True and ends[:1] != ["break"]:
            r.violation(q2, "walk continues below an override",
                        "the outermost override must hide deeper REUSE.toml files (break after collecting it)", repo.loc(f2))
        elif short.get("is_override") is False and ends[:1] != ["next"]:
            r.violation(q2, "walk stops without override", f"{ends}", repo.loc(f2))
        else:
            walk_ok += 1
        if leaf.outcome[:2] != ("return", "dict(defaultdict(list))") and not leaf.outcome[1].startswith("dict("):
            r.violation(q2, "return value", f"{leaf.outcome}", repo.loc(f2))
    r.floor(2, "walk paths", got=walk_ok)
    # first loop iterates the depth-ordered items
    loops = [n for n in f2.body if isinstance(n, ast.For)]
    if len(loops) != 2:
        raise AnalysisError("NestedReuseTOML.reuse_info_of: expected the walk and the clean-up loop")
    walk, clean = loops
    from ..rules import single_assign_value
    wsrc = single_assign_value(f2, ast.unparse(walk.iter)) if isinstance(walk.iter, ast.Name) else walk.iter
    if wsrc is None or ast.unparse(wsrc) != "self._find_relevant_tomls_and_items(path)":
        r.violation(q2, "walk source", "the walk must iterate the depth-ordered relevant items", repo.loc(walk))
    # clean-up loop as a flag machine: state (copyright_found, licence_found) x element (has_c, has_l).  The model is written for
    # two boolean flags set inside the loop; a clean-up that keeps a SET of wanted attributes, pops entries, breaks early … is
    # another algorithm for the same table - not decided
    flags = {t.id for st in ast.walk(clean) if isinstance(st, ast.Assign) and isinstance(st.value, ast.Constant) and st.value.value is True
             for t in st.targets if isinstance(t, ast.Name)}
    if len(flags) != 2:
        raise AnalysisError("NestedReuseTOML.reuse_info_of: the closest clean-up is not the two-flag loop this rule models (shape not enumerated)")
    it = ast.unparse(clean.iter)
    if it != "reversed(result[PrecedenceType.CLOSEST])":
        r.violation(q2, f"closest clean-up iterates {it}", "nearest-first order needs reversed(result[CLOSEST])", repo.loc(clean))

    class CH(Hooks):
        def atom(self, text, node, it):
            if text == "info.copyright_lines":
                return "has_c"
            if text == "info.spdx_expressions":
                return "has_l"
            if text == "info.contains_copyright_or_licensing()":
                return ("or", "has_c", "has_l")
            if text == "info.contains_info()":
                return ("or", "has_c", "has_l", "has_other")
            if text.endswith(".contains_copyright_or_licensing()"):
                m_c = "copyright_lines=info.copyright_lines" in text
                m_l = "spdx_expressions=info.spdx_expressions" in text
                return bool(m_c or m_l)
            return None

        def event(self, text, call, it):
            if ast.unparse(call.func) == "to_keep.append":
                t = it.text(call.args[0])
                return ("keep", "copyright_lines=info.copyright_lines" in t, "spdx_expressions=info.spdx_expressions" in t)
            return None

    n_cells = 0
    for cf in (False, True):
        for lf in (False, True):
            def run(v, cf=cf, lf=lf):
                env = {"copyright_found": Const(cf), "licence_found": Const(lf), "info": Sym("info"),
                       "to_keep": Sym("to_keep")}
                env2, events, outcome = run_block(clean.body, env, CH(), v)
                return env2, events, outcome

            for d, (env2, events, outcome) in explore(run):
                n_cells += 1
                hc, hl = d.get("has_c", False), d.get("has_l", False)
                keep_c = (not cf) and hc
                keep_l = (not lf) and hl
                exp_ev = [("keep", keep_c, keep_l)] if (keep_c or keep_l) else []
                exp_state = (cf or hc, lf or hl)
                got_state = (env2.get("copyright_found"), env2.get("licence_found"))
                gs = tuple(x.v if isinstance(x, Const) else None for x in got_state)
                r.instance(f"cleanup:{cf},{lf},{hc},{hl}", {"state": [cf, lf], "element": [hc, hl], "keeps": events,
                                                            "next": list(gs)})
                free = [a for a in d if a.startswith("?")]
                if events != exp_ev or gs != exp_state or outcome is not None or free:
                    why = ""
                    if outcome is not None:
                        why = f"; the walk towards the outer REUSE.toml files is left early ({outcome[0]}): an attribute that only an" \
                              " outer file provides is lost"
                    if free:
                        why += f"; depends on unrecognised condition {free[0]}"
                    r.violation(q2, f"closest clean-up cell found=({cf},{lf}) element=({hc},{hl})",
                                f"keeps {events} -> state {gs}; expected {exp_ev} -> {exp_state} (nearest provider per attribute){why}",
                                repo.loc(clean))
    r.floor(9, "clean-up cells", got=n_cells)
    s2 = ast.unparse(f2)
    if "result[PrecedenceType.CLOSEST] = list(reversed(to_keep))" not in s2:
        r.violation(q2, "closest order not restored", "the kept entries must be re-reversed to outer-to-inner order", repo.loc(f2))


def rule_dep5(ck: Check, repo: Repo) -> None:
    r = ck.rule("R5", "dep5 information is AGGREGATE only and names its source")
    q = f"{GL}.ReuseDep5.reuse_info_of"
    fn = repo.func(q)
    ck.analysed_fn(q)

    # 'the last matching paragraph applies' is python-debian's Copyright.find_files_paragraph (library semantics, T2).  A
    # lookup of the project's own (one regex over all paragraphs, a loop with break) has to re-establish last-match-wins,
    # which this rule cannot read off a call: not decided.
    lookups = [ast.unparse(c.func) for c in ast.walk(fn) if isinstance(c, ast.Call) and isinstance(c.func, ast.Attribute) and c.func.attr == "find_files_paragraph"]
    r.instance("paragraph-lookup", {"calls": lookups})
    if not lookups or any(not l.endswith("dep5_copyright.find_files_paragraph") for l in lookups):
        raise AnalysisError(f"ReuseDep5.reuse_info_of: the Files paragraph is not looked up with python-debian's find_files_paragraph ({lookups});"
                            " whether the LAST matching paragraph wins is not decided for another lookup")

    class H(Hooks):
        def atom(self, text, node, it):
            if text.endswith("dep5_copyright.find_files_paragraph(PurePath(path).as_posix()) is None"):
                return "no_paragraph"
            return None

    for d, leaf, _ in tabulate(fn, H()):
        out = leaf.outcome[1]
        r.instance("path:" + show_valuation(d), {"valuation": show_valuation(d), "returns": out[:80]})
        if d.get("no_paragraph"):
            if out != "{}":
                r.violation(q, "no paragraph", f"returns {out}", repo.loc(fn))
        elif d.get("no_paragraph") is False:
            for need in ("{PrecedenceType.AGGREGATE: [ReuseInfo(", "source_type=SourceType.DEP5", "source_path='.reuse/dep5'",
                         "path=PurePath(path).as_posix()"):
                if need not in out:
                    r.violation(q, f"dep5 result lacks {need[:28]}", out[:200], repo.loc(fn))
            keys = [ast.unparse(k) for n in ast.walk(fn) if isinstance(n, ast.Dict) for k in n.keys if k is not None]
            if keys != ["PrecedenceType.AGGREGATE"]:
                r.violation(q, "dep5 precedence keys", f"{keys}", repo.loc(fn))
        else:
            r.violation(q, "unrecognised condition", show_valuation(d), repo.loc(fn))


def rule_exclusive(ck: Check, repo: Repo) -> None:
    r = ck.rule("R6", "dep5 and REUSE.toml are mutually exclusive; the result list is homogeneous")
    q = f"{P}.find_global_licensing"
    fn = repo.func(q)
    ck.analysed_fn(q)
    mutated = bool(find_calls(fn, lambda c, f: f.startswith("candidates.")))

    class H(Hooks):
        def atom(self, text, node, it):
            if text == "(root / '.reuse/dep5').exists()":
                return "dep5"
            if text.startswith("[GlobalLicensingFound(path, ReuseTOML) for path in NestedReuseTOML.find_reuse_tomls("):
                return "tomls"
            if text == "[GlobalLicensingFound(root / '.reuse/dep5', ReuseDep5)]":
                return True
            if text in ("[]", "candidates") and not mutated:
                return False  # the accumulator is still the empty list it was initialised to
            if text == "not os.environ.get('_SUPPRESS_DEP5_WARNING')" or text == "os.environ.get('_SUPPRESS_DEP5_WARNING')":
                return "@suppress"
            return None

    for d, leaf, _ in tabulate(fn, H()):
        dd = {k: v for k, v in d.items() if not k.startswith("@")}
        out = leaf.outcome
        r.instance("path:" + show_valuation(dd), {"valuation": show_valuation(dd), "outcome": (out[0], out[1][:60])})
        if dd.get("dep5") and dd.get("tomls"):
            if out[:2] != ("raise", "GlobalLicensingConflictError"):
                r.violation(q, "no conflict error", f"both files present but outcome is {out[:2]}", repo.loc(fn))
        elif dd.get("tomls"):
            if not out[1].startswith("[GlobalLicensingFound(path, ReuseTOML) for path in"):
                r.violation(q, "toml candidates", f"{out}", repo.loc(fn))
        elif dd.get("dep5"):
            if out[1] != "[GlobalLicensingFound(root / '.reuse/dep5', ReuseDep5)]":
                r.violation(q, "dep5 candidate", f"{out}", repo.loc(fn))
        else:
            if out[1] not in ("[]", "candidates") or mutated:
                r.violation(q, "no candidates", f"{out}", repo.loc(fn))


def rule_wrapping(ck: Check, repo: Repo, rid: str = "R8") -> None:
    """_global_licensing_from_found: a lone dep5 entry is read as ReuseDep5; everything else - ONE REUSE.toml included -
    becomes a NestedReuseTOML rooted at the project root.  The wrapper is what makes a REUSE.toml's globs relative to
    its own directory, confines it to its subtree and names it as the source; a bare ReuseTOML for a single file that
    is not in the root loses all three."""
    r = ck.rule(rid, "discovered REUSE.toml files are always wrapped in a NestedReuseTOML rooted at the project root")
    q = f"{P}._global_licensing_from_found"
    fn = repo.func(q)
    ck.analysed_fn(q)

    class H(Hooks):
        def atom(self, text, node, it):
            if text == "len(found) == 1":
                return "@single"
            if text in ("found[0].cls == ReuseDep5", "found[0].cls is ReuseDep5"):
                return "@first_is_dep5"
            if re.fullmatch(r"all\((\w+)\.cls (==|is) ReuseTOML for \1 in found\)", text):
                return "@all_toml"
            return None

    def ref(v):
        if v("@single") and v("@first_is_dep5"):
            return "dep5"
        if not v("@all_toml"):
            # discovery yields REUSE.toml files or one dep5 and nothing else: a found list that is neither is not produced by
            # find_global_licensing ("an impossible scenario" in the code's own words) - no obligation in this cell
            return "any"
        return "nested"

    leaves = tabulate(fn, H(), ref, params=["cls", "found", "root"])
    r.floor(3, "paths through _global_licensing_from_found", got=len(leaves))
    for d, leaf, exp in leaves:
        out = leaf.outcome
        if out[0] == "raise":
            got = "raise"
        elif out[1].startswith("ReuseDep5.from_file(found[0].path)"):
            got = "dep5"
        elif re.fullmatch(r"NestedReuseTOML\(reuse_tomls=\[ReuseTOML\.from_file\((\w+)\.path\) for \1 in found\], source=str\(root\)\)", out[1]) or \
                re.fullmatch(r"NestedReuseTOML\(\[ReuseTOML\.from_file\((\w+)\.path\) for \1 in found\], str\(root\)\)", out[1]):
            got = "nested"
        else:
            got = out[1][:80]
        r.instance("wrap:" + show_valuation(d), {"valuation": show_valuation(d), "result": got})
        if exp != "any" and got != exp:
            r.violation(q, f"[{show_valuation(d)}] global licensing object",
                        f"returns {got}, the specification says {exp}"
                        + (" - a REUSE.toml that is not wrapped is matched against root-relative paths, applies outside its own"
                           " directory and reports 'REUSE.toml' as its source" if exp == "nested" else ""),
                        f"{repo.module(P.rsplit('.', 1)[0]).rel}:{leaf.trace[-1] if leaf.trace else fn.lineno}", {"valuation": d})



def run(ck: Check, repo: Repo) -> None:
    ck.explanation = (
        "The precedence rules are a finite table; it is extracted from Project.reuse_info_of by path-sensitive"
        " tabulation over the atoms {G, OV, BIN, FI, FC, FL, CL} (file-information predicates of ReuseInfo mapped to"
        " formulas) with the ordered effect trace (read / extend / append), and compared cell by cell with the"
        " specified table; likewise _determine_license_path, the last-match selection in one REUSE.toml, the"
        " top-down walk with stop-at-override, the closest clean-up as a 4-state x 4-element flag machine, dep5 ="
        " AGGREGATE, and dep5/REUSE.toml exclusivity."
    )
    ck.not_decided = ["nothing of substance: the product space is discrete (helper predicates of ReuseInfo are decided in C09)"]
    ck.trust("CPython ast", "sa/tab.py")
    rule_table(ck, repo)
    rule_license_path(ck, repo)
    rule_single_toml(ck, repo)
    rule_nesting(ck, repo)
    rule_dep5(ck, repo)
    rule_exclusive(ck, repo)
    rule_wrapping(ck, repo)
    # which REUSE.toml files are sources at all: discovery uses the same coverage options as the file walk (shared with C03-R4)
    from . import c03
    r7 = ck.rule("R7", "REUSE.toml discovery receives the project's coverage options unchanged")
    c03.discovery_forwarding(r7, repo)
    # 'the file provides a licence' is the truthiness of its expression set: a None stored for an empty tag makes it true (shared with C07-R12)
    from . import c07
    c07.rule_parse_none(ck, repo, "R9")
    ck.exhaustive = True
