"""C07 - what annotate writes, lint reads back: post-condition, field pipeline, option plumbing, target choice."""
from __future__ import annotations

import ast
import re

from ..fold import ClassVal, Folder, Record, Regex
from ..model import AnalysisError, Repo, kwarg
from ..report import Check
from ..rules import arg_for, expr_text, find_calls
from ..tab import Hooks, Valuation, show_valuation, tabulate
from . import c11
from .c03 import check_forward

HD = "reuse.header"
AN = "reuse._annotate"
CA = "reuse.cli.annotate"


# ------------------------------------------------------------------ R1
def postcondition(ck: Check, repo: Repo, r) -> None:
    q = f"{HD}._create_new_header"
    fn = repo.func(q)
    ck.analysed_fn(q)
    final = {}

    class H(Hooks):
        def atom(self, text, node, it):
            m = re.fullmatch(r"reuse_info\.(copyright_lines|spdx_expressions) != extract_reuse_info\((.*)\)\.\1", text, re.S)
            if m:
                it.events.append(("checked", m.group(1), m.group(2)))
                return "cdiff" if m.group(1) == "copyright_lines" else "ldiff"
            m = re.fullmatch(r"reuse_info\.(copyright_lines|spdx_expressions) == extract_reuse_info\((.*)\)\.\1", text, re.S)
            if m:
                it.events.append(("checked", m.group(1), m.group(2)))
                return ("not", "cdiff" if m.group(1) == "copyright_lines" else "ldiff")
            return {"template is None": "@t", "style is None": "@s", "template_is_commented": "commented"}.get(text)

    def ref(v: Valuation):
        c = v("cdiff")
        l = v("ldiff")
        return "raise" if (c or l) else "return"

    seen = set()
    for d, leaf, exp in tabulate(fn, H(), ref):
        cell = {k: v for k, v in d.items() if k in ("cdiff", "ldiff")}
        got = leaf.outcome[0]
        r.instance("post:" + show_valuation(d), {"cell": show_valuation(cell), "outcome": leaf.outcome[:2][0]})
        key = show_valuation(cell)
        if got == "raise" and leaf.outcome[1] != "MissingReuseInfoError":
            r.violation(q, "wrong exception", f"{leaf.outcome}", repo.loc(fn))
        if got != exp and key not in seen:
            seen.add(key)
            what = "copyright notices" if cell.get("cdiff") else "licence expressions"
            r.violation(q, f"post-render check accepts a header that lost information [{key}]",
                        f"when only the {what} read back from the rendered header differ from the request the function"
                        f" {'returns the header' if got == 'return' else 'raises'}; the header must be rejected iff"
                        f" copyright OR licences differ (the code combines the two tests with `and`)",
                        repo.loc(fn), {"cell": cell})
        if got == "return":
            # the text that is checked is the text that is returned
            for _, fld, arg in [e for e in leaf.events if e[0] == "checked"]:
                if arg != leaf.outcome[1]:
                    r.violation(q, "post-condition is evaluated on a different text than the one returned",
                                f"checked {arg[:60]}…, returned {leaf.outcome[1][:60]}…", repo.loc(fn))


def rule_post(ck: Check, repo: Repo) -> None:
    r = ck.rule("R1", "post-render check: MissingReuseInfoError iff copyright OR licences read back differ")
    postcondition(ck, repo, r)


# ------------------------------------------------------------------ R2
def set_fields(repo: Repo) -> list[str]:
    cls = repo.cls("reuse.ReuseInfo")
    return [st.target.id for st in cls.body if isinstance(st, ast.AnnAssign) and isinstance(st.target, ast.Name)
            and ast.unparse(st.annotation).startswith("set[")]


def environments_verbatim(r, repo: Repo) -> None:
    """Every jinja2 Environment writes values verbatim (no auto-escaping - also not by file name -, finalize, extensions)."""
    # every template environment writes values verbatim: no auto-escaping, no finalize hook, no extensions
    n_env = 0
    for mod in repo.modules.values():
        for c in ast.walk(mod.tree):
            if isinstance(c, ast.Call) and ast.unparse(c.func).split(".")[-1] == "Environment":
                n_env += 1
                kws_e = {kw.arg: ast.unparse(kw.value) for kw in c.keywords}
                where = repo.enclosing_function(c)
                wq = repo.qualname_of(where) if where is not None else mod.name
                r.instance(f"environment:{wq}:{n_env}", {"where": wq, "keywords": kws_e})
                for k in ("autoescape", "finalize", "extensions"):
                    if k in kws_e and kws_e[k] not in ("False", "None", "()", "[]"):
                        r.violation(wq, f"template environment transforms rendered values ({k}={kws_e[k]})",
                                    "holders, contributors and expressions must reach the header exactly as given; with"
                                    " auto-escaping `<`, `>`, `&` and quotes are rewritten (and re-escaped at every later run)",
                                    repo.loc(c))
                if None in kws_e:
                    r.violation(wq, "template environment built from **kwargs", "cannot be shown to write values verbatim", repo.loc(c))
    r.floor(3, "jinja2 Environment constructions", got=n_env)


def rule_pipeline(ck: Check, repo: Repo, folder: Folder, rid: str = "R2") -> None:
    r = ck.rule(rid, "field pipeline: ReuseInfo set fields = extractor output = render arguments ⊆ default template variables; tags agree")
    fields = set_fields(repo)
    r.floor(3, "set-typed fields of ReuseInfo", got=len(fields))
    r.instance("fields", {"set_fields": fields})
    # render kwargs
    fn = repo.func(f"{HD}._create_new_header")
    calls = find_calls(fn, lambda c, f: f == "template.render")
    if len(calls) != 1:
        raise AnalysisError("_create_new_header: template.render call vanished")
    kws = {kw.arg: ast.unparse(kw.value) for kw in calls[0].keywords}
    r.instance("render-arguments", kws)
    for f in fields:
        v = kws.get(f)
        ok = v in (f"sorted(reuse_info.{f})", f"sorted(map(str, reuse_info.{f}))")
        if not ok:
            r.violation(f"{HD}._create_new_header", f"field {f} is not rendered from the request",
                        f"render({f}={v}); expected sorted(reuse_info.{f})", repo.loc(calls[0]))
    # template variables (Jinja2's parser only; nothing is rendered)
    import jinja2
    from jinja2 import meta
    tpath = repo.src / "reuse" / "templates" / "default_template.jinja2"
    src = tpath.read_text(encoding="utf-8")
    tvars = meta.find_undeclared_variables(jinja2.Environment().parse(src))
    r.instance("template-variables", {"variables": sorted(tvars)})
    for f in fields:
        if f not in tvars:
            r.violation("templates/default_template.jinja2", f"default template does not use {f}",
                        "information of that kind is silently dropped from every header", "src/reuse/templates/default_template.jinja2")
    environments_verbatim(r, repo)
    # tags in the template lines vs reader tags
    want_prefix = {"spdx_expressions": "SPDX-License-Identifier: ", "contributor_lines": "SPDX-FileContributor: ", "copyright_lines": ""}
    loops = re.findall(r"\{%\s*for\s+(\w+)\s+in\s+(\w+)\s*%\}\n(.*?)\{%\s*endfor\s*%\}", src, re.S)
    got_prefix = {}
    for var, coll, body in loops:
        m = re.search(r"^(.*)\{\{\s*" + var + r"\s*\}\}(.*)$", body, re.M)
        if m:
            got_prefix[coll] = (m.group(1), m.group(2))
    for f, p in want_prefix.items():
        g = got_prefix.get(f)
        r.instance(f"template-line:{f}", {"line": g})
        if g != (p, ""):
            r.violation("templates/default_template.jinja2", f"template line for {f}",
                        f"renders {g}; the reader expects `{p}<value>` alone on the line", "src/reuse/templates/default_template.jinja2")
    tags = folder.known("reuse.extract", "_SPDX_TAGS")
    for key, tag in (("spdx_expressions", "SPDX-License-Identifier:"), ("contributor_lines", "SPDX-FileContributor:")):
        rx = tags.get(key) if isinstance(tags, dict) else None
        ok = isinstance(rx, Regex) and tag in rx.pattern
        r.instance(f"reader-tag:{key}", {"ok": ok})
        if not ok:
            r.violation("reuse.extract._SPDX_TAGS", f"reader has no pattern for {key} with tag {tag}", "", "src/reuse/extract.py")
    # extractor populates exactly the set fields
    ex = repo.func("reuse.extract.extract_reuse_info")
    rets = [n for n in ast.walk(ex) if isinstance(n, ast.Return)]
    call = rets[-1].value if rets else None
    pop = {"spdx_expressions", "copyright_lines"} if isinstance(call, ast.Call) else set()
    explicit = {kw.arg for kw in call.keywords if kw.arg} if isinstance(call, ast.Call) else set()
    splat = [ast.unparse(kw.value) for kw in call.keywords if kw.arg is None] if isinstance(call, ast.Call) else []
    populated = set(explicit)
    if splat == ["spdx_tags"] and isinstance(tags, dict):
        popped = {c.args[0].value for c in find_calls(ex, lambda c, f: f == "spdx_tags.pop") if c.args and isinstance(c.args[0], ast.Constant)}
        populated |= set(tags) - popped
    r.instance("extractor-fields", {"populated": sorted(populated)})
    if populated != set(fields):
        r.violation("reuse.extract.extract_reuse_info", "extractor output fields",
                    f"populates {sorted(populated)}, ReuseInfo has set fields {fields}", repo.loc(ex))


# ------------------------------------------------------------------ R3
def rule_plumbing(ck: Check, repo: Repo) -> None:
    r = ck.rule("R3", "option plumbing: CLI -> add_header_to_file -> header functions -> create_comment")
    an = repo.commands().get("annotate")
    if an is None:
        raise AnalysisError("anchor vanished: command annotate")
    aq = repo.qualname_of(an)
    check_forward(r, repo, aq, "add_header_to_file", f"{AN}.add_header_to_file", {
        # (which file receives the header - `path` or its .license sibling - is decided by the target table, R4)
        "reuse_info": "get_reuse_info(copyrights, licenses, contributors, copyright_prefix, get_year(years, exclude_year))",
        "style": "style", "force_multi": "multi_line", "skip_existing": "skip_existing",
        "skip_unrecognised": "skip_unrecognised", "fallback_dot_license": "fallback_dot_license",
        "merge_copyrights": "merge_copyrights", "replace": "not no_replace",
    }, skip_self=False, blank_tolerant=("reuse_info",))
    # template / commented come from get_template(template_str, project)
    src = ast.unparse(an)
    ahf = find_calls(an, lambda c, f: f == "add_header_to_file")
    from ..rules import deep_text
    from ..model import kwarg as _kw0
    gri = [deep_text(an, _kw0(c, "reuse_info")) for c in ahf if _kw0(c, "reuse_info") is not None]
    from ..model import kwarg as _kw
    tpl = [(ast.unparse(_kw(c, "template") or ast.Constant(None)), ast.unparse(_kw(c, "template_is_commented") or ast.Constant(None))) for c in ahf]
    ok = "template, commented = get_template(template_str, project)" in src and bool(tpl) and all(t == ("template", "commented") for t in tpl) \
        and bool(gri) and all("get_year(years, exclude_year)" in g for g in gri)
    r.instance("template-plumbing", {"ok": ok})
    if not ok:
        r.violation(aq, "template plumbing", "template and its `commented` flag must come from get_template(template_str, project)",
                    repo.loc(an))
    same = {"template": "template", "template_is_commented": "template_is_commented", "force_multi": "force_multi",
            "merge_copyrights": "merge_copyrights"}
    for callee in ("find_and_replace_header", "add_new_header"):
        ah = repo.func(f"{AN}.add_header_to_file")
        # the local that holds the chosen style: first assigned from NAME_STYLE_MAP.get(...)
        style_local = next((ast.unparse(st.target if isinstance(st, ast.AnnAssign) else st.targets[0]) for st in ast.walk(ah)
                            if isinstance(st, (ast.Assign, ast.AnnAssign)) and st.value is not None
                            and ast.unparse(st.value).startswith("NAME_STYLE_MAP.get(")), "comment_style")
        check_forward(r, repo, f"{AN}.add_header_to_file", callee, f"{HD}.{callee}",
                      {**same, "text": "text", "reuse_info": "reuse_info", "style": style_local}, skip_self=False)
    check_forward(r, repo, f"{HD}.find_and_replace_header", "create_header", f"{HD}.create_header",
                  {**same, "reuse_info": "reuse_info", "header": "header", "style": "style"}, skip_self=False)
    check_forward(r, repo, f"{HD}.add_new_header", "create_header", f"{HD}.create_header",
                  {**same, "reuse_info": "reuse_info", "header": "None", "style": "style"}, skip_self=False)
    check_forward(r, repo, f"{HD}.create_header", "_create_new_header", f"{HD}._create_new_header",
                  {"template": "template", "template_is_commented": "template_is_commented", "style": "style",
                   "force_multi": "force_multi"}, skip_self=False)
    fn = repo.func(f"{HD}._create_new_header")
    cc = find_calls(fn, lambda c, f: f == "style.create_comment")
    ok = len(cc) == 1 and expr_text(fn, cc[0].args[0]).startswith("template.render(") and \
        ast.unparse(kwarg(cc[0], "force_multi") or ast.Constant(None)) == "force_multi"
    r.instance("create_comment-call", {"ok": ok})
    if not ok:
        r.violation(f"{HD}._create_new_header", "create_comment operands", "style.create_comment(rendered, force_multi=force_multi)",
                    repo.loc(fn))
    cm = repo.func("reuse.comment.CommentStyle.create_comment")

    class H(Hooks):
        def atom(self, text, node, it):
            return {"force_multi": "force_multi", "cls.can_handle_single()": "can_single"}.get(text)

    for d, leaf, exp in tabulate(cm, H(), lambda v: "multi" if (v("force_multi") or not v("can_single")) else "single"):
        want = "cls._create_comment_multi(text)" if exp == "multi" else "cls._create_comment_single(text)"
        r.instance("create_comment:" + show_valuation(d), {"returns": leaf.outcome[1]})
        if leaf.outcome[1] != want:
            r.violation("reuse.comment.CommentStyle.create_comment", f"[{show_valuation(d)}]", f"{leaf.outcome[1]}; expected {want}",
                        repo.loc(cm))


# ------------------------------------------------------------------ R4
def rule_target(ck: Check, repo: Repo) -> None:
    r = ck.rule("R4", "target choice: .license sibling iff binary / uncommentable / forced; style = forced, else detected, else skip / fallback")
    an = repo.commands()["annotate"]
    aq = repo.qualname_of(an)

    class LH(Hooks):
        def atom(self, text, node, it):
            return {"is_binary(str(path))": "binary", "is_uncommentable(path)": "uncommentable",
                    "force_dot_license": "force"}.get(text)

        def event(self, text, call, it):
            if ast.unparse(call.func) == "add_header_to_file":
                p = kwarg(call, "path") or (call.args[0] if call.args else None)
                return ("target", it.text(p) if p is not None else "?")
            return None

    P = "each path in paths::"

    def ref(v):
        return v(P + "binary") or v(P + "uncommentable") or v("force")

    for d, leaf, exp in tabulate(an, LH(), ref):
        tg = [e for e in leaf.events if e[0] == "each" and e[2][0] == "target"]
        short = {k.split("::")[-1]: v for k, v in d.items() if k.startswith(P) or k == "force"}
        got = tg[0][2][1] if tg else None
        if got is not None:   # _determine_license_suffix_path returns a Path: a Path(...) around it changes nothing
            got = re.sub(r"^Path\((_determine_license_suffix_path\(path\))\)$", r"\1", got)
        want = "_determine_license_suffix_path(path)" if exp else "path"
        r.instance("target:" + show_valuation(short), {"target": got})
        if got != want:
            r.violation(aq, f"header target when [{show_valuation(short)}]", f"{got}; expected {want}", repo.loc(an))
    # every path annotate processes is redirected to an existing FILE.license (lint reads only the sibling)
    ap = repo.func(f"{CA}.all_paths")
    ck.analysed_fn(f"{CA}.all_paths")

    def redirected(e: ast.AST, depth: int = 0) -> bool:
        """Must-pass-through: every element of the collection denoted by e went through _determine_license_path."""
        if depth > 6:
            return False
        if isinstance(e, (ast.ListComp, ast.SetComp, ast.GeneratorExp)):
            return isinstance(e.elt, ast.Call) and ast.unparse(e.elt.func) == "_determine_license_path"
        if isinstance(e, ast.Call) and isinstance(e.func, ast.Name) and e.func.id in ("list", "set", "sorted", "tuple", "frozenset") and e.args:
            return redirected(e.args[0], depth + 1)
        if isinstance(e, ast.Name):
            name = e.id
            defs = []
            for n in ast.walk(ap):
                if isinstance(n, (ast.Assign, ast.AnnAssign)):
                    tgts = n.targets if isinstance(n, ast.Assign) else [n.target]
                    if any(ast.unparse(t) == name for t in tgts) and n.value is not None:
                        defs.append(("def", n.value))
                elif isinstance(n, ast.AugAssign) and ast.unparse(n.target) == name:
                    defs.append(("def", n.value))
                elif isinstance(n, ast.Call) and isinstance(n.func, ast.Attribute) and ast.unparse(n.func.value) == name:
                    if n.func.attr in ("add", "append") and n.args:
                        defs.append(("elem", n.args[0]))
                    elif n.func.attr in ("update", "extend") and n.args:
                        defs.append(("def", n.args[0]))
            if not defs:
                return False
            for kind, v in defs:
                if kind == "elem":
                    if not (isinstance(v, ast.Call) and ast.unparse(v.func) == "_determine_license_path"):
                        return False
                elif isinstance(v, ast.Call) and ast.unparse(v.func) in ("set", "list") and not v.args:
                    continue  # empty container
                elif not redirected(v, depth + 1):
                    return False
            return True
        if isinstance(e, ast.BinOp) and isinstance(e.op, (ast.BitOr, ast.Add)):
            return redirected(e.left, depth + 1) and redirected(e.right, depth + 1)
        return False

    rets = [n.value for n in ast.walk(ap) if isinstance(n, ast.Return) and n.value is not None]
    ok = bool(rets) and all(redirected(v) for v in rets)
    r.instance("license-sibling-redirection", {"returns": [ast.unparse(v)[:80] for v in rets], "all_redirected": ok})
    if not ok:
        r.violation(f"{CA}.all_paths", "not every processed path is redirected to its existing .license sibling",
                    "a path that reaches the annotate loop without passing through _determine_license_path gets its header written"
                    " into FILE although FILE.license exists; lint reads only the sibling, so the requested information is not read back",
                    repo.loc(ap))
    sq = "reuse._util._determine_license_suffix_path"
    sf = repo.func(sq)

    class SH(Hooks):
        def atom(self, text, node, it):
            return "is_license" if text == "Path(path).suffix == '.license'" else None

    for d, leaf, _ in tabulate(sf, SH(), lambda v: v("is_license")):
        want = "Path(path)" if d.get("is_license") else "Path(f'{Path(path)}.license')"
        r.instance(sq + show_valuation(d), None)
        if leaf.outcome[1] != want:
            r.violation(sq, f"[{show_valuation(d)}]", f"{leaf.outcome[1]}; expected {want}", repo.loc(sf))
    # style table of add_header_to_file
    q = f"{AN}.add_header_to_file"
    fn = repo.func(q)

    class AH(c11.AHHooks):
        def event(self, text, call, it):
            f = ast.unparse(call.func)
            if f in c11.BUILDERS:
                st = kwarg(call, "style")
                return ("build", f, it.text(st) if st is not None else "?")
            return None

        def raises(self, text, call, it):
            return []

    def ref2(v):
        if v("forced_style"):
            return "NAME_STYLE_MAP.get(cast(str, style))"
        if v("detected_style"):
            return "get_comment_style(path)"
        if v("skip_unrecognised"):
            return "skip"
        if v("fallback"):
            return "EmptyCommentStyle"
        return "none"

    for d, leaf, exp in tabulate(fn, AH(), ref2, feasible=lambda v: not (v.get("skip_existing") and v.get("has_info"))):
        b = [e for e in leaf.events if e[0] == "build"]
        name = show_valuation({k: v for k, v in d.items() if k in ("forced_style", "detected_style", "skip_unrecognised", "fallback")})
        r.instance("style:" + show_valuation(d), {"cell": name, "style": b[0][2] if b else None})
        if exp == "skip":
            if b or leaf.outcome[:2] != ("return", "0"):
                r.violation(q, f"skip-unrecognised cell [{name}]", f"{b} {leaf.outcome[:2]}", repo.loc(fn))
        elif exp == "none":
            pass  # excluded by the pre-flight check (verify_paths_comment_style); style None falls back to the default
        else:
            if not b or b[0][2] != exp:
                r.violation(q, f"comment style when [{name}]", f"{b[0][2] if b else None}; expected {exp}", repo.loc(fn))
            rep = d.get("replace")
            if b and b[0][1] != ("find_and_replace_header" if rep else "add_new_header"):
                r.violation(q, f"builder when replace={rep}", f"{b[0][1]}", repo.loc(fn))


# ------------------------------------------------------------------ R5
def rule_styles(ck: Check, repo: Repo, folder: Folder) -> None:
    r = ck.rule("R5", "style tables: every selectable style can create a comment; the maps only name known styles")
    name_map = folder.known("reuse.comment", "NAME_STYLE_MAP")
    if not isinstance(name_map, dict):
        raise AnalysisError("NAME_STYLE_MAP did not fold")
    r.floor(25, "entries of NAME_STYLE_MAP", got=len(name_map))
    for short, cls in name_map.items():
        t = folder.class_table(cls)
        ml = t.get("MULTI_LINE")
        single = bool(t.get("SINGLE_LINE"))
        multi = isinstance(ml, Record) and bool(ml.get("start")) and bool(ml.get("end"))
        r.instance(f"style:{short}", {"style": short, "single": single, "multi": multi})
        if not short:
            r.violation(cls.qual, "style without SHORTHAND is selectable", "", "src/reuse/comment.py")
        if not (single or multi):
            r.violation(cls.qual, f"style {short} can create neither single- nor multi-line comments",
                        "annotate --style would always fail", "src/reuse/comment.py")
    known = {c.qual for c in name_map.values()}
    for mname, floor in (("EXTENSION_COMMENT_STYLE_MAP", 250), ("FILENAME_COMMENT_STYLE_MAP", 60)):
        m = folder.known("reuse.comment", mname)
        r.floor(floor, f"entries of {mname}", got=len(m))
        r.count(len(m), prefix=mname)
        for key, cls in m.items():
            if not isinstance(cls, ClassVal):
                r.violation(f"reuse.comment.{mname}", f"{key} maps to a non-class", "", "src/reuse/comment.py")
            elif cls.qual not in known and cls.name not in ("UncommentableCommentStyle", "EmptyCommentStyle"):
                r.violation(f"reuse.comment.{mname}", f"{key} maps to {cls.name} which --style cannot name", "", "src/reuse/comment.py")
    for q, want in (("reuse.comment.CommentStyle.can_handle_single", "bool(cls.SINGLE_LINE)"),
                    ("reuse.comment.CommentStyle.can_handle_multi", "all((cls.MULTI_LINE.start, cls.MULTI_LINE.end))")):
        f = repo.func(q)
        rets = [ast.unparse(n.value) for n in ast.walk(f) if isinstance(n, ast.Return)]
        r.instance(q, {"returns": rets})
        if rets != [want]:
            r.violation(q, "capability predicate", f"{rets}; expected {want}", repo.loc(f))
    # the pre-flight consults the same tables as the writer
    vf = repo.func(f"{CA}.verify_paths_line_handling")
    s = ast.unparse(vf)
    ok = "NAME_STYLE_MAP.get(forced_style)" in s and "get_comment_style(path)" in s and "style.can_handle_single()" in s and "style.can_handle_multi()" in s
    r.instance("preflight-tables", {"ok": ok})
    if not ok:
        r.violation(f"{CA}.verify_paths_line_handling", "pre-flight tables", "must consult NAME_STYLE_MAP / get_comment_style and the capability predicates",
                    repo.loc(vf))


def rule_writer_refusal(ck: Check, repo: Repo, rid: str = "R8") -> None:
    """The multi-line writer must refuse every text that contains the style's own terminator: the reader (and every
    parser of the language) ends the comment there, so whatever follows would not be read back.  Decided as a table of
    _create_comment_multi over {can_multi, terminator_in_text}; the set of overriding definitions of the writer
    methods is frozen (a subclass override with a weaker test is a new writer)."""
    r = ck.rule(rid, "the multi-line comment writer refuses any text containing the style's terminator; no style overrides the writer guards")
    q = "reuse.comment.CommentStyle._create_comment_multi"
    fn = repo.func(q)
    ck.analysed_fn(q)
    # what the refusal looks for is MULTI_LINE.end AS A STRING: the table entry must be the language's terminator itself.
    # Blanks belong in INDENT_BEFORE_END / INDENT_BEFORE_MIDDLE; a terminator declared as ' */' makes the test miss `x*/y`
    from ..fold import Folder as _F, Record as _R
    _folder = _F(repo)
    _names = _folder.known("reuse.comment", "NAME_STYLE_MAP")
    n_seg = 0
    for short, cls in (_names.items() if isinstance(_names, dict) else []):
        ml = _folder.class_table(cls).get("MULTI_LINE")
        if not isinstance(ml, _R):
            continue
        for part in ("start", "end"):   # the middle marker may be pure indentation (Velocity: two blanks)
            v = ml.get(part)
            if isinstance(v, str) and v.strip():
                n_seg += 1
                if v != v.strip():
                    r.violation(cls.qual, f"MULTI_LINE.{part} of style {short} is {v!r} (with surrounding blanks)",
                                f"the premature-terminator test is `MULTI_LINE.end in text`: with {v!r} a text containing the bare delimiter"
                                f" `{v.strip()}` (`--copyright \"ACME{v.strip()}Corp\"`) is not refused and the written comment ends inside the"
                                f" notice; the reader's end pattern is built from the same entry", "src/reuse/comment.py")
    r.instance("terminator-table", {"segments_checked": n_seg})
    if n_seg < 16:
        raise AnalysisError(f"style tables: only {n_seg} multi-line delimiters folded")

    class H(Hooks):
        def atom(self, text, node, it):
            if text == "cls.can_handle_multi()":
                return "@can_multi"
            if re.fullmatch(r"cls\.MULTI_LINE\.end in (text|line)", text):
                return "@terminator_in_text"
            return None

    def ref(v):
        if not v("@can_multi"):
            return "raise"
        if v("@terminator_in_text"):
            return "raise"
        return "return"

    leaves = tabulate(fn, H(), ref, params=["cls", "text"])
    r.floor(3, "paths through _create_comment_multi", got=len(leaves))
    seen = set()
    for d, leaf, exp in leaves:
        short = {k.split("::")[-1]: v for k, v in d.items() if k.split("::")[-1] in ("@can_multi", "@terminator_in_text") or k.split("::")[-1].startswith("?")}
        got = leaf.outcome[0]
        key = (tuple(sorted(short.items())), got)
        if key in seen:
            continue
        seen.add(key)
        r.instance("writer:" + show_valuation(short), {"valuation": show_valuation(short), "outcome": leaf.outcome[:2]})
        if got != exp or (got == "raise" and leaf.outcome[1] != "CommentCreateError"):
            free = [a[1:] for a in short if a.startswith("?") and "MULTI_LINE.middle" not in a and a != "?line"]
            r.violation(q, f"[{show_valuation(short)}] the writer {'returns a comment' if got == 'return' else got}",
                        f"the specification says {exp}"
                        + (f"; the decision depends on {free[0]!r} instead of 'the terminator occurs in the text' - a value containing"
                           f" (or ending in) the terminator is written and reported as success, but read back cut short" if free else ""),
                        f"{repo.module('reuse.comment').rel}:{leaf.trace[-1] if leaf.trace else fn.lineno}", {"valuation": {k: v for k, v in d.items()}})
    # frozen set of definitions of the writer-side methods
    writer_methods = ("create_comment", "_create_comment_single", "_create_comment_multi", "can_handle_single", "can_handle_multi")
    defs = sorted(qn for qn in repo.functions if qn.startswith("reuse.comment.") and qn.rsplit(".", 1)[-1] in writer_methods)
    want = sorted([f"reuse.comment.CommentStyle.{m}" for m in writer_methods] + ["reuse.comment.EmptyCommentStyle.create_comment"])
    r.instance("writer-definitions", {"definitions": defs})
    for extra in sorted(set(defs) - set(want)):
        r.violation(extra, "a comment style overrides a writer method",
                    "the guards of CommentStyle (terminator refusal, capability tests) no longer apply to that style; its header"
                    " values are not covered by the writer/reader agreement", repo.loc(repo.functions[extra]))
    for missing in sorted(set(want) - set(defs)):
        raise AnalysisError(f"anchor vanished: {missing}")
    # helper predicates called from the writer guard must not be overridden either
    called = {c.func.attr for c in ast.walk(fn) if isinstance(c, ast.Call) and isinstance(c.func, ast.Attribute)
              and isinstance(c.func.value, ast.Name) and c.func.value.id == "cls"}
    for name in sorted(called - set(writer_methods)):
        ds = sorted(qn for qn in repo.functions if qn.startswith("reuse.comment.") and qn.endswith("." + name))
        if len(ds) > 1:
            r.violation(ds[-1], f"helper {name} of the writer guard is overridden per style", f"{ds}", repo.loc(repo.functions[ds[-1]]))



def run(ck: Check, repo: Repo) -> None:
    ck.explanation = (
        "R1 the post-render check of _create_new_header as a 4-cell table (raise iff copyright OR licences read back"
        " differ; checked text = returned text). R2 the field pipeline: ReuseInfo's set fields = fields the extractor"
        " populates = keyword arguments of template.render ⊆ variables of the default template (Jinja2 parser), with"
        " the template's tag literals equal to the reader's. R3 forwarding of every option along annotate ->"
        " add_header_to_file -> find_and_replace_header|add_new_header -> create_header -> _create_new_header ->"
        " create_comment with the rename table. R4 target (.license) and style decision tables. R5 style-table sanity"
        " on the folded tables. Not decided: that Jinja rendering plus commenting round-trips every value for every"
        " style (run-time regex/Jinja semantics) beyond the C02 language checks."
    )
    ck.not_decided = ["round-trip of every value through Jinja rendering and commenting for every style (run time)"]
    ck.trust("CPython ast", "sa/tab.py", "sa/fold.py", "Jinja2's parser (Environment.parse, meta.find_undeclared_variables; no rendering)")
    folder = Folder(repo)
    rule_post(ck, repo)
    rule_pipeline(ck, repo, folder)
    rule_plumbing(ck, repo)
    rule_target(ck, repo)
    rule_styles(ck, repo, folder)
    from . import c09
    c09.rule_no_mutation(ck, repo, "R6")
    rule_tables_roundtrip(ck, repo, folder, "R7")
    rule_writer_refusal(ck, repo)
    rule_finder_ignore_context(ck, repo)
    # 'in addition to what the file already declared': a new .license sibling must not hide it (shared with C09-R9)
    c09.rule_sibling_hides(ck, repo, "R11")
    rule_parse_none(ck, repo)
    # what is written must be decodable by the reader: no error mode that emits bytes the reader turns into something else (shared with C16-R5)
    from . import c16
    c16.rule_decode_modes(ck, repo, "R13")
    rule_finder_window(ck, repo)
    rule_tables_reachable(ck, repo, folder)


# ------------------------------------------------------------------ R15: every entry of the type tables can be found
def rule_tables_reachable(ck: Check, repo: Repo, folder: Folder, rid: str = "R15") -> None:
    """get_comment_style looks a path up by a KEY it computes (`path.name.lower()`, `path.suffix.lower()`) in the lower-cased
    copies of the tables.  Every entry of the written tables must be found by the key computed from a file of that type:
    key(entry) must be a key of the table that is consulted, with the entry's style."""
    r = ck.rule(rid, "every entry of the extension / file-name tables is found by get_comment_style's lookup")
    q = "reuse.comment.get_comment_style"
    fn = repo.func(q)
    ck.analysed_fn(q)
    lookups = []
    for c in ast.walk(fn):
        if isinstance(c, ast.Call) and isinstance(c.func, ast.Attribute) and c.func.attr == "get" and isinstance(c.func.value, ast.Name) and c.args:
            lookups.append((c.func.value.id, ast.unparse(c.args[0])))
    r.instance("lookups", {"lookups": lookups}, q)
    KEYFN = {"path.name.lower()": ("name", str.lower), "path.name": ("name", lambda x: x), "path.suffix.lower()": ("suffix", str.lower),
             "path.suffix": ("suffix", lambda x: x), "path.name.casefold()": ("name", str.casefold), "path.suffix.casefold()": ("suffix", str.casefold)}
    written = {"name": "FILENAME_COMMENT_STYLE_MAP", "suffix": "EXTENSION_COMMENT_STYLE_MAP"}
    seen_kinds = set()
    n = 0
    for table, keytext in lookups:
        if keytext not in KEYFN:
            raise AnalysisError(f"get_comment_style: lookup key `{keytext}` is not in the table of key computations")
        kind, f = KEYFN[keytext]
        seen_kinds.add(kind)
        consulted = folder.known("reuse.comment", table)
        src = folder.known("reuse.comment", written[kind])
        if not isinstance(consulted, dict) or not isinstance(src, dict):
            raise AnalysisError(f"{table} / {written[kind]} did not fold to dictionaries")
        unreachable_by_shape = []
        for k, style in src.items():
            n += 1
            if kind == "suffix" and (k.count(".") != 1 or not k.startswith(".")):
                unreachable_by_shape.append(k)   # `Path.suffix` is the part from the LAST dot: such a key is never computed
                continue
            got = consulted.get(f(k))
            if got is None or getattr(got, "__name__", got) != getattr(style, "__name__", style) and repr(got) != repr(style):
                r.violation(q, f"entry {k!r} of {written[kind]} is not found",
                            f"a file of that type is looked up as {table}[{f(k)!r}] = {got!r}; the entry says {style!r} - `reuse annotate` on"
                            f" such a file says the type is not recognised (or picks another style)", repo.loc(fn), {"entry": k})
        r.instance(f"table:{written[kind]}", {"entries": len(src), "consulted": table, "key": keytext, "never_computed": unreachable_by_shape},
                   f"reuse.comment.{written[kind]}")
    if seen_kinds != {"name", "suffix"}:
        r.violation(q, "a type table is not consulted", f"lookups: {lookups}", repo.loc(fn))
    r.floor(300, "table entries", got=n)


# ------------------------------------------------------------------ R14: the finder searches no further than the reader reads
def rule_finder_window(ck: Check, repo: Repo, rid: str = "R14") -> None:
    """The linter reads the first _HEADER_BYTES bytes of a file (everything only when it contains a snippet); the header
    finder of annotate scans the text it is given.  A finder that scans beyond the reader's window replaces a comment the
    linter never reads: the run reports success and nothing it wrote can be read back."""
    r = ck.rule(rid, "the existing header that annotate replaces lies inside the window the linter reads")
    rq = "reuse.extract.reuse_info_of_file"
    fq = "reuse.header._find_first_spdx_comment"
    rf, ff = repo.func(rq), repo.func(fq)
    ck.analysed_fn(rq, fq)
    bounded_reader = any(isinstance(n, ast.Name) and n.id == "_HEADER_BYTES" for n in ast.walk(rf))
    # the finder: any bound on the positions it tries (a window constant, a slice of the text, a comparison of the index)
    param = ff.args.args[0].arg
    bound = []
    for n in ast.walk(ff):
        if isinstance(n, ast.Name) and n.id == "_HEADER_BYTES":
            bound.append("_HEADER_BYTES")
        if isinstance(n, ast.Compare) and any(isinstance(x, ast.Name) and x.id in ("index", "start", "offset", "pos") for x in ast.walk(n)) \
                and any(isinstance(x, (ast.Constant, ast.Name)) and (getattr(x, "id", "").isupper() or isinstance(getattr(x, "value", None), int)) for x in ast.walk(n)):
            bound.append(ast.unparse(n))
    callers_slice = []
    for q, fn in repo.functions.items():
        for c in ast.walk(fn):
            if isinstance(c, ast.Call) and ast.unparse(c.func) == "_find_first_spdx_comment" and c.args and isinstance(c.args[0], ast.Subscript):
                callers_slice.append(ast.unparse(c.args[0]))
    r.instance("windows", {"reader_bounded_by": "_HEADER_BYTES" if bounded_reader else None, "finder_bounds": bound, "callers_pass_slice": callers_slice,
                           "finder_text_parameter": param}, fq)
    if bounded_reader and not bound and not callers_slice:
        r.violation(fq, "the finder scans the whole text, the linter reads a bounded window",
                    "a file with ~5 KiB of code followed by `# SPDX-License-Identifier: 0BSD`: `reuse annotate -c Jane -l MIT f.py` finds that comment,"
                    " replaces it in place and reports success; the linter (first 4096 bytes, no snippet) reads nothing at all for the file",
                    repo.loc(ff))


# ------------------------------------------------------------------ R10: the header finder and the reader agree on ignore blocks
def rule_finder_ignore_context(ck: Check, repo: Repo, rid: str = "R10") -> None:
    """The reader removes REUSE-IgnoreStart..REUSE-IgnoreEnd over the WHOLE text before it looks for tags.  The finder
    that chooses the comment to replace asks its predicate about one comment at a time: a tag in a comment of its own
    inside an ignore block (markers in other comments) is taken for the existing header, the new header is written
    into the ignored region and nothing of it is read back - with exit 0.  Decided: the text the finder's predicate
    sees, and whether the finder consults the ignore markers of the surrounding text at all."""
    from ..rules import param_names, resolve_deep
    r = ck.rule(rid, "the comment chosen as existing header is not inside an ignore block of the file (finder and reader agree on what is ignored)")
    q = f"{HD}._find_first_spdx_comment"
    fn = repo.func(q)
    ck.analysed_fn(q)
    preds = [c for c in ast.walk(fn) if isinstance(c, ast.Call) and ast.unparse(c.func).split(".")[-1] in ("contains_reuse_info", "extract_reuse_info")]
    if not preds:
        raise AnalysisError("_find_first_spdx_comment: finder predicate not found")
    text_param = param_names(fn)[0]
    whole = []
    for c in preds:
        a = resolve_deep(fn, c.args[0]) if c.args else None
        whole.append(a is not None and isinstance(a, ast.Name) and a.id == text_param)
    src = ast.unparse(fn)
    consults = bool(re.search(r"(?i)ignore", re.sub(r"\"\"\".*?\"\"\"|\'\'\'.*?\'\'\'", "", src, flags=re.S)))
    r.instance("finder-predicate-context", {"predicate_calls": len(preds), "sees_whole_text": whole, "consults_ignore_markers": consults}, q)
    if consults:
        ck.assumptions.append(f"C07-{rid}: the finder consults ignore markers; that it does so correctly is not decided")
        return
    # the block that is REPLACED: everything in it that is not REUSE information is dropped with it.  An ignore marker in
    # the block (a `# REUSE-IgnoreEnd` line directly above the header lines) disappears, the ignore block is never closed,
    # and the reader then drops the rest of the file - including the new header
    repl = [repo.func(f"{HD}.find_and_replace_header"), repo.func(f"{HD}.create_header"), repo.func(f"{HD}._create_new_header")]
    keeps = any(re.search(r"(?i)ignore", re.sub(r"\"\"\".*?\"\"\"", "", ast.unparse(f), flags=re.S)) for f in repl)
    r.instance("replaced-block-markers", {"replacer_consults_ignore_markers": keeps}, f"{HD}.find_and_replace_header")
    if not keeps:
        r.violation(f"{HD}.find_and_replace_header", "an ignore marker inside the replaced comment block is dropped with the block",
                    "`x = 1  # REUSE-IgnoreStart\\ny = \"SPDX-License-Identifier: GPL-2.0-only\"\\n# REUSE-IgnoreEnd\\n# SPDX-FileCopyrightText: 2020 Alice` +"
                    " `annotate -c Bob -l MIT`: the block `# REUSE-IgnoreEnd / # SPDX-…Alice` is replaced by the new header, the end marker is gone,"
                    " the ignore block now runs to the end of the file and NOTHING (Alice, Bob, MIT) is declared any more - exit 0",
                    repo.loc(repl[0]))
    if not all(whole):
        r.violation(q, "the finder's predicate sees one comment at a time and never the ignore markers around it",
                    "`# REUSE-IgnoreStart\\n\\n# SPDX-License-Identifier: 0BSD\\nx=1\\n# REUSE-IgnoreEnd` + `annotate -c Jane -l MIT`: the inner"
                    " comment is replaced by the new header, `Successfully changed header`, exit 0 - and the reader, which drops the"
                    " block as a whole, reads nothing back", repo.loc(fn))


# ------------------------------------------------------------------ R12: the parser's None (empty text) is no expression
PARSE_NONE_EXCEPTIONS = {
    "reuse.report.FileReport.generate": "guarded by `any(reuse_info.spdx_expressions …)`: the joined text has at least one parenthesised operand",
    "reuse.global_licensing.ReuseDep5.reuse_info_of": "a Files paragraph without a License synopsis is rejected by python-debian when the file is parsed",
    "reuse.global_licensing._str_to_set_of_expr": "the attrs validator of the field rejects a member that is not an Expression (parse error naming the file)",
}


def rule_parse_none(ck: Check, repo: Repo, rid: str = "R12") -> None:
    """license_expression's parse() returns None for an empty or blank text - no exception.  A None that is stored as if it
    were an expression is written out as the licence `None` (annotate --license "") or counts as 'this source provides a
    licence' (an empty tag).  Decided: every call of the shared parser either checks its result against None before it is
    stored / returned, or is one of the sites confirmed to be guarded otherwise."""
    r = ck.rule(rid, "the expression parser's None (empty text) never becomes a licence: each result is checked before it is stored or returned")
    n = 0
    for fq, f in sorted(repo.functions.items()):
        par = {id(c): p for p in ast.walk(f) for c in ast.iter_child_nodes(p)}
        for c in ast.walk(f):
            is_parse = isinstance(c, ast.Call) and ast.unparse(c.func) == "_LICENSING.parse"
            is_map = isinstance(c, ast.Call) and ast.unparse(c.func) == "map" and c.args and ast.unparse(c.args[0]) == "_LICENSING.parse"
            if not (is_parse or is_map) or repo.enclosing_function(c) is not f:
                continue
            n += 1
            p = par.get(id(c))
            checked = False
            if isinstance(p, ast.Assign) and len(p.targets) == 1 and isinstance(p.targets[0], ast.Name):
                v = p.targets[0].id
                for t in ast.walk(f):
                    if isinstance(t, ast.Compare) and isinstance(t.left, ast.Name) and t.left.id == v and isinstance(t.ops[0], (ast.Is, ast.IsNot)) \
                            and isinstance(t.comparators[0], ast.Constant) and t.comparators[0].value is None:
                        checked = True
                    if isinstance(t, (ast.If, ast.IfExp)) and (ast.unparse(t.test) in (v, f"not {v}")):
                        checked = True
            exc = PARSE_NONE_EXCEPTIONS.get(fq)
            r.instance(f"parse:{fq}@{n}", {"function": fq, "call": ast.unparse(c)[:60], "none_checked": checked, "confirmed_guard": exc}, fq)
            if not checked and not exc:
                r.violation(fq, f"the result of `{ast.unparse(c)[:50]}` is used without a None check",
                            "`_LICENSING.parse('')` is None: `reuse annotate --license \"\" -c X a.py` writes `SPDX-License-Identifier: None` and"
                            " reports success; an empty `SPDX-License-Identifier:` tag in a file is stored as the expression None, which makes the"
                            " file count as providing a licence", repo.loc(c))
    r.floor(4, "parser call sites", got=n)


# ------------------------------------------------------------------ R7: writer tables vs reader tables over the SPDX list
def _writer_shapes(repo: Repo) -> dict:
    """Check (rename-invariantly) that the two comment writers have the shape the table model below assumes."""
    from ..rules import has
    ws = repo.func("reuse.comment.CommentStyle._create_comment_single")
    wm = repo.func("reuse.comment.CommentStyle._create_comment_multi")
    L = ["line", "line_result", "result", "text"]
    single = has(ws, "for line in text.split('\\n'): line_result = cls.SINGLE_LINE if line: line_result += cls.INDENT_AFTER_SINGLE + line"
                     " result.append(line_result) return '\\n'.join(result)", L)
    multi = has(wm, "result.append(cls.MULTI_LINE.start) for line in text.split('\\n'):", L) and \
        has(wm, "line_result = '' if cls.MULTI_LINE.middle: line_result += cls.INDENT_BEFORE_MIDDLE + cls.MULTI_LINE.middle"
                " if line: line_result += cls.INDENT_AFTER_MIDDLE + line result.append(line_result)", L) and \
        has(wm, "result.append(cls.INDENT_BEFORE_END + cls.MULTI_LINE.end) return '\\n'.join(result)", L)
    return {"single": single, "multi": multi}


def rule_tables_roundtrip(ck: Check, repo: Repo, folder: Folder, rid: str = "R7") -> None:
    r = ck.rule(rid, "writer tables vs reader tables: every SPDX identifier, written in every style and form, is read back exactly")
    import json
    import re as _re
    from . import c02
    shapes = _writer_shapes(repo)
    r.instance("writer-shapes", shapes)
    if not all(shapes.values()):
        raise AnalysisError(f"comment writers no longer have the modelled shape {shapes}: the table model cannot be instantiated")
    styles = c02.style_tables(folder)
    tags = folder.known("reuse.extract", "_SPDX_TAGS")
    lic_rx = tags["spdx_expressions"]
    con_rx = tags["contributor_lines"]
    cps = folder.known("reuse.extract", "_COPYRIGHT_PATTERNS")
    rx_l = _re.compile(lic_rx.pattern, lic_rx.flags)
    rx_c = _re.compile(con_rx.pattern, con_rx.flags)
    rx_cp = [_re.compile(p.pattern, p.flags) for p in cps]
    res = repo.src / "reuse" / "resources"
    ids = [l["licenseId"] for l in json.loads((res / "licenses.json").read_text())["licenses"]]
    ids += [e["licenseExceptionId"] for e in json.loads((res / "exceptions.json").read_text())["exceptions"]]
    r.floor(700, "identifiers in the bundled SPDX lists", got=len(ids))
    values = ids + [i + "+" for i in ids[:40]] + ["GPL-3.0-or-later WITH Classpath-exception-2.0", "(MIT OR Apache-2.0) AND CC0-1.0",
                                                  "LicenseRef-custom-1.0", "DocumentRef-x:LicenseRef-y"]
    if ck.tier == "thorough":
        import random
        rnd = random.Random(ck.seed)
        lic_ids = ids[: len(ids) - 72]
        exc_ids = ids[len(ids) - 72:]
        for _ in range(4000):
            a, b = rnd.choice(lic_ids), rnd.choice(lic_ids)
            form = rnd.randrange(5)
            values.append([f"{a} AND {b}", f"{a} OR {b}", f"({a} OR {b}) AND {rnd.choice(lic_ids)}", f"{a} WITH {rnd.choice(exc_ids)}",
                           f"{a}+ OR LicenseRef-{b}"][form])
    prefixes = folder.known("reuse.copyright", "_COPYRIGHT_PREFIXES")
    notices = [f"{p} 2020 Jane Doe" for p in prefixes.values()] + [f"{p} Example Corp. <https://example.com>" for p in prefixes.values()]
    if ck.tier == "thorough":
        for who in ("J. R. \"Bob\" Dobbs", "Ünïcode Wörks GmbH & Co. KG", "a", "Jane Doe <jane@example.com> and others",
                    "The Foo Authors (see AUTHORS)", "1999 Ltd.", "Team #42"):
            for yr in ("", "1999 ", "1999-2004 ", "1999 - 2004 "):
                notices += [f"{p} {yr}{who}" for p in prefixes.values()]

    def comment(style: dict, mode: str, lines: list[str]) -> str | None:
        """Table model of create_comment (shape verified above), instantiated with the folded style constants."""
        if mode == "single":
            return "\n".join(style["single"] + (style["indent_single"] + l if l else "") for l in lines)
        if any(style["end"] in l for l in lines):
            return None  # the writer refuses (CommentCreateError)
        out = [style["start"]]
        for l in lines:
            cur = ""
            if style["middle"]:
                cur += style["indent_before_middle"] + style["middle"]
            if l:
                cur += style["indent_after_middle"] + l
            out.append(cur)
        out.append(style["indent_before_end"] + style["end"])
        return "\n".join(out)

    def read_tag(rx, text: str) -> list[str]:
        """Table model of find_spdx_tag (strip, mirrored-frame slice, strip; decided in C02-R4)."""
        out = []
        for prefix, value in rx.findall(text):
            prefix, value = prefix.strip(), value.strip()
            suffix = prefix[::-1]
            if suffix and value.endswith(suffix):
                value = value[: -len(suffix)]
            out.append(value.strip())
        return out

    def read_notices(text: str) -> list[str]:
        out = []
        for line in text.splitlines():
            for p in rx_cp:
                m = p.search(line)
                if m is not None:
                    out.append(m.groupdict()["copyright"].strip())
                    break
        return out

    n = 0
    bad: dict[tuple, list] = {}
    for st in styles:
        if st["name"] in ("EmptyCommentStyle", "UncommentableCommentStyle"):
            modes = []
        else:
            modes = [m for m in ("single", "multi") if (m == "single" and st["single"]) or (m == "multi" and st["start"] and st["end"])]
        for mode in modes:
            for v in values:
                text = comment(st, mode, [f"SPDX-License-Identifier: {v}"])
                if text is None:
                    continue
                n += 1
                got = read_tag(rx_l, text)
                if got != [v]:
                    bad.setdefault((st["name"], mode, "licence"), []).append((v, got))
            for who in ("Jane Doe", "Example Corp. <https://example.com>"):
                text = comment(st, mode, [f"SPDX-FileContributor: {who}"])
                if text is not None:
                    n += 1
                    got = read_tag(rx_c, text)
                    if got != [who]:
                        bad.setdefault((st["name"], mode, "contributor"), []).append((who, got))
            for notice in notices:
                text = comment(st, mode, [notice])
                if text is None:
                    continue
                n += 1
                got = read_notices(text)
                if got != [notice]:
                    bad.setdefault((st["name"], mode, "copyright"), []).append((notice, got))
    r.count(n, prefix="style-value")
    ck.extra["tables_roundtrip"] = {"styles": len(styles), "values": len(values), "notices": len(notices), "cases": n}
    r.sample({"style": "CCommentStyle", "mode": "multi", "value": "MIT", "comment": comment(next(s for s in styles if s["name"] == "CCommentStyle"), "multi", ["SPDX-License-Identifier: MIT"])})
    mirror_known = {"c": "FortranCommentStyle", "dnl": "M4CommentStyle", "..": "ReStructedTextCommentStyle", "REM": "BatchFileCommentStyle",
                    "--": "HaskellCommentStyle/AppleScriptCommentStyle"}
    for (name, mode, kind), items in sorted(bad.items()):
        st = next(s for s in styles if s["name"] == name)
        pref = (st["single"] if mode == "single" else st["middle"]).strip()
        ex = items[0]
        mirrored = kind == "licence" and pref and all(v.endswith(pref[::-1]) and got == [v[: -len(pref)].strip()] for v, got in items)
        if mirrored:
            r.violation("reuse.extract.find_spdx_tag", f"mirrored-prefix strip truncates SPDX identifiers in {name} ({mode})",
                        f"{len(items)} identifiers of the bundled list end in {pref[::-1]!r}, the reverse of the line prefix {pref!r}, and"
                        f" are read back truncated, e.g. {ex[0]!r} -> {ex[1]}: " + ", ".join(v for v, _ in items[:8]),
                        "src/reuse/extract.py", {"identifiers": [v for v, _ in items]})
        else:
            r.violation(st["qual"], f"{kind} written in {name} ({mode}) is not read back exactly",
                        f"{len(items)} values differ, e.g. {ex[0]!r} is read back as {ex[1]}", "src/reuse/comment.py",
                        {"examples": items[:5]})
