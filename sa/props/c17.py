"""C17 - convert-dep5: order of effects, constant agreement, glob language preservation."""
from __future__ import annotations

import ast
import itertools
import multiprocessing as mp
import os
import re

from ..fold import EnumMember, Folder, Regex
from ..model import AnalysisError, Repo
from ..relang import in_a_not_b, Alphabet, Lang, difference
from ..report import Check
from ..rules import find_calls
from ..tab import Hooks, show_valuation, tabulate
from ..transducer import Transducer
from . import c05

DEP5_ALPHABET = "a/*?\\"
_ALPHA = None


def alpha() -> Alphabet:
    global _ALPHA
    if _ALPHA is None:
        _ALPHA = Alphabet([], extra="ab/*?\\.", exclude="\n\r")
    return _ALPHA


REORDER_METHODS = {"sort", "reverse", "insert", "pop", "remove", "clear"}


def list_reorders(fn: ast.FunctionDef, name: str) -> list[ast.AST]:
    """Operations that can change the element order (or drop elements) of the list held in local `name`."""
    out: list[ast.AST] = []
    n_assign = 0
    for n in ast.walk(fn):
        if isinstance(n, ast.Call):
            f = n.func
            if isinstance(f, ast.Attribute) and isinstance(f.value, ast.Name) and f.value.id == name and f.attr in REORDER_METHODS:
                out.append(n)
            elif ast.unparse(f).split(".")[-1] in ("sorted", "reversed", "shuffle", "sample", "set", "frozenset") and n.args \
                    and isinstance(n.args[0], ast.Name) and n.args[0].id == name:
                out.append(n)
        elif isinstance(n, ast.Subscript) and isinstance(n.value, ast.Name) and n.value.id == name and isinstance(n.slice, ast.Slice):
            out.append(n)
        elif isinstance(n, ast.Delete) and any(isinstance(t, ast.Subscript) and isinstance(t.value, ast.Name) and t.value.id == name
                                                for t in n.targets):
            out.append(n)
        elif isinstance(n, (ast.Assign, ast.AnnAssign)):
            tg = n.targets if isinstance(n, ast.Assign) else [n.target]
            if any(isinstance(t, ast.Name) and t.id == name for t in tg):
                n_assign += 1
                if n_assign > 1:
                    out.append(n)
            if any(isinstance(t, ast.Subscript) and isinstance(t.value, ast.Name) and t.value.id == name for t in tg):
                out.append(n)
    return out


# ------------------------------------------------------------------ R1
def rule_order(ck: Check, repo: Repo) -> None:
    r = ck.rule("R1", "REUSE.toml is written before dep5 is removed; refusal without dep5 precedes any effect")
    cmds = repo.commands()
    if "convert-dep5" not in cmds:
        raise AnalysisError("anchor vanished: command convert-dep5")
    fn = cmds["convert-dep5"]
    qual = repo.qualname_of(fn)
    ck.analysed_fn(qual)

    class H(Hooks):
        def atom(self, text, node, it):
            from ..rules import path_norm
            t = path_norm(text)
            if t in ("(obj.project.root / '.reuse' / 'dep5').exists()", "(<p0>.project.root / '.reuse' / 'dep5').exists()"):
                return "dep5_exists"
            # the guard may also require that the project's global licensing IS a dep5 (it is whenever the file exists and parsed)
            if re.fullmatch(r"isinstance\((obj\.project\.global_licensing|\w+), ReuseDep5\)", t):
                return True
            return None

        def event(self, text, call, it):
            f = ast.unparse(call.func)
            last = f.split(".")[-1]
            if last in ("write_text", "write_bytes", "unlink", "touch", "open", "rename", "replace", "remove",
                        "rmtree", "mkdir", "copyfile", "move"):
                recv = it.text(call.func.value) if isinstance(call.func, ast.Attribute) else ""
                return (last, recv, [it.text(a) for a in call.args])
            if f == "toml_from_dep5":
                return ("convert", text)
            return None

        def raises(self, text, call, it):
            # the write of REUSE.toml can fail (encoding of the text, a directory of that name, a full disk)
            if ast.unparse(call.func).split(".")[-1] in ("write_text", "write_bytes"):
                return ["OSError"]
            return []

    leaves = tabulate(fn, H())
    for d, leaf, _ in leaves:
        fx = [e for e in leaf.events if e[0] != "convert"]
        failed = [k for k, v in d.items() if k.startswith("raise[OSError]@") and v]
        if failed:
            r.instance("path:" + show_valuation(d), {"valuation": "dep5 exists, the write of REUSE.toml fails", "outcome": leaf.outcome[:2],
                                                     "effects": [repr(e) for e in fx]})
            after = [e for e in fx if e[0] in ("unlink", "remove", "rename", "replace", "rmtree")]
            if after or leaf.outcome[0] != "raise":
                r.violation(qual, "dep5 is removed although REUSE.toml could not be written",
                            f"when write_text fails the command still performs {[(e[0], e[1]) for e in after]} (outcome {leaf.outcome[:2]}):"
                            f" the project is left with neither file", repo.loc(fn), {"valuation": d})
            continue
        r.instance("path:" + show_valuation(d), {"valuation": show_valuation(d), "outcome": leaf.outcome,
                                                 "effects": [repr(e) for e in fx]})
        if d.get("dep5_exists") is False:
            if leaf.outcome != ("raise", "UsageError") or fx:
                r.violation(qual, "no refusal without dep5",
                            f"without .reuse/dep5 the command must raise UsageError before any effect; got"
                            f" {leaf.outcome} with effects {fx}", repo.loc(fn))
        elif d.get("dep5_exists") is True:
            from ..rules import path_norm
            want = [("write_text", "obj.project.root / 'REUSE.toml'"), ("unlink", "obj.project.root / '.reuse' / 'dep5'")]
            got = [(e[0], path_norm(e[1])) for e in fx]
            conv = [e for e in leaf.events if e[0] == "convert"]
            if got != want:
                r.violation(qual, "effect order",
                            f"effects must be write_text(REUSE.toml) then unlink(dep5); got {got}", repo.loc(fn))
            elif not conv or leaf.events.index(conv[0]) > leaf.events.index(fx[0]):
                r.violation(qual, "conversion after write", "the TOML text must be complete before the write",
                            repo.loc(fn))
            else:
                wt = fx[0]
                if not wt[2] or "toml_from_dep5(" not in wt[2][0]:
                    r.violation(qual, "written text", f"REUSE.toml receives {wt[2]}, not the converted text",
                                repo.loc(fn))
        else:
            r.violation(qual, "guard vanished", "the command no longer tests for .reuse/dep5", repo.loc(fn))
    r.floor(2, "paths through convert-dep5", got=len(leaves))


# ------------------------------------------------------------------ R2
def rule_constants(ck: Check, repo: Repo, folder: Folder) -> None:
    r = ck.rule("R2", "writer constants agree with reader constants (precedence, TOML keys, version)")
    CD = "reuse.convert_dep5"
    GL = "reuse.global_licensing"
    fn = repo.func(f"{CD}._annotations_from_paragraphs")
    ck.analysed_fn(f"{CD}._annotations_from_paragraphs")
    dicts = [n for n in ast.walk(fn) if isinstance(n, ast.Dict)]
    if len(dicts) != 1:
        raise AnalysisError("_annotations_from_paragraphs: expected one dict literal")
    written = {}
    for k, v in zip(dicts[0].keys, dicts[0].values):
        if isinstance(k, ast.Constant):
            written[k.value] = v
    toml_keys = folder.known(GL, "_TOML_KEYS")
    r.instance("keys", {"written": sorted(written), "reader": sorted(toml_keys.values())})
    for attr, key in toml_keys.items():
        r.instance(f"key:{key}", None)
        if key not in written:
            r.violation(f"{CD}._annotations_from_paragraphs", f"TOML key {key!r} not written",
                        f"the reader looks for {key!r} ({attr}) but the converter writes {sorted(written)}",
                        repo.loc(fn))
    # the licence value: the WHOLE expression of the paragraph, in the spelling the dep5 reader itself uses
    from ..rules import deep_text
    lic_v = written.get("SPDX-License-Identifier")
    lic_t = deep_text(fn, lic_v) if lic_v is not None else None
    d5r = repo.func(f"{GL}.ReuseDep5.reuse_info_of")
    reader_lic = [ast.unparse(kw.value) for c in ast.walk(d5r) if isinstance(c, ast.Call) for kw in c.keywords if kw.arg == "spdx_expressions"]
    r.instance("licence-value", {"converter": lic_t, "dep5_reader": reader_lic})
    # sibling agreement: the dep5 reader decides what the licence OF a paragraph is (it parses exactly one accessor of
    # paragraph.license); the converter must write that same accessor, whole
    accs = sorted({m for t in reader_lic for m in re.findall(r"\.license\.(\w+(?:\(\))?)", t)})
    if len(accs) != 1:
        raise AnalysisError(f"ReuseDep5.reuse_info_of: licence accessor not recognised in {reader_lic}")
    want_acc = f"paragraph.license.{accs[0]}"
    helper_ok = False
    if lic_t is not None and lic_t not in (want_acc, f"cast(str, {want_acc})"):
        # one level through a helper that returns the expression unchanged
        m = re.fullmatch(r"(\w+)\(paragraph\)", lic_t)
        hq = f"{CD}.{m.group(1)}" if m else None
        if hq and hq in repo.functions:
            h = repo.functions[hq]
            hp = h.args.args[0].arg if h.args.args else "paragraph"
            hr = [deep_text(h, n.value) for n in ast.walk(h) if isinstance(n, ast.Return) and n.value is not None]
            helper_ok = hr in ([f"{hp}.license.{accs[0]}"], [f"cast(str, {hp}.license.{accs[0]})"])
            lic_t = f"{lic_t} -> {hr}"
    if lic_v is None or not (lic_t in (want_acc, f"cast(str, {want_acc})") or helper_ok):
        r.violation(f"{CD}._annotations_from_paragraphs", f"licence value is {lic_t}",
                    f"the dep5 reader takes `<paragraph>.license.{accs[0]}` for the licence expression of a paragraph; the converted table must"
                    f" carry exactly that, whole: `.to_str()` appends the licence TEXT that may follow the synopsis in a License field"
                    f" (REUSE.toml then does not parse and dep5 is already gone), a first word or first line drops operands of a"
                    f" compound expression", repo.loc(fn))
    prec = written.get("precedence")
    agg = folder._getattr(folder.known(GL, "PrecedenceType"), "AGGREGATE", fn, repo.module(GL))
    if not isinstance(agg, EnumMember):
        raise AnalysisError("PrecedenceType.AGGREGATE vanished")
    pv = prec.value if isinstance(prec, ast.Constant) else ast.unparse(prec) if prec is not None else None
    r.instance("precedence", {"written": pv, "PrecedenceType.AGGREGATE": agg.value})
    if pv != agg.value:
        r.violation(f"{CD}._annotations_from_paragraphs", f"precedence {pv!r}",
                    f"dep5 semantics are AGGREGATE ({agg.value!r}); the converter writes {pv!r}", repo.loc(fn))
    # dep5 reader uses AGGREGATE
    d5 = repo.func(f"{GL}.ReuseDep5.reuse_info_of")
    keys = [ast.unparse(k) for n in ast.walk(d5) if isinstance(n, ast.Dict) for k in n.keys if k is not None]
    r.instance("dep5-precedence", {"keys": keys})
    if keys != ["PrecedenceType.AGGREGATE"]:
        r.violation(f"{GL}.ReuseDep5.reuse_info_of", "dep5 precedence", f"returns keys {keys}", repo.loc(d5))
    # paths go through _convert_asterisk, copyright through splitlines/strip (same as the dep5 reader)
    pp = repo.func(f"{CD}._paths_from_paragraph")
    ok = any(isinstance(n, ast.ListComp) and ast.unparse(n.elt) == "_convert_asterisk(path)" and
             ast.unparse(n.generators[0].iter) in ("list(paragraph.files)", "paragraph.files") and not n.generators[0].ifs
             for n in ast.walk(pp))
    r.instance("paths", {"all_converted": ok})
    if not ok:
        r.violation(f"{CD}._paths_from_paragraph", "paths", "every Files pattern must be converted and kept",
                    repo.loc(pp))
    if ast.unparse(written.get("path", ast.Constant(None))) != "_paths_from_paragraph(paragraph)" and \
            ast.unparse(written.get("path", ast.Constant(None))) != "paths":
        r.violation(f"{CD}._annotations_from_paragraphs", "path value", "path key does not hold the converted patterns",
                    repo.loc(fn))
    cp = repo.func(f"{CD}._copyrights_from_paragraph")
    lc = [n for n in ast.walk(cp) if isinstance(n, ast.ListComp)]
    okc = bool(lc) and ast.unparse(lc[0].elt) == "line.strip()" and "splitlines()" in ast.unparse(lc[0].generators[0].iter) \
        and not lc[0].generators[0].ifs
    d5c = "set(map(str.strip, result.copyright.splitlines()))" in ast.unparse(d5)
    for n in ast.walk(d5):
        # the same as a set comprehension / a generator handed to set(): {l.strip() for l in result.copyright.splitlines()}
        comp = n if isinstance(n, ast.SetComp) else (n.args[0] if isinstance(n, ast.Call) and ast.unparse(n.func) == "set" and len(n.args) == 1
                                                      and isinstance(n.args[0], (ast.GeneratorExp, ast.ListComp)) else None)
        if comp is not None and len(comp.generators) == 1 and not comp.generators[0].ifs and isinstance(comp.generators[0].target, ast.Name) \
                and ast.unparse(comp.generators[0].iter) == "result.copyright.splitlines()" \
                and ast.unparse(comp.elt) == f"{comp.generators[0].target.id}.strip()":
            d5c = True
    r.instance("copyright-lines", {"converter_strip_splitlines": okc, "dep5_reader_strip_splitlines": d5c})
    if not (okc and d5c):
        r.violation(f"{CD}._copyrights_from_paragraph", "copyright lines",
                    "converter and dep5 reader must split and strip the Copyright field alike", repo.loc(cp))
    # annotation order is kept (last match wins on both sides)
    loops = [n for n in fn.body if isinstance(n, ast.For)]
    _rets = [n.value for n in ast.walk(fn) if isinstance(n, ast.Return) and isinstance(n.value, ast.Name)]
    _acc = _rets[-1].id if _rets else "annotations"
    _p0 = fn.args.args[0].arg if fn.args.args else "paragraphs"
    if len(loops) != 1 or ast.unparse(loops[0].iter) != _p0 or \
            not any(isinstance(c, ast.Call) and ast.unparse(c.func) == f"{_acc}.append" for c in ast.walk(loops[0])):
        r.violation(f"{CD}._annotations_from_paragraphs", "paragraph order", "annotations must be appended in paragraph order",
                    repo.loc(fn))
    tf = repo.func(f"{CD}.toml_from_dep5")
    # ... and nothing reorders the list between its construction and the dump
    for f, qn in ((fn, f"{CD}._annotations_from_paragraphs"), (tf, f"{CD}.toml_from_dep5")):
        acc = "annotations"
        rets = [n.value for n in ast.walk(f) if isinstance(n, ast.Return) and isinstance(n.value, ast.Name)]
        if f is fn and rets:
            acc = rets[-1].id
        if f is tf:
            for n in ast.walk(tf):
                if isinstance(n, ast.Assign) and len(n.targets) == 1 and isinstance(n.targets[0], ast.Name) \
                        and ast.unparse(n.value).startswith("_annotations_from_paragraphs("):
                    acc = n.targets[0].id
        ops = list_reorders(f, acc)
        r.instance(f"order-preserved:{qn.split('.')[-1]}", {"list": acc, "reordering_operations": [ast.unparse(o)[:60] for o in ops]})
        for o in ops:
            r.violation(qn, f"table order changed: {ast.unparse(o)[:70]}",
                        "dep5 and REUSE.toml both let the LAST matching paragraph/table win; reordering the tables changes which"
                        " paragraph applies to a file matched by several", repo.loc(o))
    src = ast.unparse(tf)
    r.instance("document", {"version": "REUSE_TOML_VERSION" in src, "all_paragraphs": "dep5.all_files_paragraphs()" in src})
    from ..rules import single_assign_value
    doc_ok = False
    for n in ast.walk(tf):
        if isinstance(n, ast.Assign) and len(n.targets) == 1 and isinstance(n.targets[0], ast.Subscript) \
                and isinstance(n.targets[0].slice, ast.Constant) and n.targets[0].slice.value == "annotations":
            val = n.value
            if isinstance(val, ast.Name):
                val = single_assign_value(tf, val.id) or val
            doc_ok = ast.unparse(val) == "_annotations_from_paragraphs(dep5.all_files_paragraphs())"
    if "'version': REUSE_TOML_VERSION" not in src or not doc_ok:
        r.violation(f"{CD}.toml_from_dep5", "document keys", "version / annotations keys or the paragraph source changed",
                    repo.loc(tf))
    ver = folder.known(GL, "REUSE_TOML_VERSION")
    if not isinstance(ver, int):
        r.violation(f"{GL}.REUSE_TOML_VERSION", "version type", f"{ver!r} is not an int (reader validates int)")


# ------------------------------------------------------------------ R3
def dep5_tokens(glob: str):
    toks = []
    i = 0
    while i < len(glob):
        c = glob[i]
        if c == "\\":
            if i + 1 >= len(glob) or glob[i + 1] not in "*?\\":
                return None  # illegal in DEP5
            toks.append(("lit", glob[i + 1]))
            i += 2
        elif c == "*":
            toks.append(("any*",))
            i += 1
        elif c == "?":
            toks.append(("any1",))
            i += 1
        else:
            toks.append(("lit", c))
            i += 1
    return toks


def dep5_parts(toks):
    parts = []
    for t in toks:
        if t[0] == "lit":
            parts.append(("lit", t[1]))
        elif t[0] == "any*":
            parts.append(("star", lambda ch: True))
        else:
            parts.append(("set", lambda ch: True))
    return parts


def frozen_convert(glob: str) -> str:
    """Frozen description of the recorded converter behaviour: an asterisk that is not adjacent to
    another asterisk becomes '**' (escapes are not recognised, '?' is left alone)."""
    out = []
    for i, c in enumerate(glob):
        if c == "*" and (i == 0 or glob[i - 1] != "*") and (i + 1 >= len(glob) or glob[i + 1] != "*"):
            out.append("**")
        else:
            out.append(c)
    return "".join(out)


def features(glob: str, toks) -> list[str]:
    f = []
    if ("any1",) in toks:
        f.append("Q")
    if "\\*" in glob:
        f.append("E")
    return f


_STATE = None


def _init_worker():
    global _STATE
    repo = Repo()
    folder = Folder(repo)
    pat = folder.known("reuse.convert_dep5", "_SINGLE_ASTERISK_PATTERN")
    fn, _, _ = c05.find_translator(repo)
    conv = repo.func("reuse.convert_dep5._convert_asterisk")
    repl = converter_summary(conv)
    # the matcher as AnnotationsItem applies it: template around the translated glob, compile flags, match method (C05)
    _STATE = (c05.Matcher(repo), re.compile(pat.pattern, pat.flags), repl)


def converter_summary(conv: ast.FunctionDef) -> str:
    body = [s for s in conv.body if not (isinstance(s, ast.Expr) and isinstance(s.value, ast.Constant))]
    if len(body) != 1 or not isinstance(body[0], ast.Return):
        raise AnalysisError("_convert_asterisk is no longer a single substitution (cannot summarise)")
    call = body[0].value
    if not (isinstance(call, ast.Call) and ast.unparse(call.func) == "_SINGLE_ASTERISK_PATTERN.sub"
            and len(call.args) == 2 and isinstance(call.args[0], ast.Constant)
            and ast.unparse(call.args[1]) == conv.args.args[0].arg):
        raise AnalysisError("_convert_asterisk is no longer CONST_PATTERN.sub(CONST, param) (cannot summarise)")
    return call.args[0].value


def _worker(globs):
    if _STATE is None:
        _init_worker()
    tr, pat, repl = _STATE
    A = alpha()
    out = []
    skipped = 0
    for g in globs:
        toks = dep5_tokens(g)
        if toks is None:
            skipped += 1
            continue
        ref = Lang.from_parts(A, dep5_parts(toks), "dep5")
        converted = pat.sub(repl, g)
        regex = tr.regex_for([converted])
        rt = c05.tokenise(converted)
        if rt is None:
            out.append({"glob": g, "converted": converted, "why": "converted glob ends in an unpaired backslash",
                        "features": [], "explained": False, "witness": None})
            continue
        impl = Lang.from_regex(regex, tr.flags, A, tr.mode or "match")
        d = difference(ref, impl)
        if d is None:
            continue
        feats = features(g, toks)
        # frozen defect model: frozen conversion, then the REUSE.toml reading incl. the C05 class-B model
        mconv = frozen_convert(g)
        mt = c05.tokenise(mconv)
        explained = False
        if mt is not None:
            bparts, dropped = c05.bmodel_parts(mt)
            if dropped:
                feats.append("B")
            model = Lang.from_parts(A, bparts, "model")
            # the recorded classes are sets of GLOBS that change meaning: a glob the frozen defect model already predicts
            # to change meaning is the recorded finding, however the matcher spells its (wrong) language today
            explained = bool(feats) and (difference(impl, model) is None or difference(ref, model) is not None)
        if not explained and any(f in ("Q", "E") for f in feats) and converted == mconv:
            # (only when the converter itself does what the recorded classes describe: converted == frozen conversion)
            # the deviation is the CONVERTER's (classes Q / E) whenever the converted glob, read as C05 specifies it, already
            # differs from the dep5 glob and the matcher stays within the specified readings of the converted glob - how the
            # matcher spells that language is C05's business, not a new deviation of the conversion
            narrow = Lang.from_parts(A, c05.narrow_parts(rt), "narrow")
            wide = Lang.from_parts(A, c05.wide_parts(rt), "wide")
            if in_a_not_b(narrow, impl) is None and in_a_not_b(impl, wide) is None \
                    and (difference(ref, narrow) is not None and difference(ref, wide) is not None):
                explained = True
        out.append({"glob": g, "converted": converted, "regex": regex, "features": feats, "explained": explained,
                    "witness": d, "why": f"path {d[1]!r} is matched {'only before' if d[0] == 'only-first' else 'only after'} the conversion"})
    return out, skipped, len(globs)


def rule_globs(ck: Check, repo: Repo, folder: Folder) -> None:
    r = ck.rule("R3", "for every legal dep5 glob <= N: converted glob denotes the same path language (any path length)")
    conv_q = "reuse.convert_dep5._convert_asterisk"
    conv = repo.func(conv_q)
    ck.analysed_fn(conv_q)
    repl = converter_summary(conv)
    pat = folder.known("reuse.convert_dep5", "_SINGLE_ASTERISK_PATTERN")
    if not isinstance(pat, Regex):
        raise AnalysisError("_SINGLE_ASTERISK_PATTERN did not fold to a compiled pattern")
    ck.extra["converter_summary"] = {"pattern": pat.pattern, "replacement": repl,
                                     "note": "summary applied with the standard library's re to the two folded"
                                             " constants (no repository code is executed)"}
    bound = 5 if ck.tier == "quick" else 7
    globs = ["".join(t) for n in range(1, bound + 1) for t in itertools.product(DEP5_ALPHABET, repeat=n)]
    jobs = 1 if ck.tier == "quick" else min(16, os.cpu_count() or 1)
    devs, skipped, total = [], 0, 0
    chunks = [globs[i:i + 1500] for i in range(0, len(globs), 1500)]
    if jobs > 1:
        with mp.Pool(jobs) as pool:
            results = pool.map(_worker, chunks)
    else:
        results = [_worker(c) for c in chunks]
    for d, s, n in results:
        devs += d
        skipped += s
        total += n
    legal = total - skipped
    r.count(total, distinct=legal, prefix="dep5glob")
    ck.exhaustive = True
    ck.extra["globs"] = {"bound": bound, "enumerated": total, "illegal_in_dep5_skipped": skipped,
                         "legal": legal, "deviating": len(devs), "path_alphabet": alpha().chars}
    r.sample({"glob": "a/*", "converted": re.compile(pat.pattern).sub(repl, "a/*"), "verdict": "same language"})
    by_feature: dict[str, list] = {"Q": [], "E": [], "B": []}
    unexplained = []
    for d in devs:
        if d["explained"]:
            for f in d["features"]:
                by_feature[f].append(d)
        else:
            unexplained.append(d)
    names = {
        "Q": "dep5 '?' (any single character) has no counterpart in REUSE.toml and is copied as a literal",
        "E": "escaped asterisk '\\*' is not recognised by the converter and becomes '\\**'",
        "B": "converted '*/' runs into the C05 class-B defect ('/' after a globstar is dropped)",
    }
    for f, lst in by_feature.items():
        if lst:
            ex = min(lst, key=lambda d: (len(d["glob"]), d["glob"]))
            r.violation(conv_q, f"class {f}: {names[f]}",
                        f"{len(lst)} of {legal} legal dep5 globs change meaning exactly as the frozen defect model"
                        f" predicts; smallest: {ex['glob']!r} -> {ex['converted']!r}: {ex['why']}", repo.loc(conv),
                        {"count": len(lst), "examples": sorted((d['glob'] for d in lst), key=lambda g: (len(g), g))[:8]})
    bad = {d["glob"] for d in unexplained}
    minimal = sorted((d for d in unexplained if c05.is_minimal(d["glob"], bad)), key=lambda d: (len(d["glob"]), d["glob"]))
    for d in minimal[:12]:
        r.violation(conv_q, f"dep5 glob {d['glob']!r} changes meaning",
                    f"{d['glob']!r} is converted to {d['converted']!r} (regex {d.get('regex')}): {d['why']}"
                    f" ({len(unexplained)} unexplained deviations, {len(minimal)} minimal)", repo.loc(conv), d)
    r.floor(1500 if ck.tier == "quick" else 20000, "legal dep5 globs examined", got=legal)


def rule_parser_options(ck: Check, repo: Repo, rid: str = "R7") -> None:
    """The same expression text must mean the same thing wherever it is read: header tags, REUSE.toml, dep5, the command
    line.  Every call of the shared parser therefore carries the same options - a tokenizer switch (`simple=True`),
    `validate=` or `strict=` at one site makes that source accept a different language than its siblings (a dep5
    synopsis `GPL-2+ with OpenSSL exception` parses on the dep5 side and not after conversion)."""
    r = ck.rule(rid, "every reader parses licence expressions with the same parser options")
    sites = []
    for fq, f in repo.functions.items():
        for c in ast.walk(f):
            if isinstance(c, ast.Call) and ast.unparse(c.func) == "_LICENSING.parse":
                opts = sorted(f"{kw.arg}={ast.unparse(kw.value)}" for kw in c.keywords) + [f"arg{i}={ast.unparse(a)}" for i, a in enumerate(c.args[1:], 1)]
                sites.append((fq, c, opts))
            elif isinstance(c, ast.Call) and ast.unparse(c.func) == "map" and c.args and ast.unparse(c.args[0]) == "_LICENSING.parse":
                sites.append((fq, c, []))
    r.floor(4, "parser call sites", got=len(sites))
    base = [] if any(not o for _, _, o in sites) else sites[0][2]
    for fq, c, opts in sites:
        r.instance(f"parse:{fq}", {"function": fq, "options": opts}, fq)
        if opts != base:
            r.violation(fq, f"the expression parser is called with {opts or 'no options'} here and with {base or 'no options'} elsewhere",
                        "the readers no longer accept the same expression language: text that one source attributes to a file is a parse"
                        " error (or another expression) in its sibling", repo.loc(c))


def run(ck: Check, repo: Repo) -> None:
    ck.explanation = (
        "R1: decision/effect table of the convert-dep5 command (refusal before any effect; write before unlink)."
        " R2: writer constants against reader constants (precedence value, TOML keys, version, line splitting,"
        " paragraph order). R3: for every legal dep5 glob over {a / * ? \\} up to the bound, the converter is"
        " summarised as re.sub(P, S, g) (after checking that its body is exactly that), the result is pushed"
        " through the transducer extracted for C05, and the resulting path language is compared with the DEP5"
        " reading by DFA equivalence (paths of any length). Deviations equal to the frozen model of the three"
        " recorded defects are reported as those known findings; any other deviation is a violation."
        " Not decided: equality of whole lint reports."
    )
    ck.not_decided = ["equality of complete lint reports before/after (run-time behaviour of python-debian and tomlkit)"]
    ck.trust("CPython ast", "re._parser", "stdlib re applied to two folded constants (converter summary)",
             "python-debian glob semantics as documented in DEP5 (* any string, ? any character, \\-escapes)",
             "sa/transducer.py", "sa/relang.py", "sa/tab.py")
    folder = Folder(repo)
    rule_order(ck, repo)
    rule_constants(ck, repo, folder)
    rule_globs(ck, repo, folder)
    rule_parser_options(ck, repo)
    # 'lint output is unchanged': the BEFORE side must really see dep5 - in a pool worker it is re-parsed from the
    # root-anchored path (shared with C14-R2)
    from . import c14
    c14.rule_pool(ck, repo, "R8")
