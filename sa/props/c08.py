"""C08 - annotate changes nothing but the header: reassembly table, newline plumbing, shebang order, partition, BOM."""
from __future__ import annotations

import ast
import re

from ..model import AnalysisError, Repo, kwarg, walk_no_nested
from ..report import Check
from ..rules import find_calls
from ..tab import Hooks, Valuation, show_valuation, tabulate

def _writes_to_written_file(fn) -> list:
    """`.write(...)` calls on the handle of an open(..., 'w') with-block of fn (whatever the handle is called)."""
    out = []
    for w in ast.walk(fn):
        if not isinstance(w, ast.With):
            continue
        for item in w.items:
            c = item.context_expr
            if isinstance(c, ast.Call) and ast.unparse(c.func).split(".")[-1] == "open" and item.optional_vars is not None \
                    and isinstance(item.optional_vars, ast.Name):
                mode = ast.unparse(c.args[1]) if len(c.args) > 1 else ast.unparse(kwarg(c, "mode") or ast.Constant("r"))
                if "w" in mode or "a" in mode or "x" in mode:
                    h = item.optional_vars.id
                    out += [x for x in ast.walk(w) if isinstance(x, ast.Call) and isinstance(x.func, ast.Attribute)
                            and x.func.attr == "write" and isinstance(x.func.value, ast.Name) and x.func.value.id == h]
    return out


def _ord(fn):
    from ..model import order_index
    key = id(fn)
    if key not in _ORD:
        _ORD[key] = order_index(fn)
    return _ORD[key]


_ORD: dict = {}

HD = "reuse.header"
AN = "reuse._annotate"


def flatten(text: str) -> list:
    """Flatten (nested) f-strings / concatenations into a list of constants and ('expr', text) parts."""
    node = ast.parse(text, mode="eval").body

    def rec(n) -> list:
        if isinstance(n, ast.Constant) and isinstance(n.value, str):
            return [n.value]
        if isinstance(n, ast.JoinedStr):
            out = []
            for v in n.values:
                if isinstance(v, ast.Constant):
                    out.append(v.value)
                elif isinstance(v, ast.FormattedValue) and v.conversion == -1 and v.format_spec is None:
                    out += rec(v.value)
                else:
                    out.append(("expr", ast.unparse(v)))
            return out
        if isinstance(n, ast.BinOp) and isinstance(n.op, ast.Add):
            return rec(n.left) + rec(n.right)
        return [("expr", ast.unparse(n))]

    parts = rec(node)
    merged: list = []
    for p in parts:
        if isinstance(p, str) and merged and isinstance(merged[-1], str):
            merged[-1] += p
        elif p != "":
            merged.append(p)
    return merged


def rule_place_header(ck: Check, repo: Repo, rid: str = "R1") -> None:
    r = ck.rule(rid, "place_header: blank-line policy table (only whitespace adjacent to the header may change)")
    q = f"{HD}.place_header"
    fn = repo.func(q)
    ck.analysed_fn(q)

    class H(Hooks):
        def atom(self, text, node, it):
            return {"before.strip()": "before", "after.strip()": "after", "has_existing_header": "existing",
                    "after.startswith('\\n')": "after_starts_nl"}.get(text)

    def ref(v: Valuation) -> list:
        parts: list = []
        if v("before"):
            parts += [("expr", "before.rstrip()"), "\n\n"]
        parts += [("expr", "header"), "\n"]
        if v("after"):
            if not v("existing") and not v("after_starts_nl"):
                parts.append("\n")
            parts.append(("expr", "after"))
        merged: list = []
        for p in parts:
            if isinstance(p, str) and merged and isinstance(merged[-1], str):
                merged[-1] += p
            else:
                merged.append(p)
        return merged

    leaves = tabulate(fn, H(), ref)
    r.floor(8, "cells of place_header", got=len(leaves))
    for d, leaf, exp in leaves:
        got = flatten(leaf.outcome[1]) if leaf.outcome[0] == "return" else leaf.outcome
        r.instance("cell:" + show_valuation(d), {"cell": show_valuation(d), "result": repr(got)})
        if got != exp:
            r.violation(q, f"[{show_valuation(d)}]", f"assembles {got}; the blank-line policy says {exp}", repo.loc(fn),
                        {"cell": d})
    # clause 'keeps the presence or absence of a final newline': when nothing follows the header, the assembled text ends
    # in the newline place_header appends itself; whether the ORIGINAL text ended in one is not among its inputs
    params = [a.arg for a in fn.args.args]
    tail_cells = [flatten(leaf.outcome[1]) for d, leaf, _ in leaves if leaf.outcome[0] == "return" and d.get("after") is False]
    forced = [c for c in tail_cells if c and isinstance(c[-1], str) and c[-1].endswith("\n")]
    r.instance("final-newline", {"cells_with_nothing_after": len(tail_cells), "end_in_appended_newline": len(forced), "parameters": params})
    if forced and not any(p in ("final_newline", "ends_with_newline", "trailing_newline", "text") for p in params):
        r.violation(q, "final newline added when nothing follows the header",
                    "a file that consists of its header alone and has no final newline (`# SPDX-License-Identifier: MIT` without"
                    " `\\n`) is written back with one: the newline after the header is unconditional and place_header is not told"
                    " how the original text ended", repo.loc(fn))


def rule_newlines(ck: Check, repo: Repo) -> None:
    r = ck.rule("R2", "line-ending plumbing: read raw, detect before normalising, write back with the detected convention")
    q = f"{AN}.add_header_to_file"
    fn = repo.func(q)
    ck.analysed_fn(q, "reuse.extract.detect_line_endings")
    opens = [c for c in ast.walk(fn) if isinstance(c, ast.Call) and ast.unparse(c.func) == "open"]
    reads = [c for c in opens if len(c.args) > 1 and ast.unparse(c.args[1]) == "'r'"]
    writes = [c for c in opens if len(c.args) > 1 and ast.unparse(c.args[1]) == "'w'"]
    r.instance("opens", {"read": [ast.unparse(c) for c in reads], "write": [ast.unparse(c) for c in writes]})
    if len(reads) != 1 or len(writes) != 1:
        raise AnalysisError("add_header_to_file: expected one read and one write open()")
    rd, wr = reads[0], writes[0]
    if ast.unparse(kwarg(rd, "newline") or ast.Constant(None)) != "''":
        r.violation(q, "file is not read with newline=''", "universal-newline translation would hide CRLF / CR endings",
                    repo.loc(rd))
    rd_err = next((ast.unparse(kw.value) for kw in rd.keywords if kw.arg == "errors"), None)
    if rd_err is not None and rd_err != "'strict'":
        r.violation(q, f"the file is read with errors={rd_err}",
                    "a byte that is not valid UTF-8 (a Latin-1 é in a comment) is replaced while reading and the replacement is written"
                    " back: lines outside the header change although annotate reports success (strict reading refuses such a file"
                    " and leaves it untouched)", repo.loc(rd))
    if ast.unparse(rd.args[0]) != ast.unparse(wr.args[0]):
        r.violation(q, "the file written is not the file read", f"{ast.unparse(rd.args[0])} vs {ast.unparse(wr.args[0])}", repo.loc(wr))
    for c in (rd, wr):
        if ast.unparse(kwarg(c, "encoding") or ast.Constant(None)) != "'utf-8'":
            r.violation(q, "encoding", f"{ast.unparse(c)}", repo.loc(c))
    stmts = list(walk_no_nested(fn))
    det = [n for n in stmts if isinstance(n, ast.Assign) and ast.unparse(n.value) == "detect_line_endings(text)"]
    if len(det) != 1:
        r.violation(q, "line endings are not detected from the text read", "", repo.loc(fn))
        return
    var = ast.unparse(det[0].targets[0])
    norm = [n for n in stmts if isinstance(n, ast.Assign) and ast.unparse(n.targets[0]) == "text" and
            isinstance(n.value, ast.Call) and ast.unparse(n.value.func) == "text.replace"]
    r.instance("normalisation", {"variable": var, "replace": [ast.unparse(n.value) for n in norm]})
    if len(norm) != 1 or [ast.unparse(a) for a in norm[0].value.args] != [var, "'\\n'"]:
        r.violation(q, "normalisation does not replace exactly the detected line ending by \\n",
                    f"{[ast.unparse(n.value) for n in norm]}", repo.loc(fn))
    elif not (_ord(fn)[id(rd)] < _ord(fn)[id(det[0])] < _ord(fn)[id(norm[0])] < _ord(fn)[id(wr)]):
        r.violation(q, "line endings are detected after normalisation (or after the write)",
                    "detection must see the raw text", repo.loc(det[0]))
    # the text knows only "\n" AFTER the normalisation: a question about "\n" asked of the raw text (final newline? empty
    # line?) gets the wrong answer for CR and CRLF files
    if len(norm) == 1:
        pos = _ord(fn)
        for x in ast.walk(fn):
            probe = None
            if isinstance(x, ast.Call) and isinstance(x.func, ast.Attribute) and x.func.attr in ("endswith", "startswith", "rstrip", "lstrip", "strip", "split", "count", "find", "index") \
                    and ast.unparse(x.func.value) == "text" and x.args and isinstance(x.args[0], ast.Constant) and x.args[0].value == "\n":
                probe = x
            elif isinstance(x, ast.Compare) and isinstance(x.left, ast.Constant) and x.left.value == "\n" and ast.unparse(x.comparators[0]) == "text":
                probe = x
            if probe is not None:
                before = pos[id(probe)] < pos[id(norm[0])]
                r.instance(f"newline-probe:{ast.unparse(probe)[:40]}", {"probe": ast.unparse(probe)[:60], "before_normalisation": before})
                if before:
                    r.violation(q, f"`{ast.unparse(probe)[:50]}` is asked of the text before its line endings are normalised",
                                "a file with CR-only endings ends in `\\r`: it is taken for a file without final newline (or without lines) and"
                                " what is decided on that - here: stripping the trailing newlines of the output - removes the file's own final"
                                " line ending", repo.loc(probe))
    if ast.unparse(kwarg(wr, "newline") or ast.Constant(None)) != var:
        r.violation(q, "file is not written back with the detected line ending",
                    f"open(..., 'w', newline={ast.unparse(kwarg(wr, 'newline') or ast.Constant(None))})", repo.loc(wr))
    # the write receives the assembled output
    w = _writes_to_written_file(fn)
    from ..rules import deep_text as _deep
    if [ast.unparse(c.args[0]) for c in w] not in (["output"], ["bom + output"]) and \
            [_deep(fn, c.args[0]) for c in w] not in ([_deep(fn, "output")], [_deep(fn, "bom + output")]):
        r.violation(q, "written text", f"{[ast.unparse(c) for c in w]}", repo.loc(fn))
    kind, problems, facts = detect_model(repo)
    r.instance("detect_line_endings", {"kind": kind, **facts})
    dl = repo.func("reuse.extract.detect_line_endings")
    for what, detail in problems:
        r.violation("reuse.extract.detect_line_endings", what, detail, repo.loc(dl))


def detect_model(repo: Repo):
    """How detect_line_endings decides, read from its syntax tree.  Two families are recognised:
    'presence' - the first ending of a priority list that occurs anywhere in the text wins;
    'count'    - the most frequent ending wins (CRLF occurrences subtracted from the CR and LF counts).
    Anything else cannot be decided here."""
    from ..rules import param_names, resolve_deep
    dl = repo.func("reuse.extract.detect_line_endings")
    text = param_names(dl)[0]
    CRLF, CR, LF = "\r\n", "\r", "\n"
    problems: list[tuple[str, str]] = []
    rets = [n for n in ast.walk(dl) if isinstance(n, ast.Return) and n.value is not None]
    default_ok = any(ast.unparse(n.value) in ("os.linesep", "linesep") for n in rets)
    allc = [c for c in ast.walk(dl) if isinstance(c, ast.Call) and isinstance(c.func, ast.Attribute) and c.func.attr == "count"
            and len(c.args) == 1 and isinstance(c.args[0], ast.Constant) and c.args[0].value in (CRLF, CR, LF)]
    partial = sorted({ast.unparse(resolve_deep(dl, c.func.value)) for c in allc} - {text})
    counts = allc
    if partial:
        problems.append((f"line endings are detected from {partial[0]}, not from the whole text read",
                         "a file whose line breaks lie outside that part is given os.linesep / the wrong convention: the text is then"
                         " not normalised and written back with another ending"))
    if counts:
        # ---- count family: ending -> resolved count expression
        table: dict[str, str] = {}
        for n in ast.walk(dl):
            if isinstance(n, ast.Dict) and all(isinstance(k, ast.Constant) and isinstance(k.value, str) for k in n.keys):
                for k, v in zip(n.keys, n.values):
                    table[k.value] = ast.unparse(resolve_deep(dl, v))
                    for pt in partial:
                        table[k.value] = table[k.value].replace(pt + ".count(", text + ".count(")
        if set(table) != {CRLF, CR, LF}:
            raise AnalysisError("detect_line_endings counts occurrences but the ending -> count table was not recognised")
        c = lambda e: f"{text}.count({e!r})"  # noqa: E731
        want = {CRLF: {c(CRLF)}, CR: {f"{c(CR)} - {c(CRLF)}"}, LF: {f"{c(LF)} - {c(CRLF)}"}}
        for e in (CRLF, CR, LF):
            if table[e] not in want[e]:
                problems.append((f"count of {e!r} is {table[e]}",
                                 "every CRLF also contains a CR and an LF: unless the CRLF count is subtracted, a CRLF file with one stray"
                                 " CR or LF is taken for a CR / LF file and every line ending is rewritten"))
        sel = [c2 for c2 in ast.walk(dl) if isinstance(c2, ast.Call) and ast.unparse(c2.func) in ("max", "min", "sorted")]
        if [ast.unparse(c2.func) for c2 in sel] != ["max"]:
            problems.append(("the most frequent ending is not selected with max()", f"{[ast.unparse(c2) for c2 in sel]}"))
        zero = [n for n in ast.walk(dl) if isinstance(n, ast.If) and any(isinstance(x, ast.Return) and ast.unparse(x.value) in ("os.linesep", "linesep")
                                                                          for st in n.body for x in ast.walk(st))]
        if not zero and not default_ok:
            problems.append(("no line ending at all must give os.linesep", ""))
        return "count", problems, {"table": table, "default_os_linesep": default_ok}
    # ---- presence family: priority list
    order: list[str] = []
    for n in ast.walk(dl):
        if isinstance(n, ast.For):
            it = resolve_deep(dl, n.iter)
            if isinstance(it, (ast.List, ast.Tuple)) and all(isinstance(e, ast.Constant) for e in it.elts):
                order = [e.value for e in it.elts]
    if not order:
        for n in ast.walk(dl):
            if isinstance(n, ast.If) and isinstance(n.test, ast.Compare) and isinstance(n.test.ops[0], ast.In) \
                    and isinstance(n.test.left, ast.Constant) and ast.unparse(n.test.comparators[0]) == text:
                order.append(n.test.left.value)
    if sorted(order) != sorted([CRLF, CR, LF]):
        raise AnalysisError("detect_line_endings: neither the presence nor the count family was recognised")
    hay = sorted({ast.unparse(resolve_deep(dl, n.comparators[0])) for n in ast.walk(dl) if isinstance(n, ast.Compare) and len(n.ops) == 1
                  and isinstance(n.ops[0], ast.In)} - {text})
    if hay:
        problems.append((f"line endings are detected from {hay[0]}, not from the whole text read",
                         "a file whose line breaks lie outside that part is given os.linesep / the wrong convention"))
    if order[0] != CRLF:
        problems.append(("detection order", "CRLF must be tested before CR and LF (it contains both); first match wins"))
    if not default_ok:
        problems.append(("no line ending at all must give os.linesep", ""))
    first = CR if order.index(CR) < order.index(LF) else LF
    other = LF if first == CR else CR
    problems.append((f"a text that contains both {CR!r} and {LF!r} is declared {first!r} by mere presence",
                     f"`a = 1\\nb = \"x\\ry\"\\nc = 3\\n` (an LF file with one stray CR in a string literal): detection answers {first!r}, every"
                     f" {first!r} is normalised and the file is written back with {first!r} endings throughout - presence cannot tell the"
                     f" convention of the file from a stray {other!r}/{first!r}; the endings have to be counted"))
    return "presence", problems, {"priority": order, "default_os_linesep": default_ok}


def _stmt_chain(loop: ast.For, node: ast.AST) -> list:
    """[(statement list, index)] from the loop body down to the statement that contains *node*."""
    chain = []

    def find(stmts):
        for i, st in enumerate(stmts):
            if node is st or any(node is x for x in ast.walk(st)):
                chain.append((stmts, i))
                for fld in ("body", "orelse", "finalbody"):
                    sub = getattr(st, fld, None)
                    if isinstance(sub, list) and sub and isinstance(sub[0], ast.stmt) and any(node is x for s2 in sub for x in ast.walk(s2)):
                        find(sub)
                return

    find(loop.body)
    return chain


def _leaves_after(loop: ast.For, call: ast.Call) -> bool:
    """After the statement containing *call*, does the path reach break / return before the loop body ends?"""
    chain = _stmt_chain(loop, call)
    for stmts, i in reversed(chain):
        for st in stmts[i + 1:]:
            if isinstance(st, (ast.Break, ast.Return)):
                return True
            if isinstance(st, ast.Continue):
                return False
    return False


def _guard_of(loop: ast.For, call: ast.Call):
    """The test of the innermost `if` whose BODY contains *call* (None when unguarded or in an else branch)."""
    best = None
    for n in ast.walk(loop):
        if isinstance(n, ast.If) and any(call is x for st in n.body for x in ast.walk(st)):
            best = n.test
    return best


def _leaves_loop_without_match(stmts: list) -> bool:
    """Does the path through *stmts* on which every `if` test is FALSE reach a break / return?"""
    for st in stmts:
        if isinstance(st, (ast.Break, ast.Return)):
            return True
        if isinstance(st, ast.Continue):
            return False
        if isinstance(st, ast.If):
            # the no-match path takes the else branch
            if st.orelse:
                sub = _leaves_loop_without_match(st.orelse)
                if sub:
                    return True
                if st.orelse and isinstance(st.orelse[-1], ast.Continue):
                    return False
                # an elif chain whose last else continues
                if _always_continues(st.orelse):
                    return False
    return False


def _always_continues(stmts: list) -> bool:
    if not stmts:
        return False
    last = stmts[-1]
    if isinstance(last, ast.Continue):
        return True
    if isinstance(last, ast.If) and last.orelse:
        return _always_continues(last.orelse)
    return False


def rule_shebang(ck: Check, repo: Repo, rid: str = "R3") -> None:
    r = ck.rule(rid, "a shebang / first-line declaration is extracted before the header is created and stays first")
    for name, arg0 in (("find_and_replace_header", "new_header"), ("add_new_header", "header")):
        q = f"{HD}.{name}"
        fn = repo.func(q)
        ck.analysed_fn(q)
        ex = find_calls(fn, lambda c, f: f == "_extract_shebang")
        ch = find_calls(fn, lambda c, f: f == "create_header")
        ph = find_calls(fn, lambda c, f: f == "place_header")
        r.instance(q, {"extract_calls": len(ex), "create": len(ch), "place": len(ph)})
        if not ex or len(ch) != 1 or len(ph) != 1:
            r.violation(q, "shebang handling vanished", f"extract={len(ex)} create={len(ch)} place={len(ph)}", repo.loc(fn))
            continue
        if not all(_ord(fn)[id(e)] < _ord(fn)[id(ch[0])] for e in ex) or not _ord(fn)[id(ch[0])] < _ord(fn)[id(ph[0])]:
            r.violation(q, "header is created before the shebang is extracted",
                        "the shebang would end up inside / below the comment block", repo.loc(ch[0]))
        from ..rules import deep_text
        pa = [deep_text(fn, a) for a in ph[0].args]
        created = deep_text(fn, ch[0])
        want = [created, "before", "after", "bool(header)"] if name == "find_and_replace_header" else [created, "shebang", "text", "False"]
        if pa != want:
            r.violation(q, "place_header operands", f"{pa}; expected {['<the created header>'] + want[1:]}", repo.loc(ph[0]))
        # the style's declaration table is consulted: a loop over it, or a generator over it handed to next()
        _tbl = r"\w+\.SHEBANGS( or (\(\)|\[\]))?"        # `style.SHEBANGS or ()` walks the same table
        table_loops = [n for n in ast.walk(fn) if isinstance(n, ast.For) and re.fullmatch(_tbl, ast.unparse(n.iter))]
        table_gens = [g for n in ast.walk(fn) if isinstance(n, ast.GeneratorExp) for g in n.generators
                      if re.fullmatch(_tbl, ast.unparse(g.iter))]
        r.instance(f"shebang-table:{name}", {"loops": len(table_loops), "generators": len(table_gens)}, q)
        if not table_loops and not table_gens:
            r.violation(q, "shebang table not consulted", "", repo.loc(fn))
        for g in table_gens:
            # first entry the text starts with (`next((p for p in style.SHEBANGS if text.startswith(p)), None)`): same choice as
            # the loop that breaks at the first match; any other filter is a shape this rule has no table for
            v = ast.unparse(g.target)
            if [ast.unparse(t) for t in g.ifs] != [f"{want[2] if name == 'add_new_header' else 'after'}.startswith({v})"] \
                    and [ast.unparse(t) for t in g.ifs] != [f"text.startswith({v})"]:
                raise AnalysisError(f"{name}: the declaration table is searched by a generator whose filter"
                                    f" {[ast.unparse(t)[:50] for t in g.ifs]} is not the plain `text.startswith(entry)` test (shape not enumerated)")
        # the operands handed to place_header are bound ONLY by the finder, by constants and by _extract_shebang: another
        # mechanism that moves text above (or out of) the header is a new feature this rule has no table for
        watched = set(want[1:3])
        for st in ast.walk(fn):
            tgts = []
            if isinstance(st, ast.Assign):
                tgts = [(t, st.value) for t in st.targets]
            elif isinstance(st, (ast.AugAssign, ast.AnnAssign)) and st.value is not None:
                tgts = [(st.target, st.value)]
            for t, val in tgts:
                names = {n.id for n in ast.walk(t) if isinstance(n, ast.Name)}
                if not names & watched:
                    continue
                src_ok = isinstance(val, ast.Constant) or (isinstance(val, ast.Call) and ast.unparse(val.func) in ("_extract_shebang", "_find_first_spdx_comment")) \
                    or (isinstance(val, ast.Tuple) and all(isinstance(e, (ast.Constant, ast.Name)) for e in val.elts)) and not isinstance(st, ast.AugAssign)
                if isinstance(st, ast.AugAssign) or not src_ok:
                    raise AnalysisError(f"{name}: `{ast.unparse(st)[:70]}` moves text above or out of the header by a mechanism other than the"
                                        " style's SHEBANGS table; whether that text is found again on the next run is not decided")
    shebang_decision(r, repo)
    # every entry of the style's SHEBANGS table is tried: the loop over the table is left (break / return) only from a
    # branch that matched - a `break` reached by the no-match path stops after the FIRST entry (`<?xml` is tried, `<!DOCTYPE`
    # never)
    for name in ("find_and_replace_header", "add_new_header"):
        q = f"{HD}.{name}"
        fn = repo.func(q)
        for lp in ast.walk(fn):
            if isinstance(lp, ast.For) and re.fullmatch(r"\w+\.SHEBANGS", ast.unparse(lp.iter)):
                bad = _leaves_loop_without_match(lp.body)
                r.instance(f"shebang-loop:{name}", {"function": q, "no_match_path_leaves_the_loop": bad}, q)
                # ... and a branch that extracted leaves the loop: a second extraction would overwrite the first (`shebang, text =
                # _extract_shebang(...)` rebinds the kept declaration) - `<?xml …?>` is lost when `<!DOCTYPE` follows it
                for call in [c for c in ast.walk(lp) if isinstance(c, ast.Call) and ast.unparse(c.func) == "_extract_shebang"]:
                    if not _leaves_after(lp, call):
                        r.violation(q, "the loop goes on after a declaration was extracted",
                                    "the next matching entry of SHEBANGS extracts again and rebinds the kept text: the declaration extracted"
                                    " first is dropped from the file", repo.loc(call))
                    # the extraction is guarded by the POSITIVE test that the text starts with this entry
                    guard = _guard_of(lp, call)
                    r.instance(f"shebang-guard:{name}:{ast.unparse(guard)[:40] if guard is not None else None}", {"function": q}, q)
                    if guard is not None and isinstance(guard, ast.UnaryOp) and isinstance(guard.op, ast.Not) and ".startswith(" in ast.unparse(guard):
                        r.violation(q, "the extraction runs when the text does NOT start with the declaration",
                                    f"`{ast.unparse(guard)[:60]}`: a shebang is never moved above the header - the header is inserted in front of it",
                                    repo.loc(call))
                if bad:
                    r.violation(q, "the declaration table is not walked to its end",
                                "the path on which the current entry does not match reaches a `break`: only the first entry of SHEBANGS is"
                                " ever tried, a file that begins with a later entry loses its first-line position", repo.loc(lp))
    extraction_model(r, repo)


LINE_SPLITTERS_LF = "io.StringIO(text) / StringIO(text), re.split(r'(?<=\\n)', text)"


def _line_iter_kind(it: ast.AST, param: str) -> str:
    """How an iterable cuts *param* into lines that keep their ends: 'lf' (only "\n" ends a line), 'wide'
    (str.splitlines: also \r, \v, \f, \x1c-\x1e, \x85, U+2028, U+2029) or '?'."""
    t = ast.unparse(it)
    if isinstance(it, ast.Call):
        f = ast.unparse(it.func)
        if f in ("StringIO", "io.StringIO") and len(it.args) == 1 and ast.unparse(it.args[0]) == param and not it.keywords:
            return "lf"       # newline="\n" is StringIO's default: no translation, lines end at "\n" only
        if f in ("re.split",) and len(it.args) == 2 and isinstance(it.args[0], ast.Constant) and it.args[0].value in ("(?<=\n)", "(?<=\\n)") \
                and ast.unparse(it.args[1]) == param:
            return "lf"
        if isinstance(it.func, ast.Attribute) and it.func.attr == "splitlines" and ast.unparse(it.func.value) == param:
            keep = (it.args and isinstance(it.args[0], ast.Constant) and it.args[0].value is True) or \
                   any(k.arg == "keepends" and isinstance(k.value, ast.Constant) and k.value.value is True for k in it.keywords)
            return "wide" if keep else "wide-noends"
    return "?"


def extraction_model(r, repo: Repo) -> None:
    """_extract_shebang(prefix, text) -> (S, R): S is the maximal run of leading lines that start with the prefix, ends
    included, R the rest, S + R == text.  The idioms are enumerated; another shape is not decided (exit 2)."""
    q = f"{HD}._extract_shebang"
    es = repo.func(q)
    params = [a.arg for a in es.args.args]
    if len(params) != 2:
        raise AnalysisError("_extract_shebang: signature changed")
    prefix, text = params
    loops = [n for n in es.body if isinstance(n, ast.For)]
    if len(loops) != 1 or not isinstance(loops[0].target, ast.Name):
        raise AnalysisError("_extract_shebang: not one loop over the lines of the text (shape not enumerated)")
    loop = loops[0]
    line = loop.target.id
    kind = _line_iter_kind(loop.iter, text)
    body = [st for st in loop.body if not (isinstance(st, ast.Expr) and isinstance(st.value, ast.Constant))]
    shape_ok = len(body) == 1 and isinstance(body[0], ast.If) and ast.unparse(body[0].test) == f"{line}.startswith({prefix})" \
        and len(body[0].orelse) == 1 and isinstance(body[0].orelse[0], ast.Break) and not loop.orelse
    acc = None
    removed = False
    if shape_ok:
        for st in body[0].body:
            u = ast.unparse(st)
            m = re.fullmatch(rf"(\w+)\.append\({line}\)", u)
            if m:
                acc = m.group(1)
            elif u in (f"{text} = {text}.replace({line}, '', 1)", f"{text} = {text}[len({line}):]", f"{text} = {text}.removeprefix({line})"):
                removed = True
            else:
                shape_ok = False
    from ..rules import deep_text as _dt
    rets = [_dt(es, n.value) for n in ast.walk(es) if isinstance(n, ast.Return) and n.value is not None]
    ret_ok = acc is not None and rets == [f"(''.join({acc}), {text})"]
    r.instance("_extract_shebang", {"line_iterator": ast.unparse(loop.iter), "line_model": kind, "shape": bool(shape_ok and removed and ret_ok)})
    if kind == "?":
        raise AnalysisError(f"_extract_shebang: how `{ast.unparse(loop.iter)}` cuts the text into lines is not in the table ({LINE_SPLITTERS_LF};"
                            " str.splitlines)")
    if kind == "wide-noends" or not (shape_ok and removed and ret_ok):
        r.violation(q, "extraction", "leading lines with the prefix are moved (kept verbatim, ends included) and the rest is returned unchanged",
                    repo.loc(es))
        return
    if kind == "wide":
        r.violation(q, "a first line is cut at a separator other than the newline",
                    "str.splitlines also ends a line at \\f, \\v, \\x1c-\\x1e, \\x85, U+2028 and U+2029, which add_header_to_file does not treat as line"
                    " endings: for `#!/bin/sh\\x0c -e\\necho hi\\n` only `#!/bin/sh\\x0c` is moved above the header, ` -e` stays below it and"
                    " place_header's rstrip() drops the form feed - a line outside the header is split and changed", repo.loc(loop.iter))


def shebang_decision(r, repo: Repo) -> None:
    """find_and_replace_header: a first-line declaration is split off the found HEADER block only when nothing but
    blanks precedes that block, and off the rest of the text only when nothing at all precedes it.  Decided as a table
    over {header starts with it, text before is blank, rest starts with it, anything before}."""
    q = f"{HD}.find_and_replace_header"
    fn = repo.func(q)

    class H(Hooks):
        def atom(self, text, node, it):
            t = text.replace("__in_loop", "")
            if re.fullmatch(r"\w+\.SHEBANGS", t):
                return "@style_has_declarations"
            if t == "header.startswith(shebang)":
                return "@header_starts_with_it"
            if t == "after.startswith(shebang)":
                return "@rest_starts_with_it"
            if t == "before.strip()":
                return "@text_before_not_blank"
            if t in ("any(before, header)", "any((before, header))", "before or header"):
                return "@something_before"
            return None

        def event(self, text, call, it):
            if ast.unparse(call.func) == "_extract_shebang":
                return ("extract", [it.text(a).replace("__in_loop", "") for a in call.args])
            return None

        def raises(self, text, call, it):
            return []

    def ref(v):
        if not v("@style_has_declarations"):
            return []
        if v("@header_starts_with_it") and not v("@text_before_not_blank"):
            return [("extract", ["shebang", "header"])]
        if v("@rest_starts_with_it") and not v("@something_before"):
            return [("extract", ["shebang", "after"])]
        return []

    leaves = tabulate(fn, H(), ref)
    seen = set()
    n = 0
    for d, leaf, exp in leaves:
        short = {k.split("::")[-1]: v for k, v in d.items()
                 if k.split("::")[-1] in ("@style_has_declarations", "@header_starts_with_it", "@rest_starts_with_it", "@text_before_not_blank", "@something_before")
                 or (k.split("::")[-1].startswith("?") and "shebang" in k)}
        if not d.get("@style_has_declarations"):
            continue  # style without first-line declarations: the loop is not entered
        got = []
        for e in leaf.events:
            while e[0] == "each":
                e = e[2]
            if e[0] == "extract":
                got.append(e)
        key = (tuple(sorted(short.items())), repr(got))
        if key in seen:
            continue
        seen.add(key)
        n += 1
        r.instance("shebang-cell:" + show_valuation(short), {"valuation": show_valuation(short), "moved": [g[1] for g in got]})
        if got != exp:
            free = [a[1:] for a in short if a.startswith("?")]
            r.violation(q, f"[{show_valuation(short)}] first-line declaration handling",
                        f"moves {[g[1] for g in got]}; the specification says {[g[1] for g in exp]}"
                        + (f" - the decision depends on {free[0]!r}; a declaration may be split off a block only when nothing"
                           f" (but blanks) precedes THAT block, otherwise everything in front of it is overwritten" if free else ""),
                        f"{repo.module(HD).rel}:{leaf.trace[-1] if leaf.trace else fn.lineno}", {"valuation": d})
    r.floor(4, "first-line declaration cells", got=n)



def rule_partition(ck: Check, repo: Repo, rid: str = "R4") -> None:
    r = ck.rule(rid, "_find_first_spdx_comment partitions the text: before + comment + newline + after == text")
    q = f"{HD}._find_first_spdx_comment"
    fn = repo.func(q)
    ck.analysed_fn(q)
    from ..rules import deep_text as _dt4
    rets = [n for n in ast.walk(fn) if isinstance(n, ast.Return) and isinstance(n.value, ast.Call)]
    txt = [_dt4(fn, a) for a in rets[0].value.args] if rets else []      # cut points named by locals are read through
    r.instance(q, {"sections": txt})
    _p0 = fn.args.args[0].arg if fn.args.args else "text"
    _loops = [n for n in ast.walk(fn) if isinstance(n, ast.For) and isinstance(n.target, ast.Name)]
    _idx = _loops[0].target.id if _loops else "index"
    _cv = [ast.unparse(n.targets[0]) for n in ast.walk(fn) if isinstance(n, ast.Assign) and isinstance(n.value, ast.Call)
           and isinstance(n.value.func, ast.Attribute) and n.value.func.attr == "comment_at_first_character"]
    _cv = _cv[0] if _cv else "comment"
    if txt != [_dt4(fn, e) for e in (f"{_p0}[:{_idx}]", f"{_cv} + '\\n'", f"{_p0}[{_idx} + len({_cv}) + 1:]")]:
        r.violation(q, "sections are not a partition of the text", f"{txt}", repo.loc(fn))
    src = ast.unparse(fn)
    from ..rules import has, single_assign_value
    calls = [c for c in ast.walk(fn) if isinstance(c, ast.Call) and isinstance(c.func, ast.Attribute)
             and c.func.attr == "comment_at_first_character" and len(c.args) == 1]
    args = []
    for c in calls:
        a = c.args[0]
        if isinstance(a, ast.Name):
            a = single_assign_value(fn, a.id) or a
        args.append(ast.unparse(a))
    p0 = fn.args.args[0].arg if fn.args.args else "text"
    loops = [n for n in ast.walk(fn) if isinstance(n, ast.For) and isinstance(n.target, ast.Name)]
    idx = loops[0].target.id if loops else "index"
    r.instance("comment-search", {"searched_text": args, "loop_variable": idx})
    if len(calls) != 1 or args != [f"{p0}[{idx}:]"]:
        r.violation(q, f"the comment parser does not see the whole rest of the text ({args})",
                    f"comment_at_first_character must receive {p0}[{idx}:] - a bounded window cuts long headers, the block is no longer"
                    f" recognised as the header the tool wrote and the next run stacks a second one", repo.loc(calls[0] if calls else fn))
    # the candidates are the line starts: the loop walks (through whatever local) _indices_of_newlines(<the text>)
    if not (loops and _dt4(fn, loops[0].iter) == f"_indices_of_newlines({p0})"):
        r.violation(q, "comment blocks are not searched at line starts", "every line start must be a candidate", repo.loc(fn))
    # len(comment) is used as an offset into the text: every comment_at_first_character must return a PREFIX of its
    # argument (unmodified lines joined by the newline that separated them)
    from ..fold import Folder  # noqa: F401  (kept local: c08 has no folder otherwise)
    n_impl = 0
    for cq, cfn in sorted(repo.functions.items()):
        if not cq.endswith(".comment_at_first_character"):
            continue
        n_impl += 1
        p_text = cfn.args.args[1].arg if len(cfn.args.args) > 1 else "text"
        forms = []
        for rt in [n for n in ast.walk(cfn) if isinstance(n, ast.Return) and n.value is not None]:
            v = rt.value

            def resolve(e):
                class T(ast.NodeTransformer):
                    def visit_Name(self, n):
                        if isinstance(n.ctx, ast.Load) and n.id != p_text:
                            d = single_assign_value(cfn, n.id)
                            if d is not None and not isinstance(d, ast.Constant):
                                import copy
                                return self.visit(copy.deepcopy(d))
                        return n
                import copy
                return ast.unparse(T().visit(copy.deepcopy(e)))

            txt = resolve(v)
            ok = txt == p_text or re.fullmatch(re.escape(f"'\\n'.join({p_text}.splitlines()[:") + r"[^\]]+\]\)", txt) is not None \
                or re.fullmatch(re.escape(f"{p_text}[:") + r"[^\]]+\]", txt) is not None \
                or txt == f"super().comment_at_first_character({p_text})" \
                or re.fullmatch(re.escape("'\\n'.join(") + r"(list\()?takewhile\(.+, " + re.escape(f"{p_text}.splitlines()") + r"\)\)?\)", txt, re.S) is not None
            # (plain delegation is as good as the base it delegates to; a takewhile over the lines is a leading run of them)
            forms.append((txt, ok))
            if not ok:
                r.violation(cq, "the returned block is not a prefix of the text",
                            f"returns {txt}: _find_first_spdx_comment cuts the text at len(comment); a block whose lines were altered"
                            f" (stripped, re-joined differently) shifts the cut and characters of the old header leak into the body",
                            repo.loc(rt))
        mutated = [n for n in ast.walk(cfn) if isinstance(n, ast.Call) and isinstance(n.func, ast.Attribute)
                   and n.func.attr in ("append", "insert", "pop", "remove", "sort", "reverse", "clear", "extend")
                   and isinstance(n.func.value, ast.Name) and isinstance(single_assign_value(cfn, n.func.value.id), ast.Call)
                   and ast.unparse(single_assign_value(cfn, n.func.value.id)) == f"{p_text}.splitlines()"]
        for mnode in mutated:
            r.violation(cq, "the line list is modified before the block is re-joined", ast.unparse(mnode)[:80], repo.loc(mnode))
        r.instance(f"prefix:{cq}", {"function": cq, "returns": [t for t, _ in forms], "all_prefixes": all(o for _, o in forms)}, cq)
    r.floor(2, "comment_at_first_character implementations", got=n_impl)
    # the multi-line scan must recognise the closing delimiter also when blanks follow it on the line: otherwise the
    # "block" runs on to the next line that happens to end in the delimiter and everything in between is deleted
    cf = repo.func(f"reuse.comment.CommentStyle.comment_at_first_character")
    ends = [n for n in ast.walk(cf) if isinstance(n, ast.If) and "MULTI_LINE.end" in ast.unparse(n.test)
            and any(isinstance(b, ast.Break) for b in n.body)]
    for n in ends:
        t = ast.unparse(n.test)
        lv = next((x.id for x in ast.walk(n.test) if isinstance(x, ast.Name) and x.id not in ("cls", "self")), "line")
        tolerant = t in (f"{lv}.rstrip().endswith(cls.MULTI_LINE.end)", f"cls.MULTI_LINE.end in {lv}", f"{lv}.strip().endswith(cls.MULTI_LINE.end)")
        r.instance("multi-line-end-test", {"test": t, "tolerates_trailing_blanks": tolerant}, "reuse.comment.CommentStyle.comment_at_first_character")
        if not tolerant:
            r.violation("reuse.comment.CommentStyle.comment_at_first_character", f"the end of a multi-line block is tested with `{t}`",
                        "a closing delimiter followed by blanks (`*/ `) is not seen; the header block then extends to the next line"
                        " ending in the delimiter and the code in between is deleted when the header is replaced", repo.loc(n))
    if not ends:
        raise AnalysisError("comment_at_first_character: multi-line end test not found")
    if "if contains_reuse_info(comment):" not in src:
        r.violation(q, "first block WITH REUSE information", "only a comment block that contains REUSE info is the header", repo.loc(fn))


def rule_bom(ck: Check, repo: Repo) -> None:
    r = ck.rule("R5", "byte order mark: necessary condition - the annotate path must mention a BOM to keep it first")
    funcs = [f"{AN}.add_header_to_file", f"{HD}.find_and_replace_header", f"{HD}.add_new_header", f"{HD}.place_header",
             f"{HD}._find_first_spdx_comment", f"{HD}.create_header", f"{HD}._create_new_header", f"{HD}._extract_shebang",
             "reuse.comment.CommentStyle.comment_at_first_character", "reuse.extract.detect_line_endings"]
    consts: list[str] = []
    # a module-level name for the mark (`_BOM = "\ufeff"`) is read as the literal it stands for
    import copy as _copy
    _mod = repo.module(AN)
    _named = {t.id: st.value for st in _mod.tree.body if isinstance(st, (ast.Assign, ast.AnnAssign)) and st.value is not None
              and isinstance(st.value, ast.Constant) and isinstance(st.value.value, str)
              for t in (st.targets if isinstance(st, ast.Assign) else [st.target]) if isinstance(t, ast.Name)}

    class _Lit(ast.NodeTransformer):
        def visit_Name(self, n):
            if isinstance(n.ctx, ast.Load) and n.id in _named:
                return ast.copy_location(ast.Constant(value=_named[n.id].value), n)
            return n

    def _with_literals(f):
        if not any(isinstance(n, ast.Name) and n.id in _named for n in ast.walk(f)):
            return f
        g = _Lit().visit(_copy.deepcopy(f))
        # `text[len('\ufeff'):]` is `text[1:]`
        for n in ast.walk(g):
            if isinstance(n, ast.Slice) and isinstance(n.lower, ast.Call) and ast.unparse(n.lower.func) == "len" and len(n.lower.args) == 1 \
                    and isinstance(n.lower.args[0], ast.Constant) and isinstance(n.lower.args[0].value, str):
                n.lower = ast.Constant(value=len(n.lower.args[0].value))
        return ast.fix_missing_locations(g)

    for q in funcs:
        for n in ast.walk(_with_literals(repo.func(q)) if q.startswith(AN + ".") else repo.func(q)):
            if isinstance(n, ast.Constant) and isinstance(n.value, str):
                consts.append(n.value)
            if isinstance(n, ast.Attribute) and n.attr.startswith("BOM"):
                consts.append("codecs." + n.attr)
    r.count(len(consts), prefix="const")
    if "utf-8" not in consts:
        raise AnalysisError("C08-R5 positive control failed: 'utf-8' constant not seen on the annotate path")
    hit = [c for c in consts if "\ufeff" in c or "utf-8-sig" in c.lower() or c.startswith("codecs.BOM")]
    r.instance("bom-mentions", {"functions": len(funcs), "string_constants": len(consts), "bom_mentions": hit})
    if not hit:
        r.violation(f"{AN}.add_header_to_file", "no BOM handling on the annotate path",
                    "the file is decoded as plain utf-8 (the BOM becomes U+FEFF at the start of the text) and place_header puts"
                    " the header at offset 0 when nothing but whitespace precedes it, so a leading BOM ends up behind the header",
                    repo.loc(repo.func(f"{AN}.add_header_to_file")))
        return
    # structure of the handling: split off under a startswith test, processed text without it, written back first
    fn = _with_literals(repo.func(f"{AN}.add_header_to_file"))
    src = re.sub(r"\s+", " ", ast.unparse(fn))
    # enumerated shapes: (a) `bom = ''` + `if text.startswith(BOM): bom = BOM; text = text[1:] | text.removeprefix(BOM)`
    #                    (b) `bom = BOM if text.startswith(BOM) else ''` + `text = text.removeprefix(bom)` / `text[len(bom):]`
    BOMLIT = "'\\ufeff'"
    var = None
    init = False
    split_node = None
    for n in ast.walk(fn):
        if isinstance(n, ast.Assign) and len(n.targets) == 1 and isinstance(n.targets[0], ast.Name):
            v = n.value
            if isinstance(v, ast.IfExp) and ast.unparse(v.body) == BOMLIT and ast.unparse(v.orelse) == "''" \
                    and ast.unparse(v.test) == f"text.startswith({BOMLIT})":
                var, init = n.targets[0].id, True
    if var is None:
        for n in ast.walk(fn):
            if isinstance(n, ast.If) and ast.unparse(n.test) == f"text.startswith({BOMLIT})":
                for st in n.body:
                    if isinstance(st, ast.Assign) and ast.unparse(st.value) == BOMLIT and isinstance(st.targets[0], ast.Name):
                        var = st.targets[0].id
        init = var is not None and f"{var} = ''" in src
    if var is not None:
        for n in ast.walk(fn):
            if isinstance(n, ast.Assign) and ast.unparse(n.targets[0]) == "text":
                v = ast.unparse(n.value)
                guarded = any(isinstance(g, ast.If) and n in list(ast.walk(g)) and ast.unparse(g.test) == f"text.startswith({BOMLIT})" for g in ast.walk(fn))
                if v in (f"text.removeprefix({var})", f"text.removeprefix({BOMLIT})", f"text[len({var}):]") or (v == "text[1:]" and guarded):
                    split_node = n
    split = split_node is not None
    from ..rules import deep_text as _deep2
    wr = [_deep2(fn, c.args[0]) for c in _writes_to_written_file(fn)]
    raw = [ast.unparse(c.args[0]) for c in _writes_to_written_file(fn)]
    back = var is not None and (raw == [f"{var} + output"] or wr == [_deep2(fn, f"{var} + output")]
                                or (len(wr) == 1 and wr[0].startswith(f"{var} + ")))
    det = [n for n in ast.walk(fn) if isinstance(n, ast.Assign) and ast.unparse(n.value) == "detect_line_endings(text)"]
    before_processing = bool(split_node is not None and det and _ord(fn)[id(split_node)] < _ord(fn)[id(det[0])])
    r.instance("bom-structure", {"split_off": bool(split), "initialised_empty": init, "written_back_first": back,
                                 "before_processing": before_processing})
    if not (split and init and back and before_processing):
        r.violation(f"{AN}.add_header_to_file", "BOM is not split off before processing and written back first",
                    f"split={bool(split)} init={init} write={wr} before_processing={before_processing}", repo.loc(repo.func(f"{AN}.add_header_to_file")))


def run(ck: Check, repo: Repo) -> None:
    ck.explanation = (
        "R1 the reassembly table of place_header over {before, after, existing header, after starts with newline}"
        " compared part-by-part (flattened f-strings) with the blank-line policy. R2 the line-ending plumbing of"
        " add_header_to_file (raw read, detection before normalisation, same variable as newline= of the write, same"
        " file). R3 the shebang is extracted before the header is created and handed to place_header as `before`. R4"
        " the three sections are slices of one string with chained cut points. R5 a necessary condition for keeping a"
        " BOM first. Not decided: byte-for-byte preservation of arbitrary bodies (string values at run time)."
    )
    ck.not_decided = ["byte-for-byte preservation of arbitrary file bodies (string values at run time)"]
    ck.trust("CPython ast", "sa/tab.py")
    rule_place_header(ck, repo)
    rule_newlines(ck, repo)
    try:
        rule_shebang(ck, repo)
    except AnalysisError as err:   # an undecidable first-line mechanism must not hide what the other rules find
        ck.defer(err)
    rule_partition(ck, repo)
    rule_bom(ck, repo)
    # a write that fails on its own text after the truncating open leaves the file EMPTY (shared with C11-R10)
    from . import c11
    c11.rule_write_cannot_fail_on_content(ck, repo, "R6")
