"""C18 - SPDX bill of materials: structural pairing, mandatory tags, checksum, concluded-licence table."""
from __future__ import annotations

import ast
import re

from ..model import AnalysisError, Repo
from ..report import Check
from ..rules import find_calls, kwarg
from ..tab import Hooks, show_valuation, tabulate

RP = "reuse.report"
DOC_TAGS = ["SPDXVersion:", "DataLicense:", "SPDXID: SPDXRef-DOCUMENT", "DocumentName:", "DocumentNamespace:",
            "Creator: Person:", "Creator: Organization:", "Creator: Tool:", "Created:"]


def _strip(events):
    out = []
    for e in events:
        ctx = ()
        while e[0] == "each":
            ctx = e[1]
            e = e[2]
        out.append((ctx, e))
    return out


def canon_fstring(text: str) -> str:
    """One spelling for concatenated / split f-strings: f'...{expr}...'."""
    from .c08 import flatten
    try:
        parts = flatten(text)
    except Exception:
        return text
    if not any(isinstance(p, tuple) for p in parts):
        return repr("".join(parts))
    body = "".join(p.replace("{", "{{").replace("}", "}}") if isinstance(p, str) else "{" + p[1] + "}" for p in parts)
    return ast.unparse(ast.parse("f" + repr(body), mode="eval").body)


def rule_document(ck: Check, repo: Repo) -> None:
    r = ck.rule("R1", "bill_of_materials: one DESCRIBES relationship and one File section per report of the same sorted list")
    q = f"{RP}.ProjectReport.bill_of_materials"
    fn = repo.func(q)
    ck.analysed_fn(q)
    buf = next((ast.unparse(st.targets[0]) for st in fn.body if isinstance(st, ast.Assign) and ast.unparse(st.value) == "StringIO()"), None)
    if buf is None:
        raise AnalysisError("bill_of_materials: no StringIO() output buffer")
    rets = [ast.unparse(n.value) for n in ast.walk(fn) if isinstance(n, ast.Return)]
    if rets != [f"{buf}.getvalue()"]:
        raise AnalysisError(f"bill_of_materials: returns {rets}, not the buffer's value")

    class H(Hooks):
        def atom(self, text, node, it):
            if text == "report.copyright":
                return "has_copyright"
            if text == "_LICENSEREF_PATTERN.match(lic)":
                return "is_licenseref"
            return None

        def event(self, text, call, it):
            f = ast.unparse(call.func)
            if f == f"{buf}.write" and call.args:
                return ("write", canon_fstring(it.text(call.args[0])))
            if f.endswith(".open"):
                return ("open", text)
            return None

    leaves = tabulate(fn, H())
    r.floor(2, "paths through bill_of_materials", got=len(leaves))
    src = ast.unparse(fn)
    # `reports` is ALL file reports, in whatever order (the order of entries is not part of the property): an order wrapper
    # around self.file_reports, without a filter
    reports_def = re.search(r"\breports = (?:(?:sorted|list|tuple)\(self\.file_reports(?:, key=[^\n]*)?\)|self\.file_reports)\n", src + "\n") is not None
    r.instance("reports-definition", {"all_file_reports": reports_def})
    if not reports_def:
        r.violation(q, "report list", "`reports` must be all file reports (sorted / list / tuple of self.file_reports, no filter)", repo.loc(fn))
    def _unorder(ctx: tuple) -> tuple:
        """loop contexts without their order wrapper: `each x in sorted(X)` and `each x in list(X)` range over the same elements"""
        return tuple(re.sub(r"^each (.+?) in (?:sorted|list|tuple)\((.+?)(?:, key=.*)?\)$", r"each \1 in \2", c) for c in ctx)

    for d, leaf, _ in leaves:
        ev = [(_unorder(c), e) for c, e in _strip(leaf.events)]
        name = show_valuation({k.split("::")[-1]: v for k, v in d.items()})
        doc = [e[1] for c, e in ev if not c and e[0] == "write"]
        rel_ctx = [c for c, e in ev if e[0] == "write" and "Relationship:" in e[1]]
        file_ctx = [c for c, e in ev if e[0] == "write" and "FileName:" in e[1]]
        r.instance("path:" + name, {"valuation": name, "document_writes": len(doc)})
        for tag in DOC_TAGS:
            if not any(tag in w for w in doc):
                r.violation(q, f"document tag {tag!r} missing", f"document-level writes: {doc[:4]}…", repo.loc(fn))
        if len(rel_ctx) != 1 or len(file_ctx) != 1 or rel_ctx[0] != ("each report in reports",) or file_ctx[0] != ("each report in reports",):
            r.violation(q, "relationship/file loops do not range over the same list",
                        f"relationships in {rel_ctx}, file sections in {file_ctx}; both must be `for report in reports`",
                        repo.loc(fn))
            continue
        # two distinct loops (a relationship per file AND a section per file)
        loops = [n for n in fn.body if isinstance(n, ast.For) and ast.unparse(n.iter) == "reports"]
        if len(loops) != 2:
            r.violation(q, "loop pairing", f"{len(loops)} loops over `reports`, expected 2", repo.loc(fn))
        rel = [e[1] for c, e in ev if c == ("each report in reports",) and e[0] == "write" and "Relationship" in e[1]]
        if rel != ["f'Relationship: SPDXRef-DOCUMENT DESCRIBES {report.spdx_id}\\n'"]:
            r.violation(q, "relationship line", f"{rel}", repo.loc(fn))
        sect = [e[1] for c, e in ev if c and c[0] == "each report in reports" and e[0] == "write" and "Relationship" not in e[1]]
        need = {
            "FileName": "f'FileName: {report.name}\\n'",
            "SPDXID": "f'SPDXID: {report.spdx_id}\\n'",
            "FileChecksum": "f'FileChecksum: SHA1: {report.chk_sum}\\n'",
            "LicenseConcluded": "f'LicenseConcluded: {report.license_concluded}\\n'",
            "LicenseInfoInFile": "f'LicenseInfoInFile: {lic}\\n'",
        }
        for k, v in need.items():
            if v not in sect:
                r.violation(q, f"file tag {k}", f"expected {v} in every file section; got {[s for s in sect if k in s]}", repo.loc(fn))
        lic_ctx = [c for c, e in ev if e[0] == "write" and "LicenseInfoInFile" in e[1]]
        if lic_ctx and lic_ctx[0] != ("each report in reports", "each lic in report.licenses_in_file"):
            r.violation(q, "LicenseInfoInFile source", f"{lic_ctx}", repo.loc(fn))
        cp = [s for s in sect if "FileCopyrightText" in s]
        hc = next((v for k, v in d.items() if k.endswith("has_copyright")), None)
        want = ["'FileCopyrightText: NONE\\n'"] if hc is False else ["f'FileCopyrightText: <text>{report.copyright}</text>\\n'"]
        if hc is not None and cp != want:
            r.violation(q, f"FileCopyrightText when has_copyright={hc}", f"{cp}; expected {want}", repo.loc(fn))
        # LicenseRef section
        lref = next((v for k, v in d.items() if k.endswith("is_licenseref")), None)
        lsec = [e[1] for c, e in ev if c == ("each (lic, path) in self.licenses.items()",) and e[0] == "write"]
        opens = [e[1] for c, e in ev if c == ("each (lic, path) in self.licenses.items()",) and e[0] == "open"]
        if lref:
            for frag in ("f'LicenseID: {lic}\\n'", "'LicenseName: NOASSERTION\\n'"):
                if frag not in lsec:
                    r.violation(q, "LicenseRef section", f"missing {frag}; got {lsec}", repo.loc(fn))
            # the extracted text is what is read from the handle opened in the same iteration
            ext = [x for x in lsec if "ExtractedText" in x]
            ok_ext = len(ext) == 1 and re.fullmatch(r"f'ExtractedText: <text>\{(.+)\.read\(\)\}</text>\\n'", ext[0]) is not None
            if ok_ext:
                recv = re.fullmatch(r"f'ExtractedText: <text>\{(.+)\.read\(\)\}</text>\\n'", ext[0]).group(1)
                with_targets = {ast.unparse(i.optional_vars) for n in ast.walk(fn) if isinstance(n, ast.With) for i in n.items if i.optional_vars is not None}
                ok_ext = recv in with_targets or recv.startswith("__opaque__") or recv in opens or recv == "(Path(self.path) / path).open(encoding='utf-8')"
            if not ok_ext:
                r.violation(q, "LicenseRef section", f"ExtractedText must be <text>{{handle.read()}}</text> of the opened licence file; got {ext}",
                            repo.loc(fn))
            if opens != ["(Path(self.path) / path).open(encoding='utf-8')"]:
                r.violation(q, "LicenseRef text source", f"{opens}", repo.loc(fn))
        elif lref is False and lsec:
            r.violation(q, "non-LicenseRef licence emitted as extracted licence", f"{lsec}", repo.loc(fn))
        elif lref is None:
            r.violation(q, "LicenseRef loop vanished", "every LicenseRef- licence in LICENSES/ must be included", repo.loc(fn))


def rule_checksum(ck: Check, repo: Repo) -> None:
    r = ck.rule("R2", "checksum is SHA-1 over the whole binary content; spdx never disables it; SPDXID from name+checksum")
    q = "reuse._util._checksum"
    fn = repo.func(q)
    ck.analysed_fn(q, f"{RP}.FileReport.generate")
    src = re.sub(r"\s+", " ", ast.unparse(fn))
    facts = {
        "sha1": "file_sha1 = sha1()" in src,
        "binary": "path.open('rb')" in src,
        # every chunk until the empty read goes into the digest (any positive chunk size; or one read() of everything)
        "all_chunks": re.search(r"for chunk in iter\(lambda: fp\.read\((?:[1-9]\d*(?: \* file_sha1\.block_size)?|file_sha1\.block_size(?: \* [1-9]\d*)?)\), b''\): file_sha1\.update\(chunk\)", src) is not None
        or "file_sha1.update(fp.read())" in src,
        "hexdigest": "return file_sha1.hexdigest()" in src,
    }
    if not facts["all_chunks"]:
        # the same loop spelled `while chunk := fp.read(SIZE): file_sha1.update(chunk)` (ends at the empty read as well)
        _size = r"(?:[1-9]\d*(?: \* file_sha1\.block_size)?|file_sha1\.block_size(?: \* [1-9]\d*)?)"
        m = re.search(r"while \(?chunk := fp\.read\((\w+|" + _size + r")\)\)?: file_sha1\.update\(chunk\) (?!break)", src + " ")
        if m:
            arg = m.group(1)
            if re.fullmatch(r"[A-Za-z_]\w*", arg):
                from ..rules import single_assign_value as _sav
                v = _sav(fn, arg)
                arg = ast.unparse(v) if v is not None else arg
            facts["all_chunks"] = re.fullmatch(_size, arg) is not None
    mod = repo.module("reuse._util")
    facts["sha1_is_hashlib"] = mod.imports.get("sha1") == "hashlib.sha1"
    r.instance(q, facts, q)
    for k, ok in facts.items():
        if not ok:
            r.violation(q, f"checksum {k}", "FileChecksum must be the SHA-1 of the complete file content read in binary mode",
                        repo.loc(fn))
    spdx_id_inputs(ck, repo, r)
    cmds = repo.commands()
    if "spdx" not in cmds:
        raise AnalysisError("anchor vanished: command spdx")
    sp = cmds["spdx"]
    calls = find_calls(sp, lambda c, f: f == "ProjectReport.generate")
    for c in calls:
        dc = kwarg(c, "do_checksum")
        pos = len(c.args) > 1
        r.instance("spdx-generate", {"do_checksum": ast.unparse(dc) if dc else "<default True>"})
        if (dc is not None and ast.unparse(dc) != "True") or pos:
            r.violation(repo.qualname_of(sp), "spdx disables real checksums", f"do_checksum={ast.unparse(dc) if dc else 'positional'}", repo.loc(c))
    if len(calls) != 1:
        r.violation(repo.qualname_of(sp), "report generation", f"{len(calls)} generate calls", repo.loc(sp))
    gen = repo.func(f"{RP}.ProjectReport.generate")
    dflt = {a.arg: ast.unparse(d) for a, d in zip(gen.args.args[-len(gen.args.defaults):], gen.args.defaults)}
    if dflt.get("do_checksum") != "True":
        r.violation(f"{RP}.ProjectReport.generate", "default do_checksum", f"{dflt.get('do_checksum')}", repo.loc(gen))


def spdx_id_inputs(ck: Check, repo: Repo, r) -> None:
    """SPDXID = digest of exactly (root-relative name, checksum); the name is './<path relative to the root>'."""
    g = repo.func(f"{RP}.FileReport.generate")

    class H(Hooks):
        def atom(self, text, node, it):
            if text.endswith(".do_checksum"):
                return "do_checksum"
            return None

        def store(self, ttext, vt, target, it):
            if ttext.endswith(".chk_sum") or ttext.endswith(".spdx_id"):
                return ("store", ttext.split(".")[-1], vt, ttext.rsplit(".", 1)[0])
            return None

        def event(self, text, call, it):
            f = ast.unparse(call.func)
            if f.endswith(".update") and isinstance(call.func.value, ast.Name) and call.args:
                # whatever the digest object is called: a local bound to md5()
                from ..tab import vtext as _vt
                bound = it.env.get(call.func.value.id)
                if f == "spdx_id.update" or (bound is not None and _vt(bound) == "md5()"):
                    return ("id-update", it.text(call.args[0]))
            return None

        def loop_policy(self, node, it):
            return "skip"

    seen = set()
    for d, leaf, _ in tabulate(g, H()):
        if leaf.outcome[0] != "return" or d.get("do_checksum") in seen:
            continue
        seen.add(d.get("do_checksum"))
        st = {e[1]: e[2] for e in leaf.events if e[0] == "store"}
        ups = [e[1] for e in leaf.events if e[0] == "id-update"]
        r.instance(f"generate:do_checksum={d.get('do_checksum')}", {"chk_sum": st.get("chk_sum"), "id_inputs": ups})
        if d.get("do_checksum") and st.get("chk_sum") != "_checksum(Path(path))":
            r.violation(f"{RP}.FileReport.generate", "chk_sum source", f"{st.get('chk_sum')}", repo.loc(g))
        obj = next((e[3] for e in leaf.events if e[0] == "store" and e[1] == "spdx_id"), None)
        want_ups = [f"{obj}.name.encode('utf-8')", f"{obj}.chk_sum.encode('utf-8')"]
        if ups != want_ups:
            r.violation(f"{RP}.FileReport.generate", "SPDXID inputs",
                        f"SPDXID must be a digest of the report's name (the root-relative path written as FileName) and its"
                        f" checksum; it is a digest of {[u.replace(str(obj), '<report>') for u in ups]} - two files can then share an id",
                        repo.loc(g))
        if obj is None or not re.match(r"cls\(f'\./\{project\.relative_from_root\(Path\(path\)\)\}', Path\(path\)", obj):
            r.violation(f"{RP}.FileReport.generate", "report name is not the root-relative path",
                        f"report = {str(obj)[:80]}; FileName / SPDXID uniqueness rests on name = './<path relative to the root>'", repo.loc(g))
        if not re.fullmatch(r"f'SPDXRef-\{(\w+|md5\(\))\.hexdigest\(\)\}'", st.get("spdx_id") or ""):
            r.violation(f"{RP}.FileReport.generate", "SPDXID form", f"{st.get('spdx_id')}", repo.loc(g))


def _unflatten(t: str) -> str:
    """`(f'({x})' for x in [e for ri in INFOS for e in ri.spdx_expressions])` walks the same expressions in the same order as
    `(f'({e})' for ri in INFOS for e in ri.spdx_expressions)`: one spelling for both."""
    m = re.search(r"\(f'\(\{(\w+)\}\)' for (\w+) in \[(\w+) for (\w+) in (.+) for (\w+) in (\w+)\.spdx_expressions\]\)", t)
    if m and m.group(1) == m.group(2) and m.group(3) == m.group(6) and m.group(4) == m.group(7):
        return t[:m.start()] + f"(f'({{expression}})' for reuse_info in {m.group(5)} for expression in reuse_info.spdx_expressions)" + t[m.end():]
    return t


def rule_concluded(ck: Check, repo: Repo) -> None:
    r = ck.rule("R3", "LicenseConcluded table: NOASSERTION / NONE / conjunction of every parenthesised expression, simplified")
    q = f"{RP}.FileReport.generate"
    g = repo.func(q)

    class H(Hooks):
        def atom(self, text, node, it):
            if text == "add_license_concluded":
                return "requested"
            if text.startswith("any(reuse_info.spdx_expressions for reuse_info in "):
                return "has_expr"
            # the flattened list of all expressions, tested for emptiness, asks the same question
            if re.fullmatch(r"\[(\w+) for (\w+) in .+ for \1 in \2\.spdx_expressions\]", text):
                return "has_expr"
            if text.endswith(".do_checksum"):
                return "@dc"
            if text == "Path(path).is_file()":
                return "@file"
            return None

        def store(self, ttext, vt, target, it):
            if ttext.endswith(".license_concluded"):
                return ("concluded", vt)
            return None

        def loop_policy(self, node, it):
            return "skip"

    def ref(v):
        if not v("requested"):
            return "'NOASSERTION'"
        if not v("has_expr"):
            return "'NONE'"
        return ("_LICENSING.parse(' AND '.join((f'({expression})' for reuse_info in project.reuse_info_of(Path(path))"
                " for expression in reuse_info.spdx_expressions))).simplify().render()")

    n = 0
    for d, leaf, exp in tabulate(g, H(), ref, feasible=lambda v: v.get("@file") is not False and v.get("@dc") is not False):
        if leaf.outcome[0] != "return":
            continue
        got = [_unflatten(e[1]) for e in leaf.events if e[0] == "concluded"]
        n += 1
        r.instance("cell:" + show_valuation({k: v for k, v in d.items() if not k.startswith("@")}),
                   {"requested": d.get("requested"), "has_expr": d.get("has_expr"), "value": got[-1][:70] if got else None})
        if not got or got[-1] != exp:
            r.violation(q, f"LicenseConcluded when requested={d.get('requested')} has_expr={d.get('has_expr')}",
                        f"{got[-1] if got else None}; expected {exp}", repo.loc(g))
    r.floor(3, "concluded cells", got=n)
    # the command forwards the flag and enforces the creator requirement
    sp = repo.commands()["spdx"]
    sq = repo.qualname_of(sp)
    ck.analysed_fn(sq)

    class H2(Hooks):
        def atom(self, text, node, it):
            return {"add_license_concluded": "alc", "creator_person is None": "no_person",
                    "creator_organization is None": "no_org", "output is not None": "has_output"}.get(text)

        def event(self, text, call, it):
            f = ast.unparse(call.func)
            if f == "ProjectReport.generate":
                return ("generate", text)
            if f == "report.bill_of_materials" or f.endswith(".bill_of_materials"):
                return ("bom", text)
            return None

    def ref2(v):
        if v("alc") and v("no_person") and v("no_org"):
            return "usage"
        return "run"

    for d, leaf, exp in tabulate(sp, H2(), ref2):
        gen = [e for e in leaf.events if e[0] == "generate"]
        bom = [e for e in leaf.events if e[0] == "bom"]
        key = show_valuation({k: v for k, v in d.items() if k in ("alc", "no_person", "no_org")})
        r.instance("spdx:" + show_valuation(d), None)
        if exp == "usage":
            if leaf.outcome[:2] != ("raise", "UsageError") or gen:
                r.violation(sq, f"creator requirement [{key}]", f"{leaf.outcome[:2]}", repo.loc(sp))
        else:
            if len(gen) != 1 or "add_license_concluded=add_license_concluded" not in gen[0][1] or "obj.project" not in gen[0][1]:
                r.violation(sq, "flag not forwarded", f"{gen}", repo.loc(sp))
            if len(bom) != 1 or "creator_person=creator_person" not in bom[0][1] or "creator_organization=creator_organization" not in bom[0][1]:
                r.violation(sq, "creator not forwarded", f"{bom}", repo.loc(sp))
    fc = repo.func(f"{RP}.format_creator")

    class H3(Hooks):
        def atom(self, text, node, it):
            return {"creator is None": "none", "'(' in creator": "paren", "creator.endswith(')')": "endparen"}.get(text)

    def ref3(v):
        if v("none"):
            return "'Anonymous ()'"
        if v("paren") and v("endparen"):
            return "creator"
        return "creator + ' ()'"

    for d, leaf, exp in tabulate(fc, H3(), ref3):
        r.instance("format_creator:" + show_valuation(d), None)
        if leaf.outcome[1] != exp:
            r.violation(f"{RP}.format_creator", f"[{show_valuation(d)}]", f"{leaf.outcome[1]}; expected {exp}", repo.loc(fc))


def rule_document_name(ck: Check, repo: Repo, rid: str = "R6") -> None:
    """The document is named after the project directory itself, however the root was spelled: the name must be taken
    from the RESOLVED root (`..`, `.` and symlinked spellings have another last component)."""
    r = ck.rule(rid, "DocumentName is the name of the resolved project root (independent of how the root is spelled)")
    q = f"{RP}.ProjectReport.bill_of_materials"
    fn = repo.func(q)
    from ..rules import deep_text
    hits = []
    for c in ast.walk(fn):
        if isinstance(c, ast.Call) and isinstance(c.func, ast.Attribute) and c.func.attr == "write" and c.args:
            t = deep_text(fn, c.args[0])
            if "DocumentName:" in t:
                hits.append((t, c))
    r.instance("DocumentName", {"lines": [t for t, _ in hits]})
    if len(hits) != 1:
        raise AnalysisError("bill_of_materials: DocumentName line not found exactly once")
    t, node = hits[0]
    m = re.search(r"\{(.+?)\}", t)
    expr = m.group(1) if m else ""
    ok = expr in ("Path(self.path).resolve().name", "self.path.resolve().name", "os.path.basename(os.path.realpath(self.path))")
    if not ok:
        r.violation(q, f"DocumentName is derived from {expr}",
                    "only resolve() / realpath() removes `..`, `.` and symlinks from the root before its last component is taken:"
                    " with `--root ..`, a root ending in `/..`, or a git sub-directory as cwd, the document is named `..` (or after"
                    " the link) - the same project gives different documents depending on how the root is spelled", repo.loc(node))



def rule_text_blocks(ck: Check, repo: Repo, rid: str = "R7") -> None:
    """Tag-value `<text>…</text>` blocks end at the first `</text>`.  Content that comes from project files (licence
    texts, copyright notices) is delimited safely only if an occurrence of the closing tag inside it is neutralised."""
    r = ck.rule(rid, "file content written between <text> … </text> cannot contain the closing tag")
    q = f"{RP}.ProjectReport.bill_of_materials"
    fn = repo.func(q)
    n = 0
    for c in ast.walk(fn):
        if isinstance(c, ast.Call) and isinstance(c.func, ast.Attribute) and c.func.attr == "write" and c.args \
                and isinstance(c.args[0], ast.JoinedStr):
            t = ast.unparse(c.args[0])
            m = re.search(r"<text>\{(.+?)\}</text>", t)
            if not m:
                continue
            n += 1
            inner = m.group(1)
            guarded = any(k in inner for k in ("replace(", "escape(", "sanitize", "sanitise"))
            r.instance(f"text-block:{inner[:40]}", {"field": t[:40], "content": inner, "closing_tag_neutralised": guarded}, q)
            if not guarded:
                r.violation(q, f"`{inner}` is written between <text> and </text> as it is",
                            f"{t[:60]}: a licence text or copyright notice that contains the string `</text>` ends the block early; the"
                            f" rest of it is read as tag-value lines and the document no longer parses", repo.loc(c))
    r.floor(2, "<text> blocks", got=n)



# ------------------------------------------------------------------ R8: the --output declaration and its use agree
def rule_output_declaration(ck: Check, repo: Repo, rid: str = "R8") -> None:
    """The command body treats `output` as click's LazyFile (`output.name`, `output.open()`).  click.File hands out a
    LazyFile for every value only with `lazy=True`; with the default (lazy=None) a write-mode `-` is passed as the plain
    stdout stream, which has no `.open()`: `reuse spdx -o -` then ends in AttributeError after the scan and emits nothing
    (library semantics of click.File, table T2)."""
    r = ck.rule(rid, "the declared type of --output provides what the command body calls on it (LazyFile for every value, `-` included)")
    fn = repo.commands().get("spdx")
    if fn is None:
        raise AnalysisError("anchor vanished: command spdx")
    q = repo.qualname_of(fn)
    ck.analysed_fn(q)
    n = 0
    for d in fn.decorator_list:
        if not (isinstance(d, ast.Call) and isinstance(d.func, ast.Attribute) and d.func.attr == "option"):
            continue
        ty = next((kw.value for kw in d.keywords if kw.arg == "type"), None)
        if not (isinstance(ty, ast.Call) and ast.unparse(ty.func) in ("click.File", "File")):
            continue
        names = [a.value for a in d.args if isinstance(a, ast.Constant) and isinstance(a.value, str)]
        dest = next((x for x in names if not x.startswith("-")), None) or max((x for x in names if x.startswith("--")), key=len, default="--output").lstrip("-").replace("-", "_")
        n += 1
        lazy = next((ast.unparse(kw.value) for kw in ty.keywords if kw.arg == "lazy"), ast.unparse(ty.args[4]) if len(ty.args) > 4 else None)
        uses_open = any(isinstance(c, ast.Call) and isinstance(c.func, ast.Attribute) and c.func.attr == "open"
                        and ast.unparse(c.func.value) == dest for c in ast.walk(fn))
        r.instance(f"option:{dest}", {"declared": ast.unparse(ty), "lazy": lazy, "body_calls_open": uses_open}, q)
        if uses_open and lazy != "True":
            r.violation(q, f"`{dest}.open()` is called but the option is declared `{ast.unparse(ty)}`",
                        "without lazy=True click opens `-` eagerly and passes the stdout stream itself, which has no open():"
                        " `reuse spdx -o -` crashes with AttributeError after the whole project was scanned and no document is written",
                        repo.loc(d))
    r.floor(1, "click.File options of spdx", got=n)


# ------------------------------------------------------------------ R9: files that could not be examined are not silently left out
def rule_unexamined_files(ck: Check, repo: Repo, rid: str = "R9") -> None:
    """'One File section for every covered file.'  ProjectReport.generate puts a file whose examination failed (unreadable,
    a name that cannot be encoded, a parser crash) into read_errors and builds no FileReport for it, so the document has
    no section for it.  Decided: whether the spdx command looks at read_errors at all (to fail, or to say so in the
    document); if it never does, a covered file is missing from the bill of materials and the exit status is 0."""
    r = ck.rule(rid, "covered files that could not be examined are reported by spdx (exit status or document), not silently omitted")
    fn = repo.commands().get("spdx")
    if fn is None:
        raise AnalysisError("anchor vanished: command spdx")
    q = repo.qualname_of(fn)
    bom = repo.func("reuse.report.ProjectReport.bill_of_materials")
    uses = [x for f in (fn, bom) for x in ast.walk(f) if isinstance(x, ast.Attribute) and x.attr == "read_errors"]
    gen = repo.func("reuse.report.ProjectReport.generate")
    records = any(isinstance(x, ast.Attribute) and x.attr == "read_errors" for x in ast.walk(gen))
    r.instance("read-errors", {"recorded_by_generate": records, "consulted_by_spdx_or_document": len(uses)}, q)
    if not records:
        raise AnalysisError("ProjectReport.generate no longer records read errors (anchor vanished)")
    if not uses:
        r.violation(q, "read errors are never consulted on the spdx path",
                    "a covered file named `caf\\xe9.py` (not valid UTF-8; also an unreadable file, or one whose header crashes the parser)"
                    " is logged as `Could not read`, gets no File section and `reuse spdx` exits 0: the document silently lacks a covered file",
                    repo.loc(fn))


def run(ck: Check, repo: Repo) -> None:
    ck.explanation = (
        "Structure of the bill of materials decided on every path of bill_of_materials: both loops range over the"
        " same sorted definition, one DESCRIBES line and one File section per report with the same spdx_id, the"
        " mandatory document/file tags, <text> wrapping, the LicenseRef section; checksum = hashlib.sha1 over all"
        " chunks of the file opened 'rb', never disabled by the spdx command; SPDXID derives from name and checksum;"
        " the LicenseConcluded table. File set = C01/C03. Not decided: the SHA-1 values themselves, logical equivalence"
        " after simplify() (library), tag-value parseability of exotic file names."
    )
    ck.not_decided = ["truth of SHA-1 values", "logical equivalence of boolean.py's simplify() (library semantics)",
                      "tag-value parseability for file names with newlines"]
    ck.trust("CPython ast", "sa/tab.py")
    rule_document(ck, repo)
    rule_document_name(ck, repo)
    rule_text_blocks(ck, repo)
    rule_checksum(ck, repo)
    rule_concluded(ck, repo)
    rule_output_declaration(ck, repo)
    rule_unexamined_files(ck, repo)
    # 'exactly the licence identifiers that lint attributes to the file': the per-identifier table of FileReport.generate
    # (every identifier of every expression is recorded in licenses_in_file) (shared with C06-R1)
    from . import c06
    c06.rule_identifier_table(ck, repo, "R10")
    # 'a File section for every covered file and for no other file': the covered set (shared with C03-R1/R2)
    from . import c03
    from ..fold import Folder
    langs = c03.rule_languages(ck, repo, Folder(repo), "R4")
    c03.rule_decision(ck, repo, langs, "R5")
