"""C06 - licence inventory: classification tables (bad / missing / unused / deprecated / no extension)."""
from __future__ import annotations

import ast
import itertools
import re

from ..fold import Folder, Regex
from ..model import AnalysisError, Repo
from ..relang import Alphabet, Lang, difference
from ..report import Check
from ..rules import bool_formula, equivalent
from ..tab import Hooks, Valuation, evalf, show_valuation, tabulate

RP = "reuse.report"
PJ = "reuse.project.Project"
WALRUS = "(plus_identifier := _strip_plus_from_identifier(identifier)) != identifier"


def _flat(events):
    out = []
    for e in events:
        ctx = ()
        while e[0] == "each":
            ctx = tuple(c.split(" in ")[0] for c in e[1])
            e = e[2]
        out.append((ctx, e))
    return out


def _innermost(e):
    while e and e[0] == "each":
        e = e[2]
    return e


def rule_identifier_table(ck: Check, repo: Repo, rid: str = "R1") -> None:
    r = ck.rule(rid, "per-identifier table: ids = {id, strip_plus(id)}; bad ⇔ ids∩map=∅; missing ⇔ ids∩provided=∅; always recorded")
    q = f"{RP}.FileReport.generate"
    fn = repo.func(q)
    ck.analysed_fn(q)

    STRIP = "_strip_plus_from_identifier(identifier)"

    def stripped(base: str):
        """x ∈ base for x = strip_plus(id): equals the plain membership when the id has no '+'."""
        return ("or", ("and", "has_plus", f"{base}_stripped"), ("and", ("not", "has_plus"), f"{base}_id"))

    class H(Hooks):
        """Atoms are semantic: has_plus, map_id / map_stripped (id resp. strip_plus(id) on the licence map),
        provided_id / provided_stripped (… has a LICENSES/ file).  Equivalent spellings map to the same formula."""

        def atom(self, text, node, it):
            if text in (WALRUS, f"{STRIP} != identifier", f"identifier != {STRIP}", "identifier.endswith('+')"):
                return "has_plus"
            if text in (f"{STRIP} == identifier", f"identifier == {STRIP}"):
                return ("not", "has_plus")
            for coll, base in (("project.license_map", "map"), ("project.licenses", "provided")):
                added = any(e[-1] == ("ids-add", STRIP) or (e[0] == "each" and e[2] == ("ids-add", STRIP)) or
                            _innermost(e) == ("ids-add", STRIP) for e in it.events)
                if text in (f"{{identifier}}.intersection({coll})",
                            f"any(i in {coll} for i in {{identifier}})", f"{{identifier}} & set({coll})",
                            f"{{identifier}} & {coll}.keys()"):
                    return ("or", f"{base}_id", f"{base}_stripped") if added else f"{base}_id"
                if text in (f"{{identifier, {STRIP}}}.intersection({coll})", f"{{{STRIP}, identifier}}.intersection({coll})"):
                    return ("or", f"{base}_id", stripped(base))
                if text in (f"{{identifier, {STRIP}}}.isdisjoint({coll})", f"{{{STRIP}, identifier}}.isdisjoint({coll})"):
                    return ("not", ("or", f"{base}_id", stripped(base)))       # isdisjoint = no intersection
                if text == f"{{identifier}}.isdisjoint({coll})":
                    return ("not", ("or", f"{base}_id", f"{base}_stripped")) if added else ("not", f"{base}_id")
                if text == f"identifier in {coll}":
                    return f"{base}_id"
                if text == f"identifier not in {coll}":
                    return ("not", f"{base}_id")
                if text == f"{STRIP} in {coll}":
                    return stripped(base)
                if text == f"{STRIP} not in {coll}":
                    return ("not", stripped(base))
            return None

        def event(self, text, call, it):
            f = ast.unparse(call.func)
            if isinstance(call.func, ast.Attribute) and call.func.attr == "add" and call.args and it.text(call.args[0]) == STRIP:
                return ("ids-add", STRIP)
            m = re.fullmatch(r"report\.(bad_licenses|missing_licenses)\.add", f)
            if m:
                return (m.group(1), it.text(call.args[0]))
            if f == "report.licenses_in_file.append":
                return ("record", it.text(call.args[0]))
            if f == "_LICENSING.license_keys":
                return ("keys-of", it.text(call.args[0]))
            return None

        def raises(self, text, call, it):
            return []

    ID = "each reuse_info in reuse_infos::each expression in reuse_info.spdx_expressions::" \
         "each identifier in _LICENSING.license_keys(expression)::"

    def ref(v: Valuation):
        p = v(ID + "has_plus")
        on_map = v(ID + "map_id") or (p and v(ID + "map_stripped"))
        prov = v(ID + "provided_id") or (p and v(ID + "provided_stripped"))
        return {"has_plus": p, "bad": not on_map, "missing": not prov}

    leaves = tabulate(fn, H(), ref)
    n = 0
    seen = set()
    for d, leaf, spec in leaves:
        if leaf.outcome[0] != "return":
            continue
        n += 1
        ctx3 = ("each reuse_info", "each expression", "each identifier")
        ev = [e for c, e in _flat(leaf.events) if c == ctx3]
        keys = [e for c, e in _flat(leaf.events) if e[0] == "keys-of"]
        cell = {k.split("::")[-1]: v for k, v in d.items() if k.startswith(ID)}
        name = show_valuation(cell)
        r.instance("cell:" + name + "|" + show_valuation({k: v for k, v in d.items() if "::" not in k}),
                   {"cell": name, "effects": [repr(e) for e in ev]})
        got = {"bad": ("bad_licenses", "identifier") in ev, "missing": ("missing_licenses", "identifier") in ev}
        free = [k for k in cell if k.startswith("?")]
        for cat in ("bad", "missing"):
            if got[cat] != spec[cat] and (cat, name) not in seen:
                seen.add((cat, name))
                r.violation(q, f"{cat} classification in cell [{name}]",
                            f"identifier is {'' if got[cat] else 'not '}reported {cat}; the specification says it is"
                            f" {'' if spec[cat] else 'not '}{cat} (ids = {{id, strip_plus(id)}} against the"
                            f" {'licence map' if cat == 'bad' else 'LICENSES/ inventory'})"
                            + (f"; unrecognised condition {free[0]}" if free else ""), repo.loc(fn), {"cell": cell})
        if ("record", "identifier") not in ev and ("record", name) not in seen:
            seen.add(("record", name))
            r.violation(q, f"identifier not recorded in cell [{name}]", "every identifier must be appended to licenses_in_file",
                        repo.loc(fn))
        if not keys or keys[0][1] != "expression":
            r.violation(q, "identifier source", "identifiers must be all license_keys of every expression of every source",
                        repo.loc(fn))
    r.floor(8, "identifier cells", got=n)
    # helper tables
    for hq, plus in (("reuse._util._strip_plus_from_identifier", False), ("reuse._util._add_plus_to_identifier", True)):
        h = repo.func(hq)
        ck.analysed_fn(hq)

        class HH(Hooks):
            def atom(self, text, node, it):
                return "ends_plus" if text == "spdx_identifier.endswith('+')" else None

        for d, leaf, _ in tabulate(h, HH()):
            exp = ("spdx_identifier" if d.get("ends_plus") else "f'{spdx_identifier}+'") if plus else \
                ("spdx_identifier[:-1]" if d.get("ends_plus") else "spdx_identifier")
            r.instance(f"{hq}:{d}", {"helper": hq, "ends_plus": d.get("ends_plus"), "returns": leaf.outcome[1]})
            if leaf.outcome[1] != exp or "ends_plus" not in d:
                r.violation(hq, f"[{show_valuation(d)}]", f"returns {leaf.outcome[1]}, expected {exp}", repo.loc(h))


def rule_map_contents(ck: Check, repo: Repo) -> None:
    r = ck.rule("R2", "who writes license_map: bad ⇔ neither on the SPDX lists nor a LicenseRef-")
    # every write to a `license_map` attribute in the package
    writers = []
    for q, fn in repo.functions.items():
        for n in ast.walk(fn):
            tgt = None
            if isinstance(n, ast.Assign):
                for t in n.targets:
                    if "license_map" in ast.unparse(t) and isinstance(t, (ast.Subscript, ast.Attribute)):
                        tgt = t
            if isinstance(n, ast.Call) and isinstance(n.func, ast.Attribute) and n.func.attr in ("update", "setdefault", "pop", "clear") \
                    and ast.unparse(n.func.value).endswith("license_map") and not ast.unparse(n.func.value) == "license_map":
                tgt = n
            if tgt is not None and repo.enclosing_function(n) is fn or (tgt is not None and n in ast.walk(fn) and repo.enclosing_function(n) is None):
                writers.append((q, ast.unparse(tgt)))
    # a writer that is a method the confirmed tree does not have, called from exactly one known method of the same class, is that
    # method's code moved out (`self._register_license_ref(identifier, path)`): the write is attributed to the caller
    from ..canon import ref_table as _rt
    _known = set(_rt().get("__functions__", []))
    moved: dict[str, str] = {}
    for i, (wq, wt) in enumerate(list(writers)):
        if _known and wq not in _known and wq.rsplit(".", 1)[0] in repo.classes:
            cls_q, meth = wq.rsplit(".", 1)
            callers = sorted({q2 for q2, f2 in repo.functions.items() if q2 != wq and any(
                isinstance(c, ast.Call) and isinstance(c.func, ast.Attribute) and c.func.attr == meth for c in ast.walk(f2))})
            if len(callers) == 1 and callers[0].rsplit(".", 1)[0] == cls_q and callers[0] in _known:
                writers[i] = (callers[0], wt)
                moved[meth] = wq
    writers = sorted(set(writers))
    r.instance("writers", {"writers": writers, "moved_into_new_methods": moved})
    expected = [(f"{PJ}._find_licenses", "self.license_map[identifier]")]
    if writers != expected:
        r.violation(f"{PJ}.license_map", "unexpected writer of license_map", f"writers {writers}, expected {expected}")
    d = repo.func(f"{PJ}._default_license_map")
    ds = ast.unparse(d)
    ok = "license_map = LICENSE_MAP.copy()" in ds and "license_map.update(EXCEPTION_MAP)" in ds and "return license_map" in ds
    r.instance("default-map", {"ok": ok})
    if not ok:
        r.violation(f"{PJ}._default_license_map", "default map", "must be the SPDX licence list plus the exception list", repo.loc(d))
    # guard of the registration in _find_licenses
    fl = repo.func(f"{PJ}._find_licenses")
    ck.analysed_fn(f"{PJ}._find_licenses")
    guard = None
    for n in ast.walk(fl):
        if isinstance(n, ast.If) and any((isinstance(s, ast.Assign) and "self.license_map[identifier]" in ast.unparse(s.targets[0]))
                                         or (isinstance(s, ast.Expr) and isinstance(s.value, ast.Call) and isinstance(s.value.func, ast.Attribute)
                                             and s.value.func.attr in moved and ast.unparse(s.value.func.value) == "self"
                                             and s.value.args and ast.unparse(s.value.args[0]) == "identifier")
                                         for s in n.body):
            guard = n.test

    def atom(text, node):
        if text == "_LICENSEREF_PATTERN.match(identifier)":
            return "lref"
        if text == "'Unknown' not in identifier":
            return ("not", "unknown")
        if text == "'Unknown' in identifier":
            return "unknown"
        return None

    if guard is None:
        registered = False
        r.note("no LicenseRef registration found")
    else:
        registered = bool_formula(guard, atom)
    r.instance("registration-guard", {"guard": ast.unparse(guard) if guard is not None else None})
    # in_map(id) = spdx ∨ (provided ∧ registered); bad_impl = ¬in_map ; reference bad = ¬spdx ∧ ¬lref
    impl = ("not", ("or", "spdx", ("and", "provided", registered)))
    ref = ("and", ("not", "spdx"), ("not", "lref"))
    names = ["spdx", "lref", "provided", "unknown"]
    cells = []
    for bits in itertools.product([False, True], repeat=4):
        dct = dict(zip(names, bits))
        if dct["spdx"] and dct["lref"]:
            continue  # no SPDX identifier starts with LicenseRef-
        a, b = evalf(impl, Valuation(dct)), evalf(ref, Valuation(dct))
        r.instance("cell:" + show_valuation(dct), {"cell": show_valuation(dct), "bad_impl": a, "bad_spec": b})
        if a != b:
            cells.append(dct)
    groups: dict[str, list] = {}
    for c in cells:
        if c["lref"] and not c["provided"]:
            groups.setdefault("a LicenseRef- identifier without a file in LICENSES/ is classified bad as well as missing", []).append(c)
        elif c["lref"] and c["unknown"]:
            groups.setdefault("a provided LicenseRef- identifier containing 'Unknown' is never registered and is classified bad", []).append(c)
        else:
            groups.setdefault("bad classification differs: " + show_valuation(c), []).append(c)
    for key, cs in groups.items():
        r.violation(f"{RP}.FileReport.generate", key,
                    f"bad ⇔ ¬spdx ∧ ¬LicenseRef- by the specification; the implementation also reports bad for cells"
                    f" {[show_valuation(c) for c in cs]}", repo.loc(fl), {"cells": cs})


def rule_unused(ck: Check, repo: Repo) -> None:
    r = ck.rule("R3", "used = all recorded identifiers; unused(l) ⇔ l ∉ used ∧ l+ ∉ used, over LICENSES/ entries")
    for q, elt, gens in ((f"{RP}.ProjectReport.used_licenses", "lic",
                          [("file_report", "self.file_reports"), ("lic", "file_report.licenses_in_file")]),):
        fn = repo.func(q)
        ck.analysed_fn(q)
        comps = [n for n in ast.walk(fn) if isinstance(n, ast.SetComp)]
        ok = False
        if len(comps) == 1 and len(comps[0].generators) == 2:
            g1, g2 = comps[0].generators
            ok = ast.unparse(g1.iter) == "self.file_reports" and ast.unparse(g2.iter) == f"{ast.unparse(g1.target)}.licenses_in_file" \
                and ast.unparse(comps[0].elt) == ast.unparse(g2.target) and not g1.ifs and not g2.ifs
        r.instance(q, {"ok": ok})
        if not ok:
            r.violation(q, "used licences", "must be every identifier recorded in every file report", repo.loc(fn))
    q = f"{RP}.ProjectReport.unused_licenses"
    fn = repo.func(q)
    ck.analysed_fn(q)
    comps = [n for n in ast.walk(fn) if isinstance(n, ast.SetComp) and ast.unparse(n.generators[0].iter) == "self.licenses"]
    if len(comps) != 1:
        raise AnalysisError("unused_licenses: expected one set comprehension over self.licenses")
    c = comps[0]
    g = c.generators[0]
    var = ast.unparse(g.target)

    def atom(text, node):
        if text == f"{var} in self.used_licenses":
            return "used"
        if text == f"_add_plus_to_identifier({var}) in self.used_licenses":
            return "used_plus"
        return None

    try:
        cond = ("and",) + tuple(bool_formula(i, atom) for i in g.ifs) if g.ifs else True
    except Exception as err:  # noqa: BLE001 - a filter written over other sets than used_licenses itself (a pre-computed plus-free set …)
        raise AnalysisError(f"unused_licenses: the filter {[ast.unparse(i)[:60] for i in g.ifs]} is not written over `l in used` / `l+ in used`:"
                            f" not decided ({err})")
    facts = {"elt": ast.unparse(c.elt), "iter": ast.unparse(g.iter), "filter": [ast.unparse(i) for i in g.ifs]}
    r.instance(q, facts)
    if facts["elt"] != var or facts["iter"] != "self.licenses" or len(c.generators) != 1:
        r.violation(q, "unused source", f"{facts}", repo.loc(fn))
    from ..rules import atoms_of as _atoms
    unknown = [a for a in _atoms(cond) if str(a).startswith("?")] if cond is not True else []
    if unknown:
        raise AnalysisError(f"unused_licenses: the filter is written over {unknown[:2]} and not over `l in used_licenses` / `l+ in used_licenses`:"
                            " whether it equals ¬used(l) ∧ ¬used(l+) is not decided")
    bad = equivalent(cond, ("and", ("not", "used"), ("not", "used_plus")))
    if bad is not None:
        r.violation(q, "unused filter", f"filter {facts['filter']} differs from ¬used(l) ∧ ¬used(l+) at {bad}", repo.loc(fn))


def _recursive_licenses_scan(text: str) -> bool:
    """glob.iglob / glob.glob over <root>/LICENSES/** with recursive=True (str / Path / glob.escape wrappers ignored)."""
    try:
        c = ast.parse(text, mode="eval").body
    except SyntaxError:
        return False
    if not (isinstance(c, ast.Call) and ast.unparse(c.func) in ("glob.iglob", "glob.glob") and c.args):
        return False
    if not any(k.arg == "recursive" and isinstance(k.value, ast.Constant) and k.value.value is True for k in c.keywords):
        return False

    class Strip(ast.NodeTransformer):
        def visit_Call(self, n):
            self.generic_visit(n)
            if ast.unparse(n.func) in ("str", "Path", "PurePath", "glob.escape", "os.fspath") and len(n.args) == 1 and not n.keywords:
                return n.args[0]
            if ast.unparse(n.func) == "os.path.join" and n.args and not n.keywords:
                out = n.args[0]
                for a in n.args[1:]:
                    out = ast.BinOp(left=out, op=ast.Div(), right=a)
                return out
            return n

    pat = ast.unparse(Strip().visit(c.args[0]))
    return pat in ("self.root / 'LICENSES/**'", "self.root / 'LICENSES' / '**'")



def _includes_hidden(text: str) -> bool:
    c = ast.parse(text, mode="eval").body
    return isinstance(c, ast.Call) and any(k.arg == "include_hidden" and isinstance(k.value, ast.Constant) and k.value.value is True for k in c.keywords)


def rule_scan(ck: Check, repo: Repo) -> None:
    r = ck.rule("R4", "LICENSES/** scan: identifier table, extension-less detection, duplicates, recursion")
    q = f"{PJ}._identifier_of_license"
    fn = repo.func(q)
    ck.analysed_fn(q)

    class H(Hooks):
        def atom(self, text, node, it):
            return {"path.suffix": "has_suffix", "path.stem in self.license_map": "stem_known",
                    "path.name in self.license_map": "name_known", "path.name in LICENSE_MAP": "name_known",
                    "_LICENSEREF_PATTERN.match(path.name)": "name_lref",
                    "_LICENSEREF_PATTERN.match(path.stem)": "stem_lref"}.get(text)

    def ref(v):
        # 'a LICENSES/ file whose whole name is an SPDX identifier is reported as lacking a file extension': the whole
        # name is looked at before the part in front of the last dot (Python-2.0.1 / Python-2.0, OLDAP-2.0.1 / OLDAP-2.0)
        # (a LicenseRef- name that an earlier entry of the scan registered in the map is not an SPDX identifier)
        if not v("has_suffix") or (v("name_known") and not v("name_lref")):
            return ("raise", "SpdxIdentifierNotFoundError")
        if v("stem_known") or v("stem_lref"):
            return ("return", "path.stem")
        return ("raise", "SpdxIdentifierNotFoundError")

    def composite(outcome, v) -> str:
        """What the SCAN makes of the outcome (its handler of SpdxIdentifierNotFoundError is decided below, cell by cell): a
        raise ends in the whole name (no extension) when the name is known and in the stem otherwise, so raising for a
        file whose stem would have been returned anyway changes a log line, not the identifier."""
        if outcome[:2] == ("return", "path.stem"):
            return "stem"
        if outcome[:2] == ("raise", "SpdxIdentifierNotFoundError"):
            return "whole-name (no extension)" if v.get("name_known") else "stem"
        return f"other: {outcome[:2]}"

    for d, leaf, exp in tabulate(fn, H(), ref):
        r.instance("id:" + show_valuation(d), {"valuation": show_valuation(d), "outcome": leaf.outcome[:2]})
        if leaf.outcome[:2] != exp and composite(leaf.outcome, d) != composite(exp, d):
            hint = ""
            if d.get("name_known"):
                hint = (" - `LICENSES/Python-2.0.1` (whole name is an SPDX identifier, so the file lacks an extension) is registered"
                        " as `Python-2.0`: lint reports Python-2.0.1 missing and Python-2.0 unused instead of the missing extension")
            r.violation(q, f"[{show_valuation(d)}]", f"{leaf.outcome[:2]}, expected {exp}{hint}", repo.loc(fn))
    q2 = f"{PJ}._find_licenses"
    f2 = repo.func(q2)

    class H2(Hooks):
        def atom(self, text, node, it):
            t = text
            # Path(Path(x)) is Path(x): the redundant wrapper may be there or not
            if "Path(Path(path_str))" not in t:
                t = t.replace("Path(path_str)", "Path(Path(path_str))") if re.match(r"Path\(path_str\)\.(exists\(\)|is_dir\(\)|suffix == '\.license')$", t) else t
            if t == "Path(Path(path_str)).exists()":
                return "exists"
            if t == "Path(Path(path_str)).is_dir()":
                return "is_dir"
            if t == "Path(Path(path_str)).suffix == '.license'":
                return "dot_license"
            if t == "self.relative_from_root(Path(path_str)).name in self.license_map":
                return "name_known"
            if re.fullmatch(r".* in license_files", t):
                return "duplicate"
            # the same question asked through .get(): the values are paths, never None
            if re.fullmatch(r"license_files\.get\(.*\) is not None", t):
                return "duplicate"
            if re.fullmatch(r"license_files\.get\(.*\) is None", t):
                return ("not", "duplicate")
            if t.startswith("_LICENSEREF_PATTERN.match("):
                return "lref"
            if "'Unknown' not in " in t:
                return ("not", "unknown")
            return None

        def raises(self, text, call, it):
            if ast.unparse(call.func) == "self._identifier_of_license":
                return ["SpdxIdentifierNotFoundError"]
            return []

        def event(self, text, call, it):
            f = ast.unparse(call.func)
            if f == "glob.iglob":
                return ("scan", text)
            return None

        def store(self, ttext, vt, target, it):
            if ttext.startswith("self.licenses_without_extension["):
                return ("no-ext", ttext, vt)
            if ttext.startswith("license_files["):
                return ("provide", ttext, vt)
            if ttext.startswith("self.license_map["):
                return ("register", ttext)
            return None

    PRE = "each path_str in glob.iglob(directory, recursive=True)::"
    NF = PRE + "raise[SpdxIdentifierNotFoundError]@self._identifier_of_license(self.relative_from_root(Path(path_str)))"

    def ref2(v):
        if not v(PRE + "exists") or v(PRE + "is_dir"):
            return {"skip": True}
        if v(PRE + "dot_license"):
            return {"skip": True}
        nf = v(NF)
        out = {"skip": False, "nf": nf, "name_known": v(PRE + "name_known") if nf else None}
        out["dup"] = v(PRE + "duplicate")
        if not out["dup"]:
            out["lref"] = v(PRE + "lref")
            out["unknown"] = v(PRE + "unknown") if out["lref"] else None
        return out

    leaves = tabulate(f2, H2(), ref2)
    hidden_reported: list = []
    r.floor(8, "paths through _find_licenses", got=len(leaves))
    for d, leaf, spec in leaves:
        ev = [e for c, e in _flat(leaf.events) if c and e[0] != "caught"]
        scan = [e for c, e in _flat(leaf.events) if e[0] == "scan"]
        name = show_valuation({k.split("::")[-1][:40]: v for k, v in d.items()})
        r.instance("scan:" + name, {"cell": name, "effects": [repr(e)[:80] for e in ev]})
        if not scan or not _recursive_licenses_scan(scan[0][1]):
            r.violation(q2, "scan is not recursive over LICENSES/**", f"{scan}", repo.loc(f2))
        elif not _includes_hidden(scan[0][1]) and not hidden_reported:
            hidden_reported.append(1)
            r.violation(q2, "the LICENSES/ scan does not see names that begin with a dot",
                        "glob's `*` and `**` skip entries whose name starts with `.` unless include_hidden=True (library semantics): a licence"
                        " text in `LICENSES/.old/CC0-1.0.txt` does not count - lint reports CC0-1.0 missing - while the same file in"
                        " `LICENSES/old/` does ('licence texts in subdirectories of LICENSES/ count')", repo.loc(f2))
        eff = [e for e in ev if e[0] != "element-end"]
        end = [e for e in ev if e[0] == "element-end"]
        if spec["skip"]:
            if eff or end not in ([("element-end", "continue")], [("element-end", "next")]):
                r.violation(q2, f"skipped entry has effects [{name}]", f"{eff}", repo.loc(f2))
            continue
        if spec["dup"]:
            if leaf.outcome[:2] != ("raise", "RuntimeError") or any(e[0] == "provide" for e in eff):
                r.violation(q2, f"duplicate identifier not rejected [{name}]", f"{leaf.outcome[:2]} {eff}", repo.loc(f2))
            continue
        ident = "self._identifier_of_license(self.relative_from_root(Path(path_str)))"
        rel = "self.relative_from_root(Path(path_str))"
        want = []
        if spec["nf"]:
            if spec["name_known"]:
                ident = f"{rel}.name"
                want.append(("no-ext", f"self.licenses_without_extension[{ident}]", rel))
            else:
                ident = f"{rel}.stem"
        want.append(("provide", f"license_files[{ident}]", rel))
        if spec["lref"] and not spec["unknown"]:
            want.append(("register", f"self.license_map[{ident}]"))
        if eff != want:
            r.violation(q2, f"scan cell [{name}]", f"effects {eff}; expected {want}", repo.loc(f2))


def rule_language_and_case(ck: Check, repo: Repo, folder: Folder, rid: str = "R5") -> None:
    r = ck.rule(rid, "LicenseRef- language; identifiers are never case-folded on the lint path")
    rx = folder.known("reuse.extract", "_LICENSEREF_PATTERN")
    if not isinstance(rx, Regex):
        raise AnalysisError("_LICENSEREF_PATTERN did not fold")
    ref = r"LicenseRef-[A-Za-z0-9.\-]+\Z"
    alpha = Alphabet([(rx.pattern, rx.flags), (ref, 0)], extra="aZ0.-_+ \n")
    # every use of the pattern: the method applied decides the language (identifiers and file names may end in a line
    # break: `$` accepts one, `\Z` does not)
    uses = []
    for q, fn in repo.functions.items():
        for n in ast.walk(fn):
            if isinstance(n, ast.Call) and isinstance(n.func, ast.Attribute) and isinstance(n.func.value, ast.Name) \
                    and n.func.value.id == "_LICENSEREF_PATTERN" and n.func.attr in ("match", "fullmatch", "search"):
                uses.append((q, {"match": "match", "fullmatch": "full", "search": "search"}[n.func.attr], n))
    r.floor(3, "uses of _LICENSEREF_PATTERN", got=len(uses))
    L_ref = Lang.from_regex(ref, 0, alpha, "match")
    seen_modes = set()
    for q, mode, node in uses:
        if mode in seen_modes:
            continue
        seen_modes.add(mode)
        d = difference(Lang.from_regex(rx.pattern, rx.flags, alpha, mode), L_ref)
        r.instance(f"_LICENSEREF_PATTERN:{mode}", {"pattern": rx.pattern, "applied_with": mode, "difference": d, "first_use": q})
        if d is not None:
            r.violation("reuse.extract._LICENSEREF_PATTERN", "LicenseRef- language",
                        f"{d[1]!r} is {d[0]} compared with LicenseRef-[A-Za-z0-9.-]+ under {mode}() (first use: {q})",
                        repo.loc(repo.module_assign("reuse.extract", "_LICENSEREF_PATTERN")))
    fold_calls = []
    control = 0
    for q, fn in repo.functions.items():
        for n in ast.walk(fn):
            if isinstance(n, ast.Call) and isinstance(n.func, ast.Attribute) and n.func.attr in ("lower", "upper", "casefold", "title", "swapcase", "capitalize"):
                if q.startswith(("reuse.report.", "reuse.project.", "reuse._licenses.", "reuse._util.")):
                    fold_calls.append((q, ast.unparse(n), repo.loc(n)))
                else:
                    control += 1
    # the expression parser itself: license_expression.Licensing() WITHOUT known symbols keeps every key as written;
    # given a symbol table it switches to a tokenizer that matches the known symbols case-insensitively and rewrites them
    # to their canonical spelling (library semantics, table T2): `classpath-exception-2.0` then counts as the SPDX
    # identifier `Classpath-exception-2.0` - neither bad nor missing
    n_lic = 0
    for m in repo.modules.values():
        for c in ast.walk(m.tree):
            if isinstance(c, ast.Call) and ast.unparse(c.func).split(".")[-1] == "Licensing":
                n_lic += 1
                has_symbols = bool(c.args) or any(kw.arg in ("symbols",) for kw in c.keywords)
                r.instance(f"parser:{m.name}:{ast.unparse(c)[:40]}", {"module": m.name, "call": ast.unparse(c)[:80], "symbol_table": has_symbols})
                if has_symbols:
                    r.violation(m.name, "the expression parser is given a table of known symbols",
                                f"`{ast.unparse(c)[:70]}`: license_expression matches known symbols case-insensitively and replaces them"
                                " by the table's spelling, so a wrongly cased identifier (`classpath-exception-2.0`, `mit`) is silently"
                                " corrected before it is classified - identifiers are case-sensitive", f"{m.rel}:{c.lineno}")
    if n_lic < 1:
        raise AnalysisError("no Licensing(...) construction found (anchor vanished)")
    r.instance("case-folding-calls", {"on_lint_path": fold_calls, "elsewhere(positive control)": control})
    if control < 1:
        raise AnalysisError("C06-R5 positive control failed: no case-folding call found anywhere (comment.py/download.py use .lower())")
    for q, t, loc in fold_calls:
        r.violation(q, f"case folding {t}", "SPDX identifiers are case-sensitive; no case folding on the lint path", loc)
    # ProjectReport.generate classification of LICENSES/ entries is decided in C01-R3 (bad / deprecated)


def rule_inventory_loop(ck: Check, repo: Repo, rid: str = "R6") -> None:
    """ProjectReport.generate, per entry of LICENSES/: bad iff its identifier is not in the licence map, else deprecated
    iff the map marks it so; the extension-less set is the project's.  The three classifications are independent of
    one another (an extension-less deprecated licence is both)."""
    r = ck.rule(rid, "LICENSES/ entries: bad ⇔ not in the map; deprecated ⇔ map marks it (whatever else is true of the entry)")
    q = f"{RP}.ProjectReport.generate"
    fn = repo.func(q)
    ck.analysed_fn(q)

    class H(Hooks):
        def atom(self, text, node, it):
            if re.fullmatch(r"(\w+) in project\.license_map", text):
                return "@in_map"
            if re.fullmatch(r"project\.license_map\[(\w+)\]\['isDeprecatedLicenseId'\]", text) or \
                    re.fullmatch(r"project\.license_map\[(\w+)\]\.get\('isDeprecatedLicenseId'(, False)?\)", text):
                return "@marked_deprecated"
            return None

        def event(self, text, call, it):
            f = ast.unparse(call.func)
            if f.endswith(".add") and ("bad_licenses" in f or "deprecated_licenses" in f):
                return ("classify", "bad" if "bad_licenses" in f else "deprecated", [it.text(a) for a in call.args], f)
            return None

        def store(self, ttext, vt, target, it):
            if ttext.endswith(".licenses_without_extension"):
                return ("without-extension", vt)
            return None

    def ref(v):
        if not v("@in_map"):
            return ["bad"]
        if v("@marked_deprecated"):
            return ["deprecated"]
        return []

    leaves = tabulate(fn, H(), ref)
    seen = set()
    n = 0
    for d, leaf, exp in leaves:
        got = []
        wext = []
        in_loop = False
        for e in leaf.events:
            ctx = ()
            while e[0] == "each":
                ctx = e[1]
                e = e[2]
            if e[0] == "classify" and any("project.licenses" in c for c in ctx):
                got.append(e[1])
                in_loop = True
            if e[0] == "without-extension":
                wext.append(e[1])
        short = {k: v for k, v in d.items() if k in ("@in_map", "@marked_deprecated") or (k.startswith("each ") and "project.licenses" in k)
                 or (k.startswith("?") and "licens" in k)}
        key = (tuple(sorted(short.items())), tuple(got), tuple(wext))
        if key in seen or "@in_map" not in d:
            continue
        seen.add(key)
        n += 1
        r.instance("entry:" + show_valuation(short), {"valuation": show_valuation(short), "classified_as": got, "without_extension_set": wext})
        if got != exp:
            free = [a.split("::")[-1][1:] for a in short if a.split("::")[-1].startswith("?")]
            r.violation(q, f"[{show_valuation(short)}] LICENSES/ entry classified as {got or 'nothing'}",
                        f"the specification says {exp or 'nothing'}"
                        + (f"; the classification depends on {free[0]!r} - deprecated / bad must not depend on anything but the licence map" if free else ""),
                        f"{repo.module(RP).rel}:{leaf.trace[-1] if leaf.trace else fn.lineno}", {"valuation": d})
        if wext != ["project.licenses_without_extension"]:
            r.violation(q, "extension-less licences are not taken from the project's scan", f"{wext}", repo.loc(fn))
    r.floor(3, "LICENSES/ entry cells", got=n)



def run(ck: Check, repo: Repo) -> None:
    ck.explanation = (
        "Classification tables over identifier atoms: the per-identifier cell table of FileReport.generate (8 cells:"
        " plus-form, on-map, provided) against the specification, the who-writes analysis of Project.license_map"
        " substituted into it (truth table over {spdx, LicenseRef, provided, Unknown}), the unused/used comprehensions"
        " as boolean formulas, the LICENSES/** scan table (skip / no-extension / stem fallback / duplicate / register),"
        " the LicenseRef- language by DFA equivalence and a zero-count rule for case folding with a positive control."
        " Not decided: that license_expression.license_keys returns every key of a compound expression (library)."
    )
    ck.not_decided = ["license_expression.Licensing.license_keys covers AND/OR/WITH/parentheses (third-party library)"]
    ck.trust("CPython ast", "sa/tab.py", "sa/relang.py", "sa/fold.py")
    folder = Folder(repo)
    rule_identifier_table(ck, repo)
    rule_map_contents(ck, repo)
    rule_unused(ck, repo)
    rule_scan(ck, repo)
    rule_language_and_case(ck, repo, folder)
    rule_inventory_loop(ck, repo)
