"""C10 - re-running annotate with the same arguments changes nothing: order taint on the annotate path,
writer/finder agreement of the comment styles, no separator after an existing header."""
from __future__ import annotations

import ast
import re

from ..callgraph import CallGraph
from ..fold import Folder, Regex
from ..model import AnalysisError, Repo, parent_of
from ..relang import Alphabet, Lang
from ..report import Check
from ..rules import find_calls
from ..taint import OrderTaint
from ..typed import TypeFacts
from . import c02, c08, c14

MAIN = "reuse.cli.main.main"
CS = "reuse.comment.CommentStyle"


def rule_order(ck: Check, repo: Repo) -> None:
    r = ck.rule("R1", "nothing written by annotate depends on set / file-system order (same input, same bytes)")
    facts = TypeFacts(repo)
    cg = CallGraph(repo, facts)
    ot = OrderTaint(repo, facts, cg)
    an = repo.qualname_of(repo.commands()["annotate"])
    reach = cg.reachable([MAIN, an])
    ck.extra["reachable_functions"] = len(reach)
    ck.extra.setdefault("hygiene_scope", []).extend(sorted(reach))
    if len(reach) < 60:
        raise AnalysisError(f"reach set of annotate too small: {len(reach)}")
    sinks = ot.sinks(sorted(reach))
    r.count(len(ot.set_iterations), prefix="unordered-iteration")
    for s in sinks:
        why = c14.discharge(repo, s)
        r.instance(f"sink:{s.kind}:{s.function}:{ast.unparse(s.node)[:40]}",
                   {"sink": s.kind, "function": s.function, "what": s.why, "order_source": s.source, "discharged": why}, s.function)
        if why is None:
            r.violation(s.function, f"{s.kind}: {s.why}",
                        f"order comes from {s.source}: two runs with identical arguments can write different headers",
                        repo.loc(s.node))
    # the three collections handed to the template are sorted
    fn = repo.func("reuse.header._create_new_header")
    calls = find_calls(fn, lambda c, f: f == "template.render")
    for c in calls:
        for kw in c.keywords:
            v = ast.unparse(kw.value)
            r.instance(f"render:{kw.arg}", {"argument": v})
            if not v.startswith("sorted("):
                r.violation("reuse.header._create_new_header", f"S5: template argument {kw.arg} is not sorted",
                            f"{kw.arg}={v}: a set rendered in iteration order changes the header between runs", repo.loc(c))
            elif isinstance(kw.value, ast.Call) and any(k.arg == "key" for k in kw.value.keywords):
                from ..taint import _injective_key
                key = next(k.value for k in kw.value.keywords if k.arg == "key")
                if not _injective_key(key):
                    r.violation("reuse.header._create_new_header", f"S5: template argument {kw.arg} is sorted with a key under which lines can tie",
                                f"{kw.arg}={v}: sorted() is stable, so lines that are equal under the key keep the set's iteration"
                                f" order, which changes with the hash seed - two runs write the lines in different order", repo.loc(c))
    r.floor(3, "template arguments", got=sum(len(c.keywords) for c in calls))


def rule_ambiguity(ck: Check, repo: Repo, folder: Folder) -> None:
    r = ck.rule("R2", "a header written in either comment form is found again (single-line detection runs before multi-line)")
    styles = c02.style_tables(folder)
    q = f"{CS}.comment_at_first_character"
    fn = repo.func(q)
    ck.analysed_fn(q)
    # CFG order: the single-line scan precedes the multi-line test, and the multi-line test requires `end is None`
    ifs = [s for s in fn.body if isinstance(s, ast.If)]
    single_first = False
    multi_guard = ""
    for i, st in enumerate(ifs):
        t = ast.unparse(st.test)
        if t == "cls.can_handle_single()":
            single_first = True
        if "cls.can_handle_multi()" in t and "startswith(cls.MULTI_LINE.start)" in t:
            multi_guard = t
            break
    r.instance("detection-order", {"single_scan_first": single_first, "multi_guard": multi_guard})
    shadowing = single_first and "end is None" in multi_guard
    both = [s for s in styles if s["single"] and s["start"] and s["end"]]
    r.floor(4, "styles with both comment forms", got=len(both))
    for s in both:
        amb = s["start"].startswith(s["single"])
        r.instance(f"style:{s['name']}", {"style": s["name"], "single": s["single"], "multi_start": s["start"],
                                          "multi_start_looks_single": amb}, s["qual"])
        if amb and shadowing:
            r.violation(s["qual"], f"multi-line opener {s['start']!r} starts with the single-line marker {s['single']!r}",
                        f"a header written with --multi-line ({s['start']} … {s['end']}) is parsed as a one-line {s['single']}-comment:"
                        f" the block is not found again and a second header is stacked on top at the next run", "src/reuse/comment.py")


def _leftmost(e: ast.AST) -> str:
    """Text of the leftmost operand of a concatenation / the first piece of an f-string."""
    while True:
        if isinstance(e, ast.BinOp) and isinstance(e.op, ast.Add):
            e = e.left
        elif isinstance(e, ast.JoinedStr) and e.values:
            v = e.values[0]
            e = v.value if isinstance(v, ast.FormattedValue) else v
        else:
            return ast.unparse(e)


def _marker_on_every_line(ws: ast.FunctionDef) -> bool:
    """_create_comment_single: every line of the text (also an empty one) yields an output line that BEGINS with the style's
    single-line marker.  Recognised shapes: a loop over the lines whose unconditional `result.append(X)` appends a value whose
    first definition in the loop body starts with cls.SINGLE_LINE, or the same as a comprehension.  Other shapes: exit 2."""
    loops = [n for n in ast.walk(ws) if isinstance(n, ast.For) and re.search(r"\.split\('\\n'\)|\.splitlines\(", ast.unparse(n.iter))]
    comps = [n for n in ast.walk(ws) if isinstance(n, (ast.ListComp, ast.GeneratorExp)) and any(re.search(r"\.split\('\\n'\)|\.splitlines\(", ast.unparse(g.iter)) for g in n.generators)]
    if len(loops) == 1:
        lp = loops[0]
        appends = [st for st in lp.body if isinstance(st, ast.Expr) and isinstance(st.value, ast.Call) and ast.unparse(st.value.func).endswith(".append") and st.value.args]
        if len(appends) != 1:
            return False          # no unconditional append: some line yields no output line
        v = appends[0].value.args[0]
        if isinstance(v, ast.Name):
            defs = [st for st in lp.body if isinstance(st, ast.Assign) and any(isinstance(t, ast.Name) and t.id == v.id for t in st.targets)]
            if not defs:
                raise AnalysisError("_create_comment_single: the appended line is not defined in the loop body (shape not enumerated)")
            return _leftmost(defs[0].value) == "cls.SINGLE_LINE"
        return _leftmost(v) == "cls.SINGLE_LINE"
    if len(comps) == 1 and not loops:
        from ..rules import resolve_deep as _rdl
        elt = _rdl(ws, comps[0].elt)      # locals such as `marker = cls.SINGLE_LINE` are read through
        return not any(g.ifs for g in comps[0].generators) and _leftmost(elt if not isinstance(elt, ast.IfExp) else elt.body) == "cls.SINGLE_LINE" \
            and (not isinstance(elt, ast.IfExp) or _leftmost(elt.orelse) == "cls.SINGLE_LINE")
    raise AnalysisError("_create_comment_single: how the lines of the comment are produced could not be read (shape not enumerated)")


def rule_writer_finder(ck: Check, repo: Repo, folder: Folder) -> None:
    r = ck.rule("R3", "writer and finder of comment blocks agree (every emitted line is recognised as part of the block)")
    styles = c02.style_tables(folder)
    ws = repo.func(f"{CS}._create_comment_single")
    ok = _marker_on_every_line(ws)
    r.instance("_create_comment_single", {"marker_on_every_line": ok})
    if not ok:
        r.violation(f"{CS}._create_comment_single", "not every emitted line starts with the single-line marker",
                    "a blank line inside the header would end the block for comment_at_first_character", repo.loc(ws))
    cf = repo.func(f"{CS}.comment_at_first_character")
    s2 = re.sub(r"\s+", " ", ast.unparse(cf))
    ok2 = "(cls.SINGLE_LINE_REGEXP and cls.SINGLE_LINE_REGEXP.match(line)) or line.startswith(cls.SINGLE_LINE)" in s2 or \
        "cls.SINGLE_LINE_REGEXP and cls.SINGLE_LINE_REGEXP.match(line) or line.startswith(cls.SINGLE_LINE)" in s2
    r.instance("finder-single", {"accepts_marker_prefix": ok2})
    if not ok2:
        r.violation(f"{CS}.comment_at_first_character", "single-line scan does not accept lines starting with the marker", "", repo.loc(cf))
    wm = repo.func(f"{CS}._create_comment_multi")
    s3 = re.sub(r"\s+", " ", ast.unparse(wm))
    ok3 = ("result.append(cls.MULTI_LINE.start)" in s3 or "result = [cls.MULTI_LINE.start]" in s3) \
        and "result.append(cls.INDENT_BEFORE_END + cls.MULTI_LINE.end)" in s3
    if not ok3:
        # the same brackets as the first and the last element of one list display handed to join
        for lst in [n for n in ast.walk(wm) if isinstance(n, (ast.List, ast.Tuple)) and len(n.elts) >= 3]:
            if ast.unparse(lst.elts[0]) == "cls.MULTI_LINE.start" and ast.unparse(lst.elts[-1]) == "cls.INDENT_BEFORE_END + cls.MULTI_LINE.end":
                ok3 = True
        if not ok3 and "cls.MULTI_LINE.start" in s3 and "cls.MULTI_LINE.end" in s3 and ".append(" not in s3:
            raise AnalysisError("_create_comment_multi: how the opening and the closing delimiter are put around the lines could not be"
                                " read (shape not enumerated)")
    # the block ends at the first line that ends in the closing delimiter - left by `break` or by returning the block there
    ok4 = "text.startswith(cls.MULTI_LINE.start)" in s2 and re.search(
        r"if (line(\.rstrip\(\))?\.endswith\(cls\.MULTI_LINE\.end\)|cls\.MULTI_LINE\.end in line): (end = \w+ )?(break|return )", s2) is not None
    if not ok4 and "text.startswith(cls.MULTI_LINE.start)" in s2:
        # the same first-closing-line search as a generator handed to next()
        ok4 = re.search(r"next\(\(\w+ for \w+, line in enumerate\(lines\) if (line(\.rstrip\(\))?\.endswith\(cls\.MULTI_LINE\.end\)|cls\.MULTI_LINE\.end in line)\)",
                        s2) is not None
        if not ok4 and "cls.MULTI_LINE.end" in s2 and not any(isinstance(n, ast.For) for n in ast.walk(cf)):
            raise AnalysisError("comment_at_first_character: how the closing line of a multi-line block is found could not be read"
                                " (neither a loop nor a next() generator over the lines)")
    r.instance("multi-line", {"writer_brackets": ok3, "finder_brackets": ok4})
    if not ok3:
        r.violation(f"{CS}._create_comment_multi", "multi-line writer/finder brackets", f"writer={ok3} finder={ok4}", repo.loc(wm))
    elif not ok4:
        r.violation(f"{CS}.comment_at_first_character", "multi-line writer/finder brackets", f"writer={ok3} finder={ok4}", repo.loc(cf))
    # a style's own marker must be matched by its SINGLE_LINE_REGEXP (if any)
    for s in styles:
        rx = s.get("regexp")
        if isinstance(rx, Regex) and s["single"]:
            alpha = Alphabet([(rx.pattern, rx.flags)], extra=s["single"] + " a", exclude="\n")
            ok5 = Lang.from_regex(rx.pattern, rx.flags, alpha, "match").accepts(s["single"])
            r.instance(f"regexp:{s['name']}", {"style": s["name"], "regexp": rx.pattern, "matches_own_marker": ok5})
            if not ok5:
                r.violation(s["qual"], "SINGLE_LINE_REGEXP does not match the style's own marker", f"{rx.pattern!r} vs {s['single']!r}",
                            "src/reuse/comment.py")
    # the finder takes the first block that contains REUSE information (C08-R4) and place_header adds no separator
    # after an existing header (C08-R1 cell) - both re-checked here because they are what makes the second run a no-op
    c08.rule_partition(ck, repo, "R4")
    c08.rule_place_header(ck, repo, "R5")
    # whether the first run leaves a blank line after the header (existing-header flag = a header block was found) decides
    # what the second run takes for the header block (shared with C08-R3)
    try:
        c08.rule_shebang(ck, repo, "R8")
    except AnalysisError as err:
        ck.defer(err)   # undecided first-line mechanism: the remaining rules still run


def rule_finder_predicate(ck: Check, repo: Repo, rid: str = "R6") -> None:
    """The block finder recognises a header by contains_reuse_info(); that predicate must hold for a header
    holding ANY kind of information annotate can write (copyright, licence, contributor) - otherwise the tool
    does not find the header it wrote itself."""
    from ..rules import bool_formula, equivalent
    from ..tab import Valuation, evalf
    from .c07 import set_fields
    r = ck.rule(rid, "the header finder's predicate covers every kind of information annotate can write")
    fields = set_fields(repo)
    q = "reuse.extract.contains_reuse_info"
    fn = repo.func(q)
    ck.analysed_fn(q, "reuse.ReuseInfo.__bool__")
    rets = [n.value for n in ast.walk(fn) if isinstance(n, ast.Return) and not (isinstance(n.value, ast.Constant) and n.value.value is False)]
    if len(rets) != 1:
        raise AnalysisError("contains_reuse_info: expected one positive return")
    txt = ast.unparse(rets[0])
    bq = repo.func("reuse.ReuseInfo.__bool__")
    bool_all = [ast.unparse(n.value) for n in ast.walk(bq) if isinstance(n, ast.Return)] == ["any(self.__dict__.values())"]
    ALL = ("or",) + tuple(fields)
    forms = {
        "bool(extract_reuse_info(text))": ALL if bool_all else None,
        "extract_reuse_info(text).contains_info()": ALL,
        "extract_reuse_info(text).contains_copyright_or_licensing()": ("or", "spdx_expressions", "copyright_lines"),
        "extract_reuse_info(text).contains_copyright_xor_licensing()": ("xor", "spdx_expressions", "copyright_lines"),
    }
    f = forms.get(txt)
    r.instance(q, {"returns": txt, "formula": repr(f), "fields_annotate_writes": fields})
    if f is None:
        raise AnalysisError(f"contains_reuse_info returns {txt}: unrecognised predicate")
    import itertools
    for bits in itertools.product([False, True], repeat=len(fields)):
        d = dict(zip(fields, bits))
        if any(bits) and not evalf(f, Valuation(d)):
            only = [k for k, v in d.items() if v]
            r.violation(q, f"a header holding only {'+'.join(only)} is not recognised as a REUSE header",
                        f"contains_reuse_info returns `{txt}`; annotate can write such a header (e.g. --contributor alone) but"
                        f" _find_first_spdx_comment will not find it again: every further run stacks a new header", repo.loc(fn))
            break
    # the predicate is TOTAL: no shortcut decides a text before it was parsed (a marker pre-test overlooks a notice
    # style the reader knows, e.g. a bare '©' line) - decided as a table: False only when the parser fails
    from ..tab import Hooks, tabulate, show_valuation
    PERR = "raise[ExpressionError]@extract_reuse_info(text)"

    class HP(Hooks):
        def raises(self, text, call, it):
            return ["ExpressionError"] if ast.unparse(call.func) == "extract_reuse_info" else []

    seen_cells = set()
    for d, leaf, _ in tabulate(fn, HP(), params=["text"]):
        failed = any(k.startswith("raise[") and v for k, v in d.items())
        other = {k: v for k, v in d.items() if not k.startswith("raise[")}
        cell = (failed, tuple(sorted(other.items())), leaf.outcome[:2])
        if cell in seen_cells:
            continue
        seen_cells.add(cell)
        r.instance("predicate-path:" + show_valuation(d), {"valuation": show_valuation(d), "outcome": leaf.outcome[:2]})
        if other:
            free = [k.lstrip("?") for k in other]
            r.violation(q, f"the finder predicate depends on {free[0]!r}",
                        f"[{show_valuation(d)}] -> {leaf.outcome[:2]}: whether a block is a REUSE header must be decided by parsing"
                        f" it and nothing else; a pre-test on the raw text disagrees with the reader for some notice spelling, the"
                        f" tool then does not find the header it wrote and stacks a second one", repo.loc(fn), {"valuation": d})
        elif failed and leaf.outcome[:2] != ("return", "False"):
            r.violation(q, "an unparseable block is not treated as 'no header'", f"{leaf.outcome[:2]}", repo.loc(fn))
    ff = repo.func("reuse.header._find_first_spdx_comment")
    if "if contains_reuse_info(comment):" not in ast.unparse(ff):
        r.violation("reuse.header._find_first_spdx_comment", "finder predicate", "the finder must use contains_reuse_info(comment)", repo.loc(ff))


# ---------------------------------------------------------------------------------------------------------------
# R9: free-text values requested on the command line enter the header in the reader's normal form
class _NormalForm:
    """Per-element flow status of the raw command-line strings up to ReuseInfo: 'norm' (every occurrence passes a
    str.strip()/split() or a package function that normalises its parameter), 'raw' (reaches the header as given), or
    'unknown' (passes a call this analysis does not model)."""

    def __init__(self, repo: Repo):
        self.repo = repo

    def callee(self, fn: ast.FunctionDef, call: ast.Call):
        mod = self.repo.module_of(fn)
        d = self.repo.dotted(mod, call.func) if isinstance(call.func, (ast.Name, ast.Attribute)) else None
        if d and self.repo.has_func(d):
            return self.repo.func(d)
        return None

    def elem(self, fn: ast.FunctionDef, elt: ast.AST, var: str, depth: int = 0) -> str:
        from ..model import parent_of
        from ..rules import param_names
        for n in ast.walk(elt):
            for c in ast.iter_child_nodes(n):
                c._nf_parent = n  # type: ignore[attr-defined]
        worst = "norm"
        rank = {"norm": 0, "unknown": 1, "raw": 2, "altered": 3}
        for n in ast.walk(elt):
            if not (isinstance(n, ast.Name) and n.id == var and isinstance(n.ctx, ast.Load)):
                continue
            st = "raw"
            par = getattr(n, "_nf_parent", None)
            if isinstance(par, ast.Attribute) and par.attr == "strip":
                call = getattr(par, "_nf_parent", None)
                if isinstance(call, ast.Call) and call.func is par and not call.args and not call.keywords:
                    st = "norm"
                elif isinstance(call, ast.Call):
                    st = "unknown"
            elif isinstance(par, ast.Attribute) and par.attr in ("split", "replace", "lower", "upper", "casefold", "title", "translate", "expandtabs"):
                st = "altered"      # rewrites the INSIDE of the text as well: the notice read back is not the one requested
            elif isinstance(par, ast.Attribute):
                st = "unknown"      # some other method of the string
            elif isinstance(par, ast.keyword):
                par = getattr(par, "_nf_parent", None)
            if isinstance(par, ast.Call) and par.func is not n and st == "raw":
                g = self.callee(fn, par) if depth < 3 else None
                if g is None:
                    st = "unknown" if not (isinstance(par.func, ast.Name) and par.func.id in ("str", "format")) else "raw"
                else:
                    names = [x for x in param_names(g) if x not in ("self", "cls")]
                    pname = None
                    for i, a in enumerate(par.args):
                        if a is n and i < len(names):
                            pname = names[i]
                    for kw in par.keywords:
                        if kw.value is n:
                            pname = kw.arg
                    st = self.ret(g, pname, depth + 1) if pname else "unknown"
            if rank[st] > rank[worst]:
                worst = st
        return worst

    def ret(self, g: ast.FunctionDef, p: str, depth: int) -> str:
        """Status of parameter *p* in what g returns."""
        from ..rules import resolve_deep
        for st in g.body:
            if isinstance(st, ast.Expr) and isinstance(st.value, ast.Constant):
                continue
            if (isinstance(st, ast.Assign) and len(st.targets) == 1 and isinstance(st.targets[0], ast.Name) and st.targets[0].id == p
                    and self.elem(g, st.value, p, depth) == "norm"):
                return "norm"
            if any(isinstance(n, ast.Name) and n.id == p for n in ast.walk(st)) and not isinstance(st, (ast.If,)):
                break
            if isinstance(st, ast.If) and any(isinstance(x, (ast.Return, ast.Assign)) for x in ast.walk(st)
                                              if any(isinstance(m, ast.Name) and m.id == p for m in ast.walk(x))):
                break
        worst = "norm"
        rank = {"norm": 0, "unknown": 1, "raw": 2, "altered": 3}
        rets = [n for n in ast.walk(g) if isinstance(n, ast.Return) and n.value is not None]
        if not rets:
            return "unknown"
        for rt in rets:
            st = self.elem(g, resolve_deep(g, rt.value), p, depth)
            if rank[st] > rank[worst]:
                worst = st
        return worst

    def coll(self, fn: ast.FunctionDef, expr: ast.AST, depth: int = 0) -> tuple[str, str]:
        """(status, via) of the strings in a collection-valued expression of fn."""
        from ..rules import param_names
        if isinstance(expr, ast.Name):
            if expr.id in param_names(fn):
                return "param", expr.id
            return "unknown", ast.unparse(expr)
        if isinstance(expr, ast.Call):
            name = ast.unparse(expr.func)
            if name in ("set", "list", "tuple", "sorted", "frozenset") and len(expr.args) == 1:
                return self.coll(fn, expr.args[0], depth)
            if name == "map" and len(expr.args) == 2 and ast.unparse(expr.args[0]) == "str.strip":
                return "norm", "map(str.strip, …)"
            return "unknown", name + "(…)"
        if isinstance(expr, (ast.SetComp, ast.ListComp, ast.GeneratorExp)) and len(expr.generators) == 1 \
                and isinstance(expr.generators[0].target, ast.Name):
            gen = expr.generators[0]
            inner, via = self.coll(fn, gen.iter, depth)
            if inner == "norm":
                return inner, via
            st = self.elem(fn, expr.elt, gen.target.id)
            if st == "norm":
                return "norm", ast.unparse(expr.elt)
            if st in ("unknown", "altered"):
                return st, ast.unparse(expr.elt)
            return inner, via
        if isinstance(expr, ast.BinOp) and isinstance(expr.op, ast.BitOr):
            a, b = self.coll(fn, expr.left, depth), self.coll(fn, expr.right, depth)
            return max((a, b), key=lambda t: {"norm": 0, "unknown": 1, "param": 2}.get(t[0], 1))
        return "unknown", ast.unparse(expr)


def rule_normal_form(ck: Check, repo: Repo, rid: str = "R9") -> None:
    """The reader never returns a copyright or contributor value with surrounding blanks (the tag patterns consume
    `[ \\t]+` before and blanks before the line end after the value; decided by C02).  The merge with what the file
    already declares is a set union of strings, so a requested value that still carries surrounding blanks is a different
    element from the one read back on the next run: the second run adds the line again.  Necessary condition decided
    here: on every flow from the --copyright / --contributor parameters to ReuseInfo the string passes a normalisation."""
    from ..model import named_args
    from ..rules import resolve_deep
    r = ck.rule(rid, "requested copyright and contributor texts enter ReuseInfo without surrounding blanks (the form the reader returns)")
    q = "reuse.cli.annotate.get_reuse_info"
    fn = repo.func(q)
    ck.analysed_fn(q, repo.loc(fn))
    calls = [c for c in ast.walk(fn) if isinstance(c, ast.Call) and ast.unparse(c.func).split(".")[-1] == "ReuseInfo"]
    if len(calls) != 1:
        raise AnalysisError("get_reuse_info: exactly one ReuseInfo(...) expected")
    args = named_args(calls[0])
    nf = _NormalForm(repo)
    # a BLANK text is not a value at all: it is written as `SPDX-FileCopyrightText: 2020 ` (a notice without holder), read
    # back without the trailing blank, and the identical second run adds the line again.  Decided: the pre-flight of the
    # command refuses it (a usage error guarded by an emptiness test after strip()) before any file is touched.
    an = repo.commands().get("annotate")
    pre = [repo.functions[f"reuse.cli.annotate.{n}"] for n in ("test_mandatory_option_required",) if f"reuse.cli.annotate.{n}" in repo.functions]
    refusals = []
    from ..rules import deep_text as _deep

    def _dtx(f_, e) -> str:
        """test text with the single-assignment locals it mentions resolved (`stripped = [v.strip() …]; if not all(stripped)`)"""
        try:
            return _deep(f_, e)
        except Exception:  # noqa: BLE001
            return ast.unparse(e)

    for f in [an] + pre + [fn]:
        if f is None:
            continue
        for node in ast.walk(f):
            if isinstance(node, ast.If) and ".strip()" in _dtx(f, node.test) and re.search(r"\bnot\b|== ''|== \"\"", ast.unparse(node.test)) \
                    and any(isinstance(x, ast.Raise) and re.search(r"UsageError|BadParameter", ast.unparse(x)) for x in ast.walk(node)):
                refusals.append(ast.unparse(node.test)[:80])
    # ... and a text with a LINE BREAK is written as one tag line plus a stray comment line: it is read back cut, and the
    # stray line is dropped by the next run
    breaks = []
    weak: list = []
    for f in [an] + pre + [fn]:
        if f is None:
            continue
        for node in ast.walk(f):
            if isinstance(node, ast.If) and re.search(r"splitlines\(\)|'\\n' in |\"\\n\" in ", ast.unparse(node.test)) \
                    and any(isinstance(x, ast.Raise) and re.search(r"UsageError|BadParameter", ast.unparse(x)) for x in ast.walk(node)):
                # a count comparison must already refuse TWO lines (the smallest value with a line break)
                refuses_two = True
                for cmp_ in ast.walk(node.test):
                    if isinstance(cmp_, ast.Compare) and len(cmp_.ops) == 1 and isinstance(cmp_.comparators[0], ast.Constant) \
                            and isinstance(cmp_.comparators[0].value, int) and "splitlines()" in ast.unparse(cmp_.left) and ast.unparse(cmp_.left).startswith("len("):
                        k = cmp_.comparators[0].value
                        op = type(cmp_.ops[0])
                        refuses_two = {ast.Gt: 2 > k, ast.GtE: 2 >= k, ast.NotEq: 2 != k, ast.Lt: 2 < k, ast.LtE: 2 <= k, ast.Eq: 2 == k}.get(op, True)
                if refuses_two:
                    breaks.append(ast.unparse(node.test)[:80])
                else:
                    weak.append(ast.unparse(node.test)[:80])
    r.instance("multi-line-values-refused", {"tests": breaks, "tests_that_admit_two_lines": weak}, q)
    if not breaks:
        r.violation(repo.qualname_of(an) if an is not None else q, "a --copyright / --contributor value with a line break is accepted",
                    "`reuse annotate --contributor $'Ann\\nZed' -l MIT a.py`: writes `# SPDX-FileContributor: Ann` and a bare `# Zed` line; the"
                    " contributor read back is `Ann`, and the next run drops the `# Zed` line for good (with --copyright: a RuntimeError"
                    " traceback instead of a usage error)", repo.loc(fn))
    r.instance("blank-values-refused", {"tests": refusals}, q)
    if not refusals:
        r.violation(repo.qualname_of(an) if an is not None else q, "a blank --copyright / --contributor value is accepted",
                    "`reuse annotate -c \"\" -l MIT a.py` twice: run 1 writes `SPDX-FileCopyrightText: 2020 ` (trailing blank, no holder), run 2"
                    " reads it back without the blank and writes a second line - the file changes on an identical re-run", repo.loc(fn))
    for field in ("copyright_lines", "contributor_lines"):
        if field not in args:
            raise AnalysisError(f"get_reuse_info: ReuseInfo field {field} is not passed by keyword")
        status, via = nf.coll(fn, resolve_deep(fn, args[field]))
        where = q
        if status == "param":
            # the raw parameter of get_reuse_info: look one level up, at the call sites
            sites = []
            for cq, cfn in repo.functions.items():
                for c in ast.walk(cfn):
                    if isinstance(c, ast.Call) and ast.unparse(c.func).split(".")[-1] == "get_reuse_info":
                        sites.append((cq, cfn, c))
            if not sites:
                raise AnalysisError("no call site of get_reuse_info")
            status = "norm"
            for cq, cfn, c in sites:
                a = named_args(c).get(via)
                if a is None:
                    raise AnalysisError(f"{cq}: argument for {via} not found")
                s2, via2 = nf.coll(cfn, resolve_deep(cfn, a))
                if s2 == "param":
                    # a click parameter: raw unless the option declares a callback
                    cb = any(isinstance(d, ast.Call) and any(k.arg in ("callback", "type") and via2.rstrip("s_") in ast.unparse(d) for k in d.keywords)
                             and any(k.arg == "callback" for k in d.keywords) for d in cfn.decorator_list)
                    s2 = "unknown" if cb else "raw"
                if s2 != "norm":
                    status, where = s2, cq
        r.instance(f"normal-form:{field}", {"status": status, "via": via}, q)
        if status == "raw":
            r.violation(where, f"{field}: the requested text reaches ReuseInfo as given",
                        f"`annotate --{'copyright' if field.startswith('copy') else 'contributor'} \"Jane \"` twice: the first run writes the value with its trailing blank, the"
                        " second run reads it back without and adds the requested line a second time (the file changes on every"
                        " identical re-run until both spellings are in it)", repo.loc(calls[0]))
        elif status == "altered":
            r.violation(where, f"{field}: the requested text is rewritten, not just trimmed ({via})",
                        "only surrounding blanks may be removed: `\u5c71\u7530\u3000\u592a\u90ce` (ideographic space), a tab or two blanks inside"
                        " a holder are changed, the notice read back is not the one requested and --merge-copyrights keeps two lines for"
                        " one holder", repo.loc(calls[0]))
        elif status == "unknown":
            raise AnalysisError(f"get_reuse_info: flow of {field} passes a call this rule does not model ({via})")


def rule_merge_fixed_point(ck: Check, repo: Repo, rid: str = "R10") -> None:
    """With --merge-copyrights the second run merges what the first run wrote.  The first run's output is only left alone
    when it already is in merged form, i.e. when EVERY path of create_header - also the one without an existing header -
    passes the copyright lines through merge_copyright_lines before they are rendered."""
    r = ck.rule(rid, "--merge-copyrights: the lines written are in merged form on every path (also when no header existed)")
    q = "reuse.header.create_header"
    fn = repo.func(q)
    ck.analysed_fn(q)
    hdr = "header"
    calls = [c for c in ast.walk(fn) if isinstance(c, ast.Call) and ast.unparse(c.func).split(".")[-1] == "merge_copyright_lines"]
    r.floor(1, "merge_copyright_lines calls in create_header", got=len(calls))

    def guards(node):
        out = []
        cur = node
        while True:
            par = parent_of(cur)
            if par is None or par is fn:
                break
            if isinstance(par, ast.If):
                in_body = any(cur is x or cur in list(ast.walk(x)) for x in par.body)
                out.append((ast.unparse(par.test), in_body))
            cur = par
        return out

    covered_without_header = False
    covered_with_header = False
    for c in calls:
        g = guards(c)
        needs_header = any(re.fullmatch(rf"{hdr}( is not None)?", t) and pos for t, pos in g)
        needs_no_header = any(re.fullmatch(rf"{hdr}( is not None)?", t) and not pos for t, pos in g) or \
            any(re.fullmatch(rf"not {hdr}|{hdr} is None", t) and pos for t, pos in g)
        r.instance(f"merge@{c.lineno - fn.lineno}", {"guards": [f"{'' if pos else 'else of '}{t}" for t, pos in g]}, q)
        if not needs_header:
            covered_without_header = True
        if not needs_no_header:
            covered_with_header = True
    if not covered_with_header:
        r.violation(q, "existing notices are not merged", "no merge_copyright_lines call on the path with an existing header", repo.loc(fn))
    if not covered_without_header:
        r.violation(q, "the first run writes the request unmerged, the second run merges it",
                    "merge_copyright_lines is only reached under `if header:` - `reuse annotate -c Jane -l MIT -y 2020-2022 --merge-copyrights a.py`"
                    " writes `2020-2022 Jane`; the same command again rewrites the line to `2020 - 2022 Jane` (the file is not byte-identical"
                    " after the second run)", repo.loc(calls[0]) if calls else repo.loc(fn))


def run(ck: Check, repo: Repo) -> None:
    ck.explanation = (
        "R1 order taint on everything reachable from annotate: no value whose order comes from a set or the file"
        " system reaches the rendered header, a regex, a first-element choice or most_common; the three template"
        " arguments are sorted. R2 style-table ambiguity on the 29 folded styles: a multi-line opener that starts with"
        " the style's single-line marker, with the single-line scan running first, means the tool does not find the"
        " header it wrote itself. R3 writer/finder agreement of the comment functions, the partition and the"
        " no-separator cell of place_header (shared with C08). Not decided: byte identity for all bodies."
    )
    ck.not_decided = ["byte identity of the second run for arbitrary bodies (string values at run time)"]
    ck.trust("CPython ast", "mypy (library) types", "sa/taint.py", "sa/fold.py", "sa/tab.py")
    folder = Folder(repo)
    rule_order(ck, repo)
    rule_ambiguity(ck, repo, folder)
    rule_writer_finder(ck, repo, folder)
    rule_finder_predicate(ck, repo)
    # the year range annotate writes must already be in the form the merger produces (min - max): otherwise the second
    # run with --merge-copyrights rewrites the line the first run wrote (table shared with C20-R4)
    from . import c20
    c20.rule_get_year(ck, repo, "R7")
    rule_normal_form(ck, repo)
    rule_merge_fixed_point(ck, repo)
