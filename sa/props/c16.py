"""C16 - malformed input yields a diagnostic, never a crash: exception-escape sets, validate-before-use."""
from __future__ import annotations

import ast
import re

from ..callgraph import CallGraph, Escape
from ..model import AnalysisError, Repo, walk_no_nested
from ..report import Check
from ..rules import find_calls
from ..typed import TypeFacts

MAIN = "reuse.cli.main.main"
HANDLED_BASES = ("click.exceptions.ClickException", "click.exceptions.Abort", "click.exceptions.Exit", "builtins.SystemExit")

# (exception, origin function) pairs that cannot occur / are outside C16's quantifier - one named origin per line
TRIAGE = {
    ("builtins.NotImplementedError", "reuse.project.Project._global_licensing_from_found"):
        "the found list is homogeneous: find_global_licensing returns either one dep5 entry or only REUSE.toml entries (decided by C04-R6)",
    ("builtins.NotADirectoryError", "reuse.vcs.VCSStrategyGit.find_root"): "find_root() is called without argument: the tested directory is Path.cwd() (checked below)",
    ("builtins.NotADirectoryError", "reuse.vcs.VCSStrategyHg.find_root"): "as above",
    ("builtins.NotADirectoryError", "reuse.vcs.VCSStrategyJujutsu.find_root"): "as above",
    ("builtins.NotADirectoryError", "reuse.vcs.VCSStrategyPijul.find_root"): "as above",
    ("builtins.KeyError", "reuse.ReuseInfo._check_nonexistent"): "every .copy(...) call site names only dataclass fields (decided by C09-R2)",
    ("builtins.RuntimeError", "reuse.copyright.make_copyright_line"):
        "newline / unknown prefix come from command-line ARGUMENTS (--copyright, hidden --copyright-style), not from file content; C16 quantifies over file bytes",
    ("reuse.report.error", "reuse.report._process_error"): "re-raise of BdbQuit / KeyboardInterrupt only (debugging aid; guard checked below)",
    ("builtins.UnicodeDecodeError", "reuse.download.download_license"): "decodes the network response, not a project file",
}


def normal_origin(origin: str) -> str:
    """Group the per-VCS copies of the same construct."""
    fn, kind, text = [x.strip() for x in origin.split("|", 2)]
    if fn.startswith("reuse.vcs.VCSStrategy"):
        fn = "reuse.vcs.VCSStrategy*." + ("find_root" if fn.endswith("find_root") else "_find_*")
    # the construct is named by what is called / raised, not by how its operands are spelled
    if kind == "lib":
        m = re.search(r"(\w+)\((?:[^()]|\([^()]*\))*\)\s*$", text)
        try:
            node = ast.parse(text, mode="eval").body
            if isinstance(node, ast.Call):
                text = (node.func.attr if isinstance(node.func, ast.Attribute) else ast.unparse(node.func)) + "(…)"
                if text == "read_text(…)":
                    text = "read(…)"      # Path.read_text is open().read(): the same strict text read
            elif isinstance(node, ast.Subscript) and isinstance(node.value, ast.Call) and isinstance(node.value.func, ast.Attribute):
                text = f"{node.value.func.attr}(…)[{ast.unparse(node.slice)}]"
            elif m:
                text = m.group(1) + "(…)"
        except SyntaxError:
            m2 = re.match(r"\s*([\w.]+)\(", text)  # a truncated call text
            if m:
                text = m.group(1) + "(…)"
            elif m2:
                text = m2.group(1).split(".")[-1] + "(…)"
    elif kind == "raise":
        m = re.match(r"raise\s+([\w.]+)", text)
        if m:
            text = "raise " + m.group(1)
    return f"{fn} | {kind} | {text}"


from ..canon import ref_table as _ref_table
_KNOWN_FUNCTIONS = set(_ref_table().get("__functions__", []))


def rule_escape(ck: Check, repo: Repo, cg: CallGraph, esc: Escape) -> None:
    r = ck.rule("R1", "exception-escape set of every command ⊆ exceptions click turns into a diagnostic")
    cmds = repo.commands()
    r.floor(7, "click commands", got=len(cmds))
    per_key: dict[tuple, list[str]] = {}
    chains: dict[tuple, list[str]] = {}
    n_pairs = 0
    for name, fn in sorted(cmds.items()):
        q = repo.qualname_of(fn)
        keys = dict(esc.esc[q])
        keys.update(esc.esc.get(MAIN, {}))
        for key in keys:
            exc, origin = key
            n_pairs += 1
            if any(esc.catches(b, exc) for b in HANDLED_BASES):
                r.instance(f"{name}:{exc}:{origin}", None)
                continue
            ofn = origin.split("|")[0].strip()
            # code that moved into a helper the confirmed tree does not have is the caller's code: the origin is stated for the one
            # known function that calls the helper, so that a recorded defect is recognised where it now sits
            hops = 0
            while _KNOWN_FUNCTIONS and ofn in repo.functions and ofn not in _KNOWN_FUNCTIONS and hops < 3:
                callers = sorted({g for g, ks in esc.esc.items() if key in ks and ks[key][0] == "via" and ks[key][1] == ofn})
                if len(callers) != 1:
                    break
                origin = callers[0] + " |" + origin.split("|", 1)[1]
                rehomed = (exc, origin)
                # the caller holds the pair under the original key; keep looking it up there
                ofn = callers[0]
                hops += 1
                key_lookup = key
            # the unguarded callers through which it leaves the origin function are part of the construct: a NEW call
            # site that lets the same exception out is a new defect, not the recorded one
            vias = sorted({g.rsplit(".", 1)[-1] if not g.startswith("reuse.vcs.") else "vcs" for g, ks in esc.esc.items()
                           if key in ks and ks[key][0] == "via" and ks[key][1] == ofn})
            nk = (exc, normal_origin(origin) + (" <- " + ",".join(vias) if vias else ""))
            per_key.setdefault(nk, []).append(name)
            chains.setdefault(nk, esc.witness_chain(q, key))
            r.instance(f"{name}:{exc}:{origin}", {"command": name, "exception": exc, "origin": origin}, q)
    r.count(n_pairs, prefix="pair")
    ck.extra["escape"] = {"fixpoint_rounds": esc.rounds, "command_exception_origin_triples": n_pairs}
    triaged = []
    # a triage entry only discharges a pair while its side condition is re-established in THIS run
    from . import c04, c09
    from ..report import Check as _Check

    def holds(fn, *a) -> bool:
        tmp = _Check("tmp", ck.tier)
        try:
            fn(tmp, repo, *a)
        except AnalysisError:
            return False
        return not any(r_.violations for r_ in tmp.rules)

    proj_fn = repo.func("reuse.cli.common.ClickObj.project")
    # the root lookup may sit in a helper of the same class / module: every call of find_root in reuse.cli.common counts
    fr_calls = [c for q_, f_ in repo.functions.items() if q_.startswith("reuse.cli.common.")
                for c in find_calls(f_, lambda c, f: f == "find_root")]
    pe_src = re.sub(r"\s+", " ", ast.unparse(repo.func("reuse.report._process_error")))
    side = {
        "builtins.NotImplementedError": holds(c04.rule_exclusive),
        "builtins.KeyError": holds(c09.rule_reuseinfo),
        "builtins.NotADirectoryError": bool(fr_calls) and not any(c.args or c.keywords for c in fr_calls),
        "reuse.report.error": "if isinstance(error, (bdb.BdbQuit, KeyboardInterrupt)): raise error" in pe_src,
    }
    for (exc, origin), names in sorted(per_key.items()):
        ofn = origin.split("|")[0].strip()
        tri = TRIAGE.get((exc, ofn)) or TRIAGE.get((exc, ofn.replace("VCSStrategy*", "VCSStrategyGit")))
        if exc == "builtins.NotADirectoryError" and ofn.startswith("reuse.vcs.") and (
                "find_root" in ofn.split(".")[-1] or all("find_root" in " ".join(chains[(exc, origin)]) for _ in [0])):
            # also a runner shared by the find_root methods (`_find_root_with_command`): reached only through find_root()
            tri = TRIAGE[("builtins.NotADirectoryError", "reuse.vcs.VCSStrategyGit.find_root")]
        if tri and side.get(exc, True) is False:
            tri = None  # the reason the pair was considered infeasible no longer holds
        if tri:
            triaged.append({"exception": exc, "origin": origin, "reason": tri})
            continue
        short = exc.split(".")[-1]
        r.violation(ofn.replace("*", ""), f"{short} escapes from {origin}",
                    f"`reuse {'`, `reuse '.join(sorted(set(names)))}` can end in an unhandled {short}: "
                    + " ; ".join(chains[(exc, origin)][:4]), "",
                    {"commands": sorted(set(names)), "chain": chains[(exc, origin)]})
    ck.extra["triaged_infeasible"] = triaged
    ck.extra["triage_side_conditions"] = side
    # side conditions of the triage table
    proj = repo.func("reuse.cli.common.ClickObj.project")
    fr = fr_calls
    r.instance("find_root-call", {"args": [ast.unparse(c) for c in fr]})
    if not fr or any(c.args or c.keywords for c in fr):
        r.violation("reuse.cli.common.ClickObj.project", "find_root is called with an argument",
                    "NotADirectoryError is then reachable for a user-supplied path", repo.loc(proj))
    pe = repo.func("reuse.report._process_error")
    src = re.sub(r"\s+", " ", ast.unparse(pe))
    ok = "if isinstance(error, (bdb.BdbQuit, KeyboardInterrupt)): raise error" in src
    r.instance("_process_error-guard", {"ok": ok})
    if not ok:
        r.violation("reuse.report._process_error", "re-raise is not limited to BdbQuit/KeyboardInterrupt",
                    "per-file errors would abort the run", repo.loc(pe))
    # ClickObj.project maps the configuration errors to UsageError
    hs = [h for n in ast.walk(proj) if isinstance(n, ast.Try) for h in n.handlers]
    caught = {ast.unparse(e) for h in hs for e in (h.type.elts if isinstance(h.type, ast.Tuple) else [h.type])}
    r.instance("project-handlers", {"caught": sorted(caught)})
    for need in ("GlobalLicensingParseError", "GlobalLicensingConflictError", "OSError"):
        if need not in caught:
            r.violation("reuse.cli.common.ClickObj.project", f"{need} is not mapped to a usage error", "", repo.loc(proj))


def rule_validate(ck: Check, repo: Repo) -> None:
    r = ck.rule("R2", "values taken from the parsed TOML are validated before they are iterated / indexed / called")
    GL = "reuse.global_licensing"
    n = 0
    for q in (f"{GL}.ReuseTOML.from_dict", f"{GL}.AnnotationsItem.from_dict"):
        fn = repo.func(q)
        ck.analysed_fn(q)
        tainted: dict[str, ast.AST] = {}
        for st in walk_no_nested(fn):
            if isinstance(st, ast.Assign) and len(st.targets) == 1 and isinstance(st.targets[0], ast.Name) and \
                    isinstance(st.value, ast.Call) and ast.unparse(st.value.func) == "values.get":
                tainted[st.targets[0].id] = st
            elif isinstance(st, ast.NamedExpr) and isinstance(st.value, ast.Call) and ast.unparse(st.value.func) == "values.get":
                tainted[st.target.id] = st
        # presence of a key is decided by `is None` / `is not None`, never by truthiness: 0, false, "" and [] are
        # wrong-typed VALUES that must reach the validator, not absent keys
        for node in ast.walk(fn):
            tests = []
            if isinstance(node, (ast.If, ast.IfExp, ast.While)):
                tests = [node.test]
            elif isinstance(node, ast.BoolOp):
                tests = list(node.values)
            for t in tests:
                inner = t.operand if isinstance(t, ast.UnaryOp) and isinstance(t.op, ast.Not) else t
                name = None
                if isinstance(inner, ast.Name) and inner.id in tainted:
                    name = inner.id
                elif isinstance(inner, ast.NamedExpr) and isinstance(inner.value, ast.Call) and ast.unparse(inner.value.func) == "values.get":
                    name = inner.target.id
                if name is not None:
                    r.violation(q, f"TOML value `{name}` is tested by truthiness",
                                f"`{ast.unparse(t)[:70]}`: a falsy wrong-typed value (0, false, \"\", []) is treated like a missing key and"
                                f" is never validated - the broken REUSE.toml is accepted silently instead of being rejected with a"
                                f" message naming the file", repo.loc(t))
        checked = set()
        for c in ast.walk(fn):
            if isinstance(c, ast.Call) and ast.unparse(c.func) == "isinstance" and c.args and isinstance(c.args[0], ast.Name):
                checked.add(c.args[0].id)
        # a type check has a consequence: the statement guarded by the failed check raises (or leaves the function)
        for node in ast.walk(fn):
            if isinstance(node, ast.If) and any(isinstance(c, ast.Call) and ast.unparse(c.func) == "isinstance" and c.args
                                                 and isinstance(c.args[0], ast.Name) and c.args[0].id in tainted for c in ast.walk(node.test)):
                leaves = any(isinstance(x, (ast.Raise, ast.Return)) for b in (node.body, node.orelse) for st2 in b for x in ast.walk(st2))
                r.instance(f"{q}:guard:{ast.unparse(node.test)[:50]}", {"function": q, "test": ast.unparse(node.test)[:90], "rejects": leaves}, q)
                # the guard REJECTS exactly when one of the checks fails: as a formula over the isinstance / all(isinstance)
                # atoms it is equivalent to the disjunction of their negations (an `and` lets a list of strings through)
                from ..rules import bool_formula, equivalent, atoms_of
                names_map: dict[str, str] = {}

                def _atom(text, n2):
                    if re.fullmatch(r"isinstance\(\w+, \w+\)", text) or re.fullmatch(r"all\(\(?isinstance\((\w+), \w+\) for \1 in \w+\)?\)", text):
                        return names_map.setdefault(text, f"ok{len(names_map)}")
                    return None
                try:
                    f = bool_formula(node.test, _atom)
                    ats = sorted(atoms_of(f))
                except Exception:  # noqa: BLE001 - a test outside the atom language is not judged
                    f, ats = None, []
                raising_in_body = any(isinstance(x, ast.Raise) for st2 in node.body for x in ast.walk(st2))
                if f is not None and ats and all(a.startswith("ok") for a in ats) and raising_in_body:
                    want = ("not", ats[0]) if len(ats) == 1 else ("or",) + tuple(("not", a) for a in ats)
                    w = equivalent(f, want)
                    r.instance(f"{q}:guard-formula:{ast.unparse(node.test)[:40]}", {"atoms": {v: k for k, v in names_map.items()}, "rejects_iff_some_check_fails": w is None}, q)
                    if w is not None:
                        r.violation(q, f"the guard `{ast.unparse(node.test)[:70]}` does not reject every value that fails one of its checks",
                                    f"with {w} the value is let through: `annotations = [\"x\"]` (a list, but not of tables) reaches the code"
                                    " that treats its elements as tables - AttributeError traceback", repo.loc(node))
                if not leaves:
                    r.violation(q, f"the type check `{ast.unparse(node.test)[:60]}` has no consequence",
                                "neither branch raises or returns: a wrong-typed value passes the check and is iterated / indexed further"
                                " down - a traceback instead of a parse error naming the file", repo.loc(node))
        for name, st in tainted.items():
            uses = []
            for node in ast.walk(fn):
                if isinstance(node, (ast.For, ast.comprehension)) and isinstance(node.iter, ast.Name) and node.iter.id == name:
                    uses.append(("iterated", node))
                if isinstance(node, ast.Subscript) and isinstance(node.value, ast.Name) and node.value.id == name:
                    uses.append(("indexed", node))
                if isinstance(node, ast.Call) and isinstance(node.func, ast.Attribute) and isinstance(node.func.value, ast.Name) \
                        and node.func.value.id == name:
                    uses.append(("method call", node))
            n += 1
            r.instance(f"{q}:{name}", {"function": q, "value": name, "structural_uses": [u for u, _ in uses],
                                       "isinstance_checked": name in checked}, q)
            if uses and name not in checked:
                r.violation(q, f"TOML value `{name}` is {uses[0][0]} without a type check",
                            f"`{ast.unparse(st)}`: a REUSE.toml with e.g. `annotations = 1` or `annotations = [\"x\"]` ends in a"
                            f" TypeError/AttributeError traceback instead of a parse error naming the file", repo.loc(st))
            # elements of an iterated list are passed on as dictionaries
            for kind, node in uses:
                if kind == "iterated":
                    elem_ok = any(isinstance(c, ast.Call) and ast.unparse(c.func) == "isinstance" and "dict" in ast.unparse(c)
                                  and any(isinstance(g, ast.comprehension) and ast.unparse(g.iter) == name for g in ast.walk(c.func) or [])
                                  for c in ast.walk(fn)) or \
                        bool(re.search(rf"all\(\(?isinstance\((\w+), dict\) for \1 in {name}\)?\)", ast.unparse(fn)))
                    r.instance(f"{q}:{name}:elements", {"elements_checked": elem_ok})
                    if name in checked and not elem_ok:
                        r.violation(q, f"elements of `{name}` are used as tables without a type check",
                                    "`annotations = [\"x\"]` ends in an AttributeError traceback", repo.loc(st))
    r.floor(2, "TOML values read", got=n)


def rule_isolation(ck: Check, repo: Repo) -> None:
    r = ck.rule("R3", "per-file isolation: any exception while reporting one file becomes a read error of that file")
    q = "reuse.report._MultiprocessingContainer.__call__"
    fn = repo.func(q)
    ck.analysed_fn(q)
    ok = False
    for t in [n for n in ast.walk(fn) if isinstance(n, ast.Try)]:
        body_calls = [ast.unparse(c.func) for s in t.body for c in ast.walk(s) if isinstance(c, ast.Call)]
        if "FileReport.generate" in body_calls:
            for h in t.handlers:
                names = [ast.unparse(e) for e in (h.type.elts if isinstance(h.type, ast.Tuple) else [h.type])] if h.type else ["BaseException"]
                rets = [ast.unparse(n.value) for n in ast.walk(h) if isinstance(n, ast.Return)]
                if ("Exception" in names or "BaseException" in names) and rets == [f"_MultiprocessingResult(file_, None, {h.name})"]:
                    ok = True
            r.instance("container-handler", {"handlers": [ast.unparse(h.type) if h.type else None for h in t.handlers]})
    if not ok:
        r.violation(q, "per-file handler is not broad enough",
                    "FileReport.generate must be enclosed by `except Exception` returning a result that carries the error",
                    repo.loc(fn))
    # dep5 re-parse inside the worker is protected as well
    src = re.sub(r"\s+", " ", ast.unparse(fn))
    if "with contextlib.suppress(Exception): self.reuse_dep5 = ReuseDep5.from_file(" not in src:
        r.violation(q, "dep5 re-parse in the worker is unprotected", "", repo.loc(fn))
    rf = repo.func("reuse.extract.reuse_info_of_file")
    hs = [ast.unparse(h.type) for n in ast.walk(rf) if isinstance(n, ast.Try) for h in n.handlers]
    r.instance("expression-error-handler", {"handlers": hs})
    if "(ExpressionError, ParseError)" not in hs:
        r.violation("reuse.extract.reuse_info_of_file", "unparseable expressions are not contained", f"{hs}", repo.loc(rf))


def rule_source(ck: Check, repo: Repo) -> None:
    r = ck.rule("R4", "a broken configuration file is named: parse errors carry or receive `source`")
    GL = "reuse.global_licensing"
    fam = ("GlobalLicensingParseError", "GlobalLicensingParseTypeError", "GlobalLicensingParseValueError")
    wrapped_fns = set()
    fd = repo.func(f"{GL}.ReuseTOML.from_dict")
    wrap_ok = False
    for t in [n for n in ast.walk(fd) if isinstance(n, ast.Try)]:
        body = " ".join(ast.unparse(s) for s in t.body)
        for h in t.handlers:
            hb = re.sub(r"\s+", " ", " ".join(ast.unparse(s) for s in h.body))
            if h.type is not None and ast.unparse(h.type) == "GlobalLicensingParseError" and f"{h.name}.source = source" in hb \
                    and "raise" in hb and "AnnotationsItem.from_dict(" in body:
                wrap_ok = True
    r.instance("from_dict-wrapper", {"assigns_source": wrap_ok})
    n = 0
    for q, fn in repo.functions.items():
        if not q.startswith(GL):
            continue
        for st in walk_no_nested(fn):
            if isinstance(st, ast.Raise) and isinstance(st.exc, ast.Call) and ast.unparse(st.exc.func) in fam:
                n += 1
                has = any(kw.arg == "source" for kw in st.exc.keywords)
                # raisers without source are attrs converters of AnnotationsItem, built inside the wrapper
                conv = q.split(".")[-1] in ("_str_to_global_precedence", "_str_to_set_of_expr")
                r.instance(f"raise:{q}:{ast.unparse(st.exc.func)}", {"function": q, "source_kw": has, "converter": conv})
                if not has and not (conv and wrap_ok):
                    r.violation(q, "parse error raised without naming the file",
                                f"`{ast.unparse(st)[:70]}` has no source= and is not covered by the handler that assigns error.source",
                                repo.loc(st))
    r.floor(6, "parse-error raise sites", got=n)
    proj = repo.func("reuse.cli.common.ClickObj.project")
    src = re.sub(r"\s+", " ", ast.unparse(proj))
    ok = "format(path=error.source, message=str(error))" in src
    r.instance("usage-error-names-file", {"ok": ok})
    if not ok:
        r.violation("reuse.cli.common.ClickObj.project", "the usage error does not name the broken file", "", repo.loc(proj))
    for q in (f"{GL}.ReuseTOML.from_file", f"{GL}.ReuseDep5.from_file", f"{GL}.ReuseTOML.from_toml"):
        fn = repo.func(q)
        hs = {ast.unparse(e).split(".")[-1] for n in ast.walk(fn) if isinstance(n, ast.Try) for h in n.handlers
              for e in (h.type.elts if isinstance(h.type, ast.Tuple) else [h.type])}
        want = {"ReuseTOML.from_file": {"UnicodeDecodeError"}, "ReuseDep5.from_file": {"UnicodeDecodeError", "DebianError", "ValueError"},
                "ReuseTOML.from_toml": {"TOMLKitError"}}[".".join(q.split(".")[-2:])]
        r.instance(f"handlers:{q}", {"caught": sorted(hs)})
        if not want <= hs:
            r.violation(q, "file-format errors are not converted to a parse error", f"catches {sorted(hs)}, needs {sorted(want)}", repo.loc(fn))


def rule_decode_modes(ck: Check, repo: Repo, rid: str = "R5") -> None:
    """Text decoded from untrusted bytes must be ENCODABLE again: it ends up in reports, SPDX documents and headers.
    `surrogateescape` / `surrogatepass` turn undecodable bytes into lone surrogates, which no UTF-8 sink accepts - the
    crash (UnicodeEncodeError) then happens at output time, far from any handler."""
    r = ck.rule(rid, "bytes are decoded with an error mode whose result can be encoded again (no surrogateescape / surrogatepass)")
    n = 0
    for mod in repo.modules.values():
        for c in ast.walk(mod.tree):
            if not isinstance(c, ast.Call):
                continue
            f = ast.unparse(c.func)
            is_decode = isinstance(c.func, ast.Attribute) and c.func.attr == "decode"
            is_open = f in ("open", "io.open", "codecs.open") or (isinstance(c.func, ast.Attribute) and c.func.attr in ("open", "read_text"))
            is_str = f == "str" and len(c.args) >= 2
            if not (is_decode or is_open or is_str or f in ("os.fsdecode", "codecs.decode")):
                continue
            mode = next((kw.value for kw in c.keywords if kw.arg == "errors"), None)
            if mode is None and is_decode and len(c.args) >= 2:
                mode = c.args[1]
            if mode is None and is_str and len(c.args) >= 3:
                mode = c.args[2]
            where = repo.enclosing_function(c)
            wq = repo.qualname_of(where) if where is not None else mod.name
            if f == "os.fsdecode":
                n += 1
                r.instance(f"{wq}:{ast.unparse(c)[:50]}", {"call": ast.unparse(c)[:80], "errors": "surrogateescape (implicit)"}, wq)
                r.violation(wq, "os.fsdecode yields lone surrogates for undecodable names", ast.unparse(c)[:80], repo.loc(c))
                continue
            if mode is None:
                if is_decode:
                    n += 1
                    r.instance(f"{wq}:{ast.unparse(c)[:50]}", {"call": ast.unparse(c)[:80], "errors": "strict (default)"}, wq)
                continue
            n += 1
            val = mode.value if isinstance(mode, ast.Constant) else None
            r.instance(f"{wq}:{ast.unparse(c)[:50]}", {"call": ast.unparse(c)[:80], "errors": val if val is not None else ast.unparse(mode)}, wq)
            if val is None:
                r.violation(wq, f"decode error mode is not a constant ({ast.unparse(mode)})", ast.unparse(c)[:80], repo.loc(c))
            elif val in ("surrogateescape", "surrogatepass"):
                r.violation(wq, f"errors={val!r} produces text that cannot be encoded again",
                            f"`{ast.unparse(c)[:80]}`: an undecodable byte becomes a lone surrogate; writing the extracted value"
                            f" (spdx -o FILE, lint output, annotate) then raises UnicodeEncodeError outside every handler", repo.loc(c))
    r.floor(5, "decode sites", got=n)



def rule_format_strings(ck: Check, repo: Repo, rid: str = "R6") -> None:
    """`S.format(...)` raises KeyError / IndexError / ValueError when S contains braces the call does not name.  A
    format string must therefore be a constant (or the translation of a constant): text taken from files, options or
    exception messages that flows into the format STRING (rather than into its arguments) crashes on a `{`."""
    r = ck.rule(rid, "str.format is applied to constant format strings only (run-time text goes into the arguments)")
    from ..rules import resolve_deep
    n = 0

    def constant_format(e: ast.AST, fn) -> bool:
        if isinstance(e, ast.Constant) and isinstance(e.value, str):
            return True
        if isinstance(e, ast.Call) and ast.unparse(e.func) in ("_", "gettext", "ngettext", "N_") and e.args \
                and all(constant_format(a, fn) or isinstance(a, ast.Name) for a in e.args[:2]) and constant_format(e.args[0], fn):
            return True
        if isinstance(e, ast.BinOp) and isinstance(e.op, ast.Add):
            return constant_format(e.left, fn) and constant_format(e.right, fn)
        if isinstance(e, ast.JoinedStr):
            return all(isinstance(v, ast.Constant) for v in e.values)
        if isinstance(e, ast.IfExp):
            return constant_format(e.body, fn) and constant_format(e.orelse, fn)
        if isinstance(e, ast.Name) and fn is not None:
            # every binding of the local must be a constant format (an augmented assignment counts)
            vals = []
            for st in ast.walk(fn):
                if isinstance(st, ast.Assign) and any(isinstance(t, ast.Name) and t.id == e.id for t in st.targets):
                    vals.append(st.value)
                elif isinstance(st, ast.AugAssign) and isinstance(st.target, ast.Name) and st.target.id == e.id:
                    vals.append(st.value)
                elif isinstance(st, ast.AnnAssign) and isinstance(st.target, ast.Name) and st.target.id == e.id and st.value is not None:
                    vals.append(st.value)
            # ... or the name is one position of the target of a loop over a literal table of tuples: every row's entry counts
            for lp in ast.walk(fn):
                table = lp.iter if isinstance(lp, ast.For) else None
                if isinstance(table, ast.Name):
                    from ..rules import single_assign_value as _sav16
                    table = _sav16(fn, table.id) or table       # the literal table may have a name of its own
                if isinstance(lp, ast.For) and isinstance(lp.target, ast.Tuple) and isinstance(table, (ast.Tuple, ast.List)):
                    pos = [i for i, t in enumerate(lp.target.elts) if isinstance(t, ast.Name) and t.id == e.id]
                    if pos:
                        for row in table.elts:
                            if isinstance(row, (ast.Tuple, ast.List)) and len(row.elts) == len(lp.target.elts):
                                vals.append(row.elts[pos[0]])
                            else:
                                return False
                elif isinstance(lp, (ast.For, ast.comprehension)) and any(isinstance(t, ast.Name) and t.id == e.id for t in ast.walk(lp.target)):
                    return False  # bound by a loop over something that is not a literal table
            params = {a.arg for a in fn.args.args + fn.args.kwonlyargs}
            return bool(vals) and e.id not in params and all(constant_format(v, None if isinstance(v, ast.Name) else fn) for v in vals)
        return False

    for q, fn in sorted(repo.functions.items()):
        for c in ast.walk(fn):
            if isinstance(c, ast.Call) and isinstance(c.func, ast.Attribute) and c.func.attr in ("format", "format_map") \
                    and repo.enclosing_function(c) is fn:
                recv = c.func.value
                n += 1
                ok = constant_format(recv, fn)
                r.instance(f"{q}:{ast.unparse(recv)[:40]}@{c.lineno}", {"function": q, "format_string": ast.unparse(recv)[:70], "constant": ok}, q)
                if not ok:
                    r.violation(q, f"format string is not a constant: {ast.unparse(recv)[:60]}",
                                f"`{ast.unparse(c)[:90]}`: when the run-time part contains `{{` or `}}` (a holder such as"
                                f" 'ACME {{Research}} Lab', a path, an exception message) .format() raises KeyError / IndexError /"
                                f" ValueError - inside an error handler this ends the whole run with a traceback", repo.loc(c))
    r.floor(20, ".format call sites", got=n)
    # format SPECS: `{path:s}` hands the spec to type(value).__format__; object.__format__ (Path, exceptions, None, most
    # classes) raises TypeError for every non-empty spec.  A spec is fine after a conversion (`!s`, `!r`) and on str / int /
    # float values.
    import string as _string
    facts = None
    n_spec = 0
    for q, fn in sorted(repo.functions.items()):
        for c in ast.walk(fn):
            if not (isinstance(c, ast.Call) and isinstance(c.func, ast.Attribute) and c.func.attr == "format" and repo.enclosing_function(c) is fn):
                continue
            consts = [x.value for x in ast.walk(c.func.value) if isinstance(x, ast.Constant) and isinstance(x.value, str)]
            for text in consts:
                try:
                    fields = list(_string.Formatter().parse(text))
                except ValueError:
                    continue
                for _lit, field, spec, conv in fields:
                    if field is None or not spec or conv:
                        continue
                    n_spec += 1
                    name = field.split(".")[0].split("[")[0]
                    arg = next((kw.value for kw in c.keywords if kw.arg == name), None)
                    if arg is None and name.isdigit() and int(name) < len(c.args):
                        arg = c.args[int(name)]
                    safe = isinstance(arg, ast.Constant) and isinstance(arg.value, (str, int, float)) or \
                        (isinstance(arg, ast.Call) and ast.unparse(arg.func) in ("str", "int", "float", "len", "repr", "round")) or isinstance(arg, ast.JoinedStr)
                    ty = None
                    if not safe and arg is not None:
                        if facts is None:
                            from ..typed import TypeFacts
                            facts = TypeFacts(repo)
                        ty = facts.type_of(arg)
                        safe = ty in ("builtins.str", "builtins.int", "builtins.float", "builtins.bool")
                    r.instance(f"spec:{q}:{field}:{spec}", {"function": q, "field": field, "spec": spec, "argument": ast.unparse(arg) if arg is not None else None, "type": ty, "safe": bool(safe)}, q)
                    if not safe:
                        r.violation(q, f"format spec `{{{field}:{spec}}}` on a value that is not a str / int / float ({ast.unparse(arg) if arg is not None else '?'}: {ty or 'unknown type'})",
                                    "object.__format__ rejects every non-empty format spec with TypeError (pathlib.Path, exceptions and most"
                                    " classes do not define __format__): the message cannot be built, and inside an error handler that ends the"
                                    " run with a traceback instead of the report", repo.loc(c))
    r.instance("format-specs", {"templates_with_specs": n_spec})



# ------------------------------------------------------------------ R8: handlers that convert an error still convert it
CONVERTING_HANDLERS = {
    # (function, exception types as written) -> confirmed by reading on the pinned tree: the handler ENDS IN A RAISE (it converts
    # the error into the documented one or lets it propagate); keyed by names, never by position
    ("reuse.cli.annotate.get_template", "TemplateNotFound"),
    ("reuse.cli.common.ClickObj.project", "GlobalLicensingParseError"),
    ("reuse.cli.common.ClickObj.project", "(GlobalLicensingConflictError, OSError)"),
    ("reuse.cli.common.spdx_identifier", "(ExpressionError, ParseError)"),
    ("reuse.extract.extract_reuse_info", "(ExpressionError, ParseError)"),
    ("reuse.global_licensing._InstanceOfValidator.__call__", "TypeError"),
    ("reuse.global_licensing._str_to_global_precedence", "ValueError"),
    ("reuse.global_licensing._str_to_set_of_expr", "(ExpressionError, ParseError)"),
    ("reuse.global_licensing.ReuseDep5.from_file", "UnicodeDecodeError"),
    ("reuse.global_licensing.ReuseDep5.from_file", "(DebianError, ValueError)"),
    ("reuse.global_licensing.ReuseTOML.from_dict", "GlobalLicensingParseError"),
    ("reuse.global_licensing.ReuseTOML.from_toml", "tomlkit.exceptions.TOMLKitError"),
    ("reuse.global_licensing.ReuseTOML.from_file", "UnicodeDecodeError"),
    ("reuse.header.create_header", "(ExpressionError, ParseError)"),
}


def _always_leaves(stmts: list) -> bool:
    """Every path through *stmts* reaches a raise (statements behind a continue / break / return are not reached)."""
    for st in stmts:
        if isinstance(st, ast.Raise):
            return True
        if isinstance(st, (ast.Return, ast.Continue, ast.Break)):
            return False
        if isinstance(st, ast.If) and st.orelse and _always_leaves(st.body) and _always_leaves(st.orelse):
            return True
        if isinstance(st, ast.Expr) and isinstance(st.value, ast.Call) and ast.unparse(st.value.func) in ("sys.exit", "ctx.exit", "ctx.fail"):
            return True
    return False


def rule_converting_handlers(ck: Check, repo: Repo, rid: str = "R8") -> None:
    r = ck.rule(rid, "a handler that converted an error into the documented one (or re-raised it) still leaves by a raise: the error is not swallowed")
    seen = set()
    for q, fn in repo.functions.items():
        for n in ast.walk(fn):
            if isinstance(n, ast.ExceptHandler) and n.type is not None:
                key = (q, ast.unparse(n.type))
                if key not in CONVERTING_HANDLERS:
                    continue
                seen.add(key)
                ok = _always_leaves(n.body) and any(isinstance(x, ast.Raise) for x in ast.walk(n))
                r.instance(f"{q}:{key[1]}", {"function": q, "handles": key[1], "leaves_by_raise": ok}, q)
                if not ok:
                    r.violation(q, f"the handler of {key[1]} completes normally",
                                "the error it used to convert is swallowed: what follows runs with a value that was never produced (an unbound"
                                " name, a half-filled set) or the broken input is silently accepted - instead of the documented usage / parse"
                                " error naming the file", repo.loc(n))
    # handlers that vanished are not judged here: the escape analysis (R1) reports an exception that now leaves the command
    r.floor(10, "confirmed converting handlers still present", got=len(seen))


def run(ck: Check, repo: Repo) -> None:
    ck.explanation = (
        "Exception-escape analysis: for every function the set of (exception class, origin) pairs that leave it is"
        " computed bottom-up over the whole-program call graph (callees resolved by mypy as a library) with try/except"
        " and contextlib.suppress filtering through class MROs; sources are the explicit raise statements and table T2"
        " of library calls that raise because of input content. For every click command the escaping set must lie in"
        " what click turns into a diagnostic; each other pair is a violation unless it is one of the named, reasoned"
        " infeasible origins. Plus: validate-before-use of parsed TOML values, breadth of the per-file isolation"
        " handler, and that parse errors carry or receive the file name. Not decided: OS faults (permissions, files"
        " vanishing during the run) outside the modelled content-triggered exceptions."
    )
    ck.not_decided = ["OSError from the operating system on arbitrary paths; files vanishing mid-run", "exceptions of third-party"
                      " libraries outside table T2"]
    ck.trust("CPython ast", "mypy (library) for callee/receiver resolution and class MROs", "table T2 (content-triggered library exceptions)")
    facts = TypeFacts(repo)
    cg = CallGraph(repo, facts)
    esc = Escape(cg)
    if len(cg.unresolved) > 25:
        raise AnalysisError(f"too many unresolved calls ({len(cg.unresolved)})")
    ck.extra.setdefault("hygiene_scope", []).extend(sorted(cg.reachable(["reuse.cli.main.main"] + [repo.qualname_of(f) for f in repo.commands().values()])))
    rule_escape(ck, repo, cg, esc)
    from .. import callgraph as _cgm
    for m in sorted(set(_cgm.UNDECIDED_ORDERINGS)):
        ck.defer(AnalysisError(f"R1: {m}: whether a TypeError can leave this call is not decided"))
    rule_validate(ck, repo)
    rule_isolation(ck, repo)
    rule_source(ck, repo)
    rule_decode_modes(ck, repo)
    rule_format_strings(ck, repo)
    rule_converting_handlers(ck, repo)
    # a glob of REUSE.toml becomes a regular expression that is compiled while the file is loaded: it must be well formed
    # for EVERY glob, or re.error (not a parse error of the file) ends the run (shared with C05)
    from . import c05
    c05.rule_wellformed(ck, repo, "R7")
