"""C11 - a failed annotation leaves the tree as it was and shows in the exit status."""
from __future__ import annotations

import ast
import re

from ..fold import Folder
from ..model import AnalysisError, Repo, kwarg
from ..report import Check
from ..rules import find_calls
from ..tab import Hooks, show_valuation, tabulate

AN = "reuse._annotate"
CA = "reuse.cli.annotate"
FS_EFFECTS = {"touch", "write_text", "write_bytes", "mkdir", "unlink", "rename", "replace", "rmdir", "symlink_to",
              "copyfile", "copy", "move", "rmtree", "remove", "makedirs", "chmod"}
BUILDERS = ("find_and_replace_header", "add_new_header")
FAILURES = ["CommentCreateError", "MissingReuseInfoError"]


def fs_event(text: str, call: ast.Call, it) -> tuple | None:
    """T1 effects by syntactic callee (sufficient for the annotate path: no str.replace-like homonyms
    are accepted here - `replace`/`rename` count only with a single argument)."""
    f = ast.unparse(call.func)
    last = f.split(".")[-1]
    if f in ("open", "io.open") or (last == "open" and isinstance(call.func, ast.Attribute)):
        args = [it.text(a) for a in call.args]
        mode = None
        if f in ("open", "io.open"):
            mode = args[1] if len(args) > 1 else None
            target = args[0] if args else "?"
        else:
            mode = args[0] if args else None
            target = it.text(call.func.value)
        mode = mode or next((it.text(kw.value) for kw in call.keywords if kw.arg == "mode"), "'r'")
        if any(m in mode for m in "wax+") or not (mode.startswith("'") or mode.startswith('"')):
            return ("fs", "open-w", target)
        return ("read", target)
    if last in FS_EFFECTS and isinstance(call.func, ast.Attribute):
        if last in ("replace", "rename") and len(call.args) != 1:
            return None  # str.replace(old, new)
        return ("fs", last, it.text(call.func.value))
    return None


class AHHooks(Hooks):
    """add_header_to_file"""

    def atom(self, text, node, it):
        t = text
        if t == "NAME_STYLE_MAP.get(cast(str, style)) is None":
            return ("not", "forced_style")
        if t == "get_comment_style(path) is None":
            return ("not", "detected_style")
        table = {"skip_unrecognised": "skip_unrecognised", "fallback_dot_license": "fallback", "replace": "replace",
                 "skip_existing": "skip_existing"}
        if t in table:
            return table[t]
        if t.startswith("contains_reuse_info("):
            return "has_info"
        if re.fullmatch(r"Path\(.*\)\.exists\(\)|os\.path\.exists\(.*\)|.*\.exists\(\)", t):
            return "target_exists"
        return None

    def raises(self, text, call, it):
        if ast.unparse(call.func) in BUILDERS:
            return FAILURES
        return []

    def track_assign(self, name):
        return name == "result"

    def event(self, text, call, it):
        f = ast.unparse(call.func)
        if f in BUILDERS:
            return ("build", f)
        return fs_event(text, call, it)


def rule_write_after_success(ck: Check, repo: Repo) -> None:
    r = ck.rule("R1", "typestate: no file-system effect before the header is built; failures return non-zero without effects")
    q = f"{AN}.add_header_to_file"
    fn = repo.func(q)
    ck.analysed_fn(q)

    def ref(v):
        # the two failure atoms of whichever builder is on the path are queried by the implementation;
        # the reference only needs to know whether a build was attempted and failed
        return None

    leaves = tabulate(fn, AHHooks())
    r.floor(10, "paths through add_header_to_file", got=len(leaves))
    seen = set()
    n_fail = n_ok = 0
    for d, leaf, _ in leaves:
        name = show_valuation({(k.split("@")[0] if k.startswith("raise[") else k): v for k, v in d.items()})
        ev = leaf.events
        builds = [i for i, e in enumerate(ev) if e[0] == "build"]
        fs = [(i, e) for i, e in enumerate(ev) if e[0] == "fs"]
        failed = [k for k, v in d.items() if k.startswith("raise[") and v]
        r.instance("path:" + name, {"valuation": name, "outcome": leaf.outcome[:2],
                                    "effects": [repr(e) for _, e in fs]})
        ret = leaf.outcome[1] if leaf.outcome[0] == "return" else None
        if failed:
            n_fail += 1
            exc = re.search(r"raise\[(\w+)\]", failed[0]).group(1)
            if fs:
                key = f"file-system effect {fs[0][1][1]}({fs[0][1][2]}) on a path where the header build fails ({exc})"
                if key not in seen:
                    seen.add(key)
                    when = "before" if fs[0][0] < builds[0] else "after"
                    r.violation(q, key, f"`{fs[0][1][2]}.{fs[0][1][1]}()` happens {when} the failing build: the file / its"
                                f" .license sibling is created or changed although the annotation failed", repo.loc(fn),
                                {"valuation": d})
            if leaf.outcome[0] != "return" or ret in ("0", "None"):
                r.violation(q, f"failure ({exc}) is not reflected in the return value", f"{leaf.outcome[:2]}", repo.loc(fn))
            assigns = [e for e in ev if e[0] == "assign" and e[1] == "result"]
            if not assigns or assigns[-1][2] == "0":
                r.violation(q, f"failure ({exc}) does not set result", f"{assigns}", repo.loc(fn))
        elif builds:
            n_ok += 1
            early = [e for i, e in fs if i < builds[0]]
            late = [e for i, e in fs if i > builds[0]]
            if early:
                key = f"file-system effect {early[0][1]}({early[0][2]}) before the header is built"
                if key not in seen:
                    seen.add(key)
                    r.violation(q, key, "if the build then fails the effect is already done", repo.loc(fn), {"valuation": d})
            if [e[1] for e in late] != ["open-w"]:
                r.violation(q, f"successful build is not followed by exactly one write [{name}]", f"{late}", repo.loc(fn))
            if ret != "0":
                r.violation(q, "success must return 0", f"{leaf.outcome}", repo.loc(fn))
        else:
            # skipped (unrecognised / existing): no effects at all
            if fs:
                key = f"skipped file has effect {fs[0][1][1]}"
                if key not in seen:
                    seen.add(key)
                    r.violation(q, key, f"[{name}] {fs}", repo.loc(fn))
    r.floor(2, "failing paths", got=n_fail)
    r.floor(2, "successful paths", got=n_ok)
    # every handler of add_header_to_file is a failure of THIS file: it ends with a non-zero result (`result = N`, N != 0, with
    # the function returning result; or `return N`)
    ret_names = {ast.unparse(x.value) for x in ast.walk(fn) if isinstance(x, ast.Return) and x.value is not None and isinstance(x.value, ast.Name)}
    n_h = 0
    for h in [x for x in ast.walk(fn) if isinstance(x, ast.ExceptHandler)]:
        n_h += 1
        nonzero = False
        for st in h.body:
            if isinstance(st, ast.Return) and isinstance(st.value, ast.Constant) and isinstance(st.value.value, int):
                nonzero = st.value.value != 0
                break
            if isinstance(st, ast.Assign) and any(isinstance(t, ast.Name) and t.id in ret_names for t in st.targets) \
                    and isinstance(st.value, ast.Constant) and isinstance(st.value.value, int):
                nonzero = st.value.value != 0
            if isinstance(st, ast.Raise):
                nonzero = True
                break
        r.instance(f"handler:{ast.unparse(h.type) if h.type else 'bare'}", {"handles": ast.unparse(h.type) if h.type else None, "non_zero_result": nonzero}, q)
        if not nonzero:
            r.violation(q, f"the handler of {ast.unparse(h.type) if h.type else 'every exception'} does not end in a non-zero result",
                        "this file was not annotated, yet it does not count as a failure: with no other failing file annotate exits 0", repo.loc(h))
    r.floor(3, "handlers of add_header_to_file", got=n_h)
    # the annotate loop body: nothing is created before add_header_to_file
    cmds = repo.commands()
    if "annotate" not in cmds:
        raise AnalysisError("anchor vanished: command annotate")
    an = cmds["annotate"]
    aq = repo.qualname_of(an)
    ck.analysed_fn(aq)

    class LH(Hooks):
        def atom(self, text, node, it):
            if text == "is_binary(str(path))":
                return "binary"
            if text == "is_uncommentable(path)":
                return "uncommentable"
            if text == "force_dot_license":
                return "force_dot_license"
            if text in ("template_str", "exclude_year", "years", "len(years) > 1"):
                return "@" + text
            return None

        def event(self, text, call, it):
            f = ast.unparse(call.func)
            if f == "add_header_to_file":
                return ("annotate-file", {kw.arg: it.text(kw.value) for kw in call.keywords})
            if f in ("test_mandatory_option_required", "verify_paths_comment_style", "verify_paths_line_handling",
                     "get_template", "all_paths", "get_reuse_info", "get_year"):
                return ("pre", f)
            return fs_event(text, call, it)

        def augassign(self, ttext, op, vtext_, st, it):
            return ("accumulate", ttext, op, vtext_[:40])

    leaves = tabulate(an, LH())
    for d, leaf, _ in leaves:
        flat = []
        for e in leaf.events:
            inl = False
            while e[0] == "each":
                inl = True
                e = e[2]
            flat.append((inl, e))
        name = show_valuation({k.split("::")[-1]: v for k, v in d.items() if not k.startswith("@")})
        fs = [e for inl, e in flat if e[0] == "fs"]
        r.instance("annotate-loop:" + name, {"valuation": name, "effects": [repr(e) for e in fs]})
        for e in fs:
            key = f"annotate loop: {e[1]}({e[2]}) before add_header_to_file"
            if key not in seen:
                seen.add(key)
                r.violation(aq, key, "the .license sibling is created before the header has been built; a failing"
                            " annotation leaves an empty FILE.license behind (which then shadows FILE)", repo.loc(an))


def rule_accumulate(ck: Check, repo: Repo) -> None:
    r = ck.rule("R2", "annotate: results are accumulated over all files, the loop is never left early, exit = min(sum, 1)")
    an = repo.commands()["annotate"]
    aq = repo.qualname_of(an)

    class LH(Hooks):
        def atom(self, text, node, it):
            if text in ("is_binary(str(path))", "is_uncommentable(path)", "force_dot_license"):
                return "@" + text
            return None

        def event(self, text, call, it):
            f = ast.unparse(call.func)
            if f == "add_header_to_file":
                return ("annotate-file",)
            return None

        def augassign(self, ttext, op, vt, st, it):
            return ("accumulate", ttext, op, vt)

        def loop_policy(self, node, it):
            return None

    exits = find_calls(an, lambda c, f: f == "sys.exit")
    m = re.fullmatch(r"min\((\w+), 1\)|min\(1, (\w+)\)", ast.unparse(exits[0].args[0])) if len(exits) == 1 and exits[0].args else None
    acc_name = (m.group(1) or m.group(2)) if m else "result"
    n = 0
    for d, leaf, _ in tabulate(an, LH()):
        flat = []
        for e in leaf.events:
            inl = False
            while e[0] == "each":
                inl = True
                e = e[2]
            flat.append((inl, e))
        acc = [e for inl, e in flat if inl and e[0] == "accumulate"]
        ends = [e for inl, e in flat if inl and e[0] == "element-end"]
        calls = [e for inl, e in flat if inl and e[0] == "annotate-file"]
        n += 1
        r.instance("path:" + show_valuation(d), {"accumulate": [a[1:] for a in acc], "exit": leaf.outcome[:2]})
        if len(calls) != 1 or len(acc) != 1 or acc[0][1] != acc_name or acc[0][2] != "Add" or not acc[0][3].startswith(("add_header_to_file(", "call_add_header_to_file")):
            r.violation(aq, "per-file result not accumulated", f"{acc}", repo.loc(an))
        if ends != [("element-end", "next")]:
            r.violation(aq, "loop left early", f"{ends}: the remaining files must still be processed", repo.loc(an))
        if leaf.outcome[0] != "exit" or leaf.outcome[1] not in (f"min({acc_name}__after_loop, 1)", f"min(1, {acc_name}__after_loop)"):
            if True:
                r.violation(aq, "exit status", f"{leaf.outcome}; expected sys.exit(min(result, 1))", repo.loc(an))
    r.floor(2, "annotate paths", got=n)
    if f"{acc_name} = 0" not in ast.unparse(an):
        r.violation(aq, "result initialisation", "result must start at 0", repo.loc(an))


def rule_usage_first(ck: Check, repo: Repo) -> None:
    r = ck.rule("R3", "usage errors are detected before any file is touched; mutually exclusive options are declared")
    an = repo.commands()["annotate"]
    aq = repo.qualname_of(an)
    order = []
    loop_line = None
    for st in an.body:
        if isinstance(st, ast.For):
            loop_line = st.lineno
            break
        for c in ast.walk(st):
            if isinstance(c, ast.Call) and isinstance(c.func, ast.Name):
                order.append(c.func.id)
    pre = ["test_mandatory_option_required", "verify_paths_comment_style", "verify_paths_line_handling", "get_template"]
    for p in pre:
        r.instance(f"preflight:{p}", {"before_loop": p in order})
        if p not in order:
            r.violation(aq, f"pre-flight {p} does not precede the file loop",
                        "usage errors (exit status 2) must be raised before any file is touched", repo.loc(an))
    # each pre-flight function raises click.UsageError and has no file-system effect
    for p in pre:
        pq = f"{CA}.{p}"
        pf = repo.func(pq)
        ck.analysed_fn(pq)
        raises = [ast.unparse(n.exc.func) for n in ast.walk(pf) if isinstance(n, ast.Raise) and isinstance(n.exc, ast.Call)]
        fx = [ast.unparse(c.func) for c in ast.walk(pf) if isinstance(c, ast.Call) and ast.unparse(c.func).split(".")[-1] in FS_EFFECTS
              and not (ast.unparse(c.func).split(".")[-1] in ("replace",) and len(c.args) != 1)]
        r.instance(f"preflight-body:{p}", {"raises": raises, "effects": fx})
        if "click.UsageError" not in raises:
            r.violation(pq, "pre-flight check no longer raises click.UsageError", f"{raises}", repo.loc(pf))
        if fx:
            r.violation(pq, "pre-flight check has file-system effects", f"{fx}", repo.loc(pf))
    # mutex declarations
    folder = Folder(repo)
    mutexes = {}
    for name in ("_YEAR_MUTEX", "_LINE_MUTEX", "_STYLE_MUTEX"):
        v = folder.known(CA, name)
        mutexes[name] = v
    declared = {}
    for dec in an.decorator_list:
        if isinstance(dec, ast.Call) and ast.unparse(dec.func) == "click.option":
            names = [a.value for a in dec.args if isinstance(a, ast.Constant) and isinstance(a.value, str)]
            dest = next((n for n in names if not n.startswith("-")), None) or \
                next(n for n in names if n.startswith("--")).lstrip("-").replace("-", "_")
            cls = kwarg(dec, "cls")
            mx = kwarg(dec, "mutually_exclusive")
            declared.setdefault(dest, []).append((ast.unparse(cls) if cls else None, ast.unparse(mx) if mx else None))
    for mname, members in mutexes.items():
        for m in members:
            decl = declared.get(m, [])
            ok = any(c == "MutexOption" and x == mname for c, x in decl)
            r.instance(f"mutex:{mname}:{m}", {"declared": decl})
            if not ok:
                r.violation(aq, f"option {m} of {mname} is not declared mutually exclusive",
                            f"declarations for {m}: {decl}", repo.loc(an))
    # a parameter that is folded into a member of a mutex group (`skip_unrecognised = skip_unrecognised or alias`) IS that
    # option under another name: it has to be in every group its target is in, or the combination is refused for one
    # spelling of the option and accepted for the other
    params = {a.arg for a in an.args.args + an.args.kwonlyargs}
    for st in ast.walk(an):
        if isinstance(st, ast.Assign) and len(st.targets) == 1 and isinstance(st.targets[0], ast.Name) and st.targets[0].id in params:
            tgt = st.targets[0].id
            others = {n.id for n in ast.walk(st.value) if isinstance(n, ast.Name) and n.id in params and n.id != tgt}
            for o in sorted(others):
                groups = [g for g, members in mutexes.items() if tgt in members]
                inline = [ast.unparse(kwarg(dec, "mutually_exclusive")) for dec in an.decorator_list if isinstance(dec, ast.Call)
                          and kwarg(dec, "mutually_exclusive") is not None and isinstance(kwarg(dec, "mutually_exclusive"), ast.List)
                          and tgt in [e.value for e in kwarg(dec, "mutually_exclusive").elts if isinstance(e, ast.Constant)]]
                r.instance(f"folded:{o}->{tgt}", {"alias": o, "target": tgt, "groups_of_target": groups, "inline_lists_naming_target": inline})
                for g in groups:
                    if o not in mutexes[g]:
                        r.violation(aq, f"parameter {o} is folded into {tgt} but is not a member of {g}",
                                    f"`{ast.unparse(st)[:70]}`: the other options of {g} ({[m for m in mutexes[g] if m != tgt]}) are refused together with"
                                    f" --{tgt.replace('_', '-')} and accepted together with --{o.replace('_', '-')}: the usage error is not raised and files are"
                                    f" written", repo.loc(st))
                for lst in inline:
                    if f"'{o}'" not in lst:
                        r.violation(aq, f"parameter {o} is folded into {tgt} but an inline mutex list names only {tgt}", lst, repo.loc(st))
    mo = repo.func("reuse.cli.common.MutexOption.handle_parse_result")
    ck.analysed_fn("reuse.cli.common.MutexOption.handle_parse_result")
    src = re.sub(r"\s+", " ", ast.unparse(mo))
    ok = "if self.mutually_exclusive.intersection(opts) and self.name in opts: raise click.UsageError(" in src
    r.instance("MutexOption", {"raises_usage_error": ok})
    if not ok:
        r.violation("reuse.cli.common.MutexOption.handle_parse_result", "mutex enforcement",
                    "must raise click.UsageError when another option of the group is present", repo.loc(mo))


def rule_no_stale_state(ck: Check, repo: Repo) -> None:
    """Per-path decisions must not depend on state left over by the paths examined before."""
    r = ck.rule("R5", "pre-flight checks and the annotate loop decide each path on its own (no loop-carried state in a decision)")
    targets = [f"{CA}.verify_paths_line_handling", f"{CA}.verify_paths_comment_style", repo.qualname_of(repo.commands()["annotate"])]
    n = 0
    for q in targets:
        fn = repo.func(q)
        ck.analysed_fn(q)

        class H(Hooks):
            def keep_carried(self, name):
                return False

        seen = set()
        for d, leaf, _ in tabulate(fn, H()):
            for atom in d:
                n += 1
                if "__in_loop" in atom and atom not in seen:
                    seen.add(atom)
                    var = re.search(r"(\w+)__in_loop", atom).group(1)
                    cond = atom.split("::")[-1].lstrip("?")
                    r.violation(q, f"decision `{cond.replace('__in_loop', '')}` uses `{var}` as left by the previous path",
                                f"`{var}` is assigned inside the loop but not reset at the start of each iteration, so the check of one"
                                f" path depends on which paths were examined before it (and on their order)", repo.loc(fn))
        # the same through a container: filled while the paths are examined AND consulted by a per-path decision
        memo = []
        for loop in [x for x in ast.walk(fn) if isinstance(x, ast.For)]:
            mutated = set()
            for x in ast.walk(loop):
                if isinstance(x, (ast.Assign, ast.AugAssign)):
                    tg = x.targets if isinstance(x, ast.Assign) else [x.target]
                    mutated |= {t.value.id for t in tg if isinstance(t, ast.Subscript) and isinstance(t.value, ast.Name)}
                elif isinstance(x, ast.Call) and isinstance(x.func, ast.Attribute) and isinstance(x.func.value, ast.Name) \
                        and x.func.attr in ("add", "append", "update", "setdefault", "extend", "insert"):
                    mutated.add(x.func.value.id)
            loop_bound = {t.id for t in ast.walk(loop.target) if isinstance(t, ast.Name)}
            for x in ast.walk(loop):
                if isinstance(x, (ast.If, ast.IfExp, ast.While)):
                    used = {t.id for t in ast.walk(x.test) if isinstance(t, ast.Name)}
                    for name in sorted((used & mutated) - loop_bound):
                        # bound before the loop (not per iteration)?
                        inside = any(isinstance(a, ast.Assign) and any(isinstance(t, ast.Name) and t.id == name for t in a.targets)
                                     for a in ast.walk(loop))
                        if not inside and name not in memo:
                            memo.append(name)
                            r.violation(q, f"decision `{ast.unparse(x.test)[:60]}` consults `{name}`, which the loop fills as it goes",
                                        f"`{name}` is created before the loop, updated inside it and read by a per-path decision: the"
                                        f" verdict for one path depends on which paths were examined before it (and on their order)",
                                        repo.loc(x))
        r.instance(q, {"function": q, "loop_carried_decisions": sorted(seen), "containers_consulted": memo})
    r.floor(6, "decision atoms examined", got=n)


def rule_raisers(ck: Check, repo: Repo) -> None:
    r = ck.rule("R4", "the anticipated failures are raised before anything is emitted")
    q = "reuse.comment.CommentStyle._create_comment_multi"
    fn = repo.func(q)
    ck.analysed_fn(q, "reuse.comment.CommentStyle._create_comment_single")

    class H(Hooks):
        def atom(self, text, node, it):
            if text == "cls.can_handle_multi()":
                return "can_multi"
            if text in ("cls.MULTI_LINE.end in text", "cls.MULTI_LINE.end in line"):
                return "@has_terminator"  # per text or per line: the terminator contains no newline
            return None

    def ref(v):
        if not v("can_multi"):
            return ("raise", "CommentCreateError")
        return None

    hit = False
    for d, leaf, exp in tabulate(fn, H(), ref):
        name = show_valuation({k.split("::")[-1]: v for k, v in d.items()})
        r.instance("multi:" + name, {"outcome": leaf.outcome[:2]})
        if exp and leaf.outcome[:2] != exp:
            r.violation(q, "unsupported multi-line form must raise CommentCreateError", f"{leaf.outcome}", repo.loc(fn))
        term = next((v for k, v in d.items() if k.endswith("has_terminator")), None)
        if term:
            hit = True
            if leaf.outcome[:2] != ("raise", "CommentCreateError"):
                r.violation(q, "text containing the comment terminator is commented anyway",
                            f"{leaf.outcome[:2]}: the resulting comment would end prematurely", repo.loc(fn))
    if not hit:
        r.violation(q, "no premature-terminator test", "a holder containing the style's terminator must be refused", repo.loc(fn))
    q2 = "reuse.comment.CommentStyle._create_comment_single"
    f2 = repo.func(q2)

    class H2(Hooks):
        def atom(self, text, node, it):
            if text == "cls.can_handle_single()":
                return "can_single"
            return None

    for d, leaf, _ in tabulate(f2, H2(), lambda v: v("can_single")):
        r.instance("single:" + show_valuation({k.split("::")[-1]: v for k, v in d.items()}), None)
        if d.get("can_single") is False and leaf.outcome[:2] != ("raise", "CommentCreateError"):
            r.violation(q2, "unsupported single-line form must raise CommentCreateError", f"{leaf.outcome}", repo.loc(f2))


def rule_style_predicates(ck: Check, repo: Repo, rid: str = "R9") -> None:
    """The pre-flight test (`has_style`) and the per-file decision (`get_comment_style` in add_header_to_file) must be
    the SAME predicate: a file that passes the pre-flight test but has no style afterwards falls through to the
    default style and is modified instead of being refused before anything is touched."""
    r = ck.rule(rid, "pre-flight style predicates are defined through get_comment_style (same answer as the per-file decision)")
    from ..rules import deep_text
    want = {"reuse.comment.has_style": ["get_comment_style(path) is not None"],
            "reuse.comment.is_uncommentable": ["get_comment_style(path) == UncommentableCommentStyle",
                                              "get_comment_style(path) is UncommentableCommentStyle"]}
    for q, forms in want.items():
        fn = repo.func(q)
        ck.analysed_fn(q)
        p0 = fn.args.args[0].arg if fn.args.args else "path"
        rets = [deep_text(fn, n.value).replace(f"({p0})", "(path)") for n in ast.walk(fn) if isinstance(n, ast.Return) and n.value is not None]
        r.instance(q, {"returns": rets})
        if len(rets) != 1 or rets[0] not in forms:
            r.violation(q, f"{q.rsplit('.', 1)[-1]} is not defined through get_comment_style",
                        f"returns {rets}; expected {forms[0]} - the pre-flight answer can then differ from the style the file is"
                        f" actually given (None -> default style), so an unrecognised file is annotated instead of refused",
                        repo.loc(fn))



# ------------------------------------------------------------------ R10: the write cannot fail on its own text after the file was truncated
def rule_write_cannot_fail_on_content(ck: Check, repo: Repo, rid: str = "R10") -> None:
    """open(path, "w") truncates the file; the text is encoded only when it is written.  A character that UTF-8 cannot
    encode - a lone surrogate, which is what a command-line argument that is not valid UTF-8 becomes - raises inside the
    write, after the contents are gone.  Necessary condition decided: the text-mode write of a strict encoding is
    dominated by a successful `.encode()` of the same expression (or the open carries an errors= mode / writes bytes)."""
    from ..model import order_index
    from ..rules import deep_text
    r = ck.rule(rid, "the header text is known to be encodable before the target file is opened for writing (truncated)")
    q = "reuse._annotate.add_header_to_file"
    fn = repo.func(q)
    ck.analysed_fn(q)
    pos = order_index(fn)
    n = 0
    for w in [x for x in ast.walk(fn) if isinstance(x, ast.With)]:
        for item in w.items:
            c = item.context_expr
            if not (isinstance(c, ast.Call) and ast.unparse(c.func) in ("open", "io.open") and len(c.args) >= 2
                    and isinstance(c.args[1], ast.Constant) and isinstance(c.args[1].value, str) and "w" in c.args[1].value):
                continue
            n += 1
            mode = c.args[1].value
            errors = next((ast.unparse(kw.value) for kw in c.keywords if kw.arg == "errors"), None)
            fpn = ast.unparse(item.optional_vars) if item.optional_vars is not None else None
            writes = [x for x in ast.walk(w) if isinstance(x, ast.Call) and isinstance(x.func, ast.Attribute) and x.func.attr == "write"
                      and ast.unparse(x.func.value) == fpn and x.args]
            texts = [deep_text(fn, x.args[0]) for x in writes]
            pre = [x for x in ast.walk(fn) if isinstance(x, ast.Call) and isinstance(x.func, ast.Attribute) and x.func.attr == "encode"
                   and pos[id(x)] < pos[id(c)]]
            pre_texts = [deep_text(fn, x.func.value) for x in pre]
            def operands(e: ast.AST) -> list[ast.AST]:
                return operands(e.left) + operands(e.right) if isinstance(e, ast.BinOp) and isinstance(e.op, ast.Add) else [e]

            def constant_text(e: ast.AST) -> bool:
                """a literal, or a local whose every assignment is an encodable string literal"""
                if isinstance(e, ast.Constant) and isinstance(e.value, str):
                    return not any(0xD800 <= ord(ch) <= 0xDFFF for ch in e.value)
                if isinstance(e, ast.Name):
                    vals = [a.value for a in ast.walk(fn) if isinstance(a, ast.Assign) and any(isinstance(t, ast.Name) and t.id == e.id for t in a.targets)]
                    return bool(vals) and all(constant_text(v) for v in vals if not isinstance(v, ast.Name))
                return False

            proven = set(pre_texts) | {deep_text(fn, o) for x in pre for o in operands(x.func.value)}
            covered = bool(writes) and all(all(deep_text(fn, o) in proven or constant_text(o) for o in operands(x.args[0])) for x in writes)
            ok = "b" in mode or (errors is not None and errors not in ("'strict'",)) or covered
            r.instance(f"write:{ast.unparse(c)[:50]}", {"open": ast.unparse(c)[:90], "written": texts, "encoded_before_open": pre_texts, "ok": ok}, q)
            if not ok:
                r.violation(q, "the file is truncated before the header is known to be encodable",
                            f"`{ast.unparse(c)[:70]}` then `{fpn}.write({', '.join(texts)[:40]})`: `reuse annotate -c $'J\\xe9' -l MIT a.py` (an argument"
                            " that is not valid UTF-8 reaches Python as a lone surrogate) raises UnicodeEncodeError inside the write - a.py is"
                            " left with 0 bytes", repo.loc(c))
    r.floor(1, "truncating opens in add_header_to_file", got=n)


def run(ck: Check, repo: Repo) -> None:
    ck.explanation = (
        "Typestate over every path of add_header_to_file and of the annotate loop: states INIT -> BUILT (builder"
        " returned) | FAILED (builder raised CommentCreateError / MissingReuseInfoError, modelled as exceptional edges);"
        " a file-system effect is legal only in BUILT, FAILED must return a non-zero result without any effect, skipped"
        " files have no effect. Plus: result accumulation without early exit and exit = min(sum, 1); all usage-error"
        " pre-flights precede the loop and have no effects; every option of a mutex table is declared"
        " MutexOption(mutually_exclusive=that table); the anticipated failures are raised."
    )
    ck.not_decided = ["OS-level failures of the final write itself (disk full, permissions changing mid-run); content-level failure of the write (encoding) is R10"]
    ck.trust("CPython ast", "sa/tab.py", "syntactic table of file-system mutators (T1)")
    rule_write_after_success(ck, repo)
    rule_accumulate(ck, repo)
    rule_usage_first(ck, repo)
    rule_raisers(ck, repo)
    rule_no_stale_state(ck, repo)
    # 'the template loses information -> failure': every returned header passed the post-render check (shared with C07-R1)
    from . import c07
    r6 = ck.rule("R6", "post-render check on every path that returns a header (shared with C07-R1)")
    c07.postcondition(ck, repo, r6)
    # 'the text cannot be commented in that style -> failure': the writer refuses texts containing the terminator
    c07.rule_writer_refusal(ck, repo, "R7")
    # a failure must be REPORTED (and the remaining files processed): the error handlers themselves must not raise
    from . import c16
    c16.rule_format_strings(ck, repo, "R8")
    rule_style_predicates(ck, repo)
    rule_write_cannot_fail_on_content(ck, repo)
    # 'the remaining files are still processed' on their own terms: the request object shared by all files of one invocation
    # is never mutated - what a failing file put into it would decide the fate of the files after it (shared with C09-R5)
    from . import c09
    c09.rule_no_mutation(ck, repo, "R11")
