"""C03 - exactly the covered files: name languages, decision table, walk, forwarding."""
from __future__ import annotations

import ast
import re

from ..fold import Folder, Regex, is_unknown
from ..model import AnalysisError, Repo, kwarg
from ..relang import Alphabet, Lang, in_a_not_b, union
from ..report import Check
from ..rules import arg_for, expr_text, find_calls
from ..tab import Hooks, Valuation, show_valuation, tabulate

CF = "reuse.covered_files"

# reference languages written from the property / specification ------------------
REF_DIR = [r"\.git$", r"\.hg$", r"\.sl$", r"LICENSES$", r"\.reuse$"]
REF_FILE = [
    (r"LICEN[CS]E([-.].*)?$", "LICENSE / LICENCE, optionally followed by a '-' or '.' suffix"),
    (r"COPYING([-.].*)?$", "COPYING, optionally followed by a '-' or '.' suffix"),
    (r"\.git$", ".git file of a submodule"),
    (r"\.hgtags$", "Mercurial tags"),
    (r".*\.license$", "*.license"),
    (r"REUSE\.toml$", "REUSE.toml"),
    (r".*\.spdx$", "SPDX document *.spdx"),
    (r".*\.spdx\.(rdf|json|xml|ya?ml)$", "SPDX document *.spdx.<format>"),
]
REF_MESON = [r"subprojects$"]
EXCLUDE = "/\x00"


def _regex_list(folder: Folder, name: str) -> list[Regex]:
    val = folder.known(CF, name)
    if not isinstance(val, list) or not all(isinstance(x, Regex) for x in val):
        raise AnalysisError(f"{CF}.{name} did not fold to a list of compiled patterns")
    return val


def _match_mode(repo: Repo, table: str) -> str:
    """How is_path_ignored applies the entries of *table*: the method called on the loop variable that ranges over it."""
    fn = repo.func(f"{CF}.is_path_ignored")
    modes = set()
    for loop in ast.walk(fn):
        if isinstance(loop, ast.For) and isinstance(loop.iter, ast.Name) and loop.iter.id == table and isinstance(loop.target, ast.Name):
            for c in ast.walk(loop):
                if isinstance(c, ast.Call) and isinstance(c.func, ast.Attribute) and isinstance(c.func.value, ast.Name) \
                        and c.func.value.id == loop.target.id and c.func.attr in ("match", "fullmatch", "search"):
                    modes.add({"match": "match", "fullmatch": "full", "search": "search"}[c.func.attr])
    for comp in ast.walk(fn):   # `any(pattern.fullmatch(name) for pattern in TABLE)`
        if isinstance(comp, (ast.GeneratorExp, ast.ListComp, ast.SetComp)):
            for g in comp.generators:
                if isinstance(g.iter, ast.Name) and g.iter.id == table and isinstance(g.target, ast.Name):
                    for c in ast.walk(comp):
                        if isinstance(c, ast.Call) and isinstance(c.func, ast.Attribute) and isinstance(c.func.value, ast.Name) \
                                and c.func.value.id == g.target.id and c.func.attr in ("match", "fullmatch", "search"):
                            modes.add({"match": "match", "fullmatch": "full", "search": "search"}[c.func.attr])
    if len(modes) != 1:
        raise AnalysisError(f"is_path_ignored: how {table} is applied could not be read ({sorted(modes)})")
    return modes.pop()


def rule_languages(ck: Check, repo: Repo, folder: Folder, rid: str = "R1") -> dict:
    r = ck.rule(rid, "ignore-name languages equal the specified languages (unbounded names)")
    tables = {
        "_IGNORE_DIR_PATTERNS": (REF_DIR, 5),
        "_IGNORE_FILE_PATTERNS": ([p for p, _ in REF_FILE], 8),
        "_IGNORE_MESON_PARENT_DIR_PATTERNS": (REF_MESON, 1),
    }
    langs = {}
    for name, (ref, floor) in tables.items():
        impl = _regex_list(folder, name)
        try:
            mode = _match_mode(repo, name)
        except AnalysisError as err:
            # the table is applied in a way this rule cannot read (a pre-compiled alternation, a helper): the language clause of
            # this table stays undecided, the decision table (R2) and the other rules still run
            ck.defer(err)
            mode = "full"
        r.floor(floor, f"entries of {name}", got=len(impl))
        # the reference is read as a whole-name language: `$` = end of the name, `.` = any character (a name may contain
        # line breaks); the implementation keeps CPython's semantics (`$` also before one final "\n", `.` without "\n")
        ref = [p[:-1] + r"\Z" if p.endswith("$") else p for p in ref]
        alpha = Alphabet([(x.pattern, x.flags) for x in impl] + [(p, re.DOTALL) for p in ref], extra="\n", exclude=EXCLUDE)
        L_impl = [Lang.from_regex(x.pattern, x.flags, alpha, mode) for x in impl]
        L_ref = [Lang.from_regex(p, re.DOTALL, alpha, "match") for p in ref]
        U_impl = union(alpha, L_impl, name)
        U_ref = union(alpha, L_ref, "spec")
        langs[name] = (alpha, U_impl)
        for x, lx in zip(impl, L_impl):
            w = in_a_not_b(lx, U_ref)
            r.instance(f"{name}:{x.pattern}", {"table": name, "entry": x.pattern,
                                               "excess_witness": w, "dfa_states": lx.size}, f"{CF}.{name}")
            if w is not None:
                r.violation(
                    f"{CF}.{name}", f"entry {x.pattern} matches a name outside the specified language",
                    f"a covered file/directory named {w!r} is skipped although the specification does not"
                    f" exclude it", _loc_of_pattern(repo, x.pattern), {"witness_name": w, "entry": x.pattern})
        for p, lp in zip(ref, L_ref):
            w = in_a_not_b(lp, U_impl)
            r.instance(f"{name}:spec:{p}", {"table": name, "spec_entry": p, "missed_witness": w})
            if w is not None:
                r.violation(
                    f"{CF}.{name}", f"specified exclusion {p} is not implemented for every name",
                    f"{w!r} must be excluded but no table entry matches it", repo.loc(repo.module(CF).tree.body[0]),
                    {"witness_name": w, "spec_entry": p})
        r.note(f"{name}: alphabet {len(alpha)} minterms, DFA {U_impl.size}/{U_ref.size} states")
    ck.assumptions.append(
        "names range over all strings without '/' and NUL (file names; line breaks included: `$` also matches before one"
        " final newline, `.` does not match a newline)")
    return langs


def _loc_of_pattern(repo: Repo, pattern: str) -> str:
    mod = repo.module(CF)
    for n in ast.walk(mod.tree):
        if isinstance(n, ast.Constant) and n.value == pattern:
            return f"{mod.rel}:{n.lineno}"
    return mod.rel


# ------------------------------------------------------------------ R2
class IgnHooks(Hooks):
    def __init__(self, meson_matches_empty: bool):
        self.meson_matches_empty = meson_matches_empty

    def atom(self, text, node, it):
        t = text
        table = {
            "path.is_symlink()": "symlink",
            "path.is_file()": "is_file",
            "path.is_dir()": "is_dir",
            "subset_files is not None": "subset_given",
            "subset_files is None": ("not", "subset_given"),
            "path.resolve() not in subset_files": ("not", "in_subset"),
            "path.resolve() in subset_files": "in_subset",
            "path.name != 'REUSE.toml'": ("not", "name_is_reuse_toml"),
            "path.name == 'REUSE.toml'": "name_is_reuse_toml",
            "include_reuse_tomls": "include_reuse_tomls",
            "include_meson_subprojects": "include_meson",
            "include_submodules": "include_submodules",
            "vcs_strategy": "vcs",
            "vcs_strategy is not None": "vcs",
            "vcs_strategy.is_submodule(path)": "submodule",
            "vcs_strategy.is_ignored(path)": "vcs_ignored",
            "path.stat().st_size == 0": "size0",
            "len(path.parent.parts) > 0": "has_parent",
            "path.parent.parts": "has_parent",
            "any(Path(file_).is_relative_to(path.resolve()) for file_ in subset_files)": "dir_has_subset",
            "any(pattern.match(path.name) for pattern in _IGNORE_FILE_PATTERNS)": "filepat",
            "any(pattern.match(path.name) for pattern in _IGNORE_DIR_PATTERNS)": "dirpat",
            "any(pattern.match(path.parent.parts[-1]) for pattern in _IGNORE_MESON_PARENT_DIR_PATTERNS)": "meson_parent",
            "any(pattern.match(path.parent.name) for pattern in _IGNORE_MESON_PARENT_DIR_PATTERNS)":
                ("and", "has_parent", "meson_parent"),
        }
        # which matching method is applied to a table is part of its language (R1 reads it); the atom is the same
        t = re.sub(r"\bpattern\.(fullmatch|search)\(", "pattern.match(", t)
        if t in table:
            return table[t]
        if t == "any(pattern.match('') for pattern in _IGNORE_MESON_PARENT_DIR_PATTERNS)":
            return self.meson_matches_empty
        return None

    def raises(self, text, call, it):
        if text == "path.stat()":
            return ["OSError"]
        return []

    def subclass_pairs(self):
        return {("OSError", "OSError")}


def ref_ignored(v: Valuation) -> tuple:
    def stat_ok():
        return not v("raise[OSError]@path.stat()")

    if v("symlink"):
        return ("return", "True")
    if v("is_file"):
        if v("subset_given") and not v("in_subset"):
            return ("return", "True")
        if v("filepat") and not (v("name_is_reuse_toml") and v("include_reuse_tomls")):
            return ("return", "True")
        if stat_ok() and v("size0"):
            return ("return", "True")
    elif v("is_dir"):
        if v("subset_given") and not v("dir_has_subset"):
            return ("return", "True")
        if v("dirpat"):
            return ("return", "True")
        if not v("include_meson") and v("has_parent") and v("meson_parent"):
            return ("return", "True")
        if not v("include_submodules") and v("vcs") and v("submodule"):
            return ("return", "True")
    else:
        # neither a regular file nor a directory (FIFO, socket, device node): covered files are REGULAR files
        return ("return", "True")
    if v("vcs") and v("vcs_ignored"):
        return ("return", "True")
    return ("return", "False")


def rule_decision(ck: Check, repo: Repo, langs: dict, rid: str = "R2") -> None:
    r = ck.rule(rid, "decision table of is_path_ignored equals the specified exclusion predicate")
    qual = f"{CF}.is_path_ignored"
    fn = repo.func(qual)
    ck.analysed_fn(qual)
    alpha, meson = langs["_IGNORE_MESON_PARENT_DIR_PATTERNS"]
    hooks = IgnHooks(meson.accepts(""))
    leaves = tabulate(fn, hooks, ref_ignored)
    r.floor(20, "leaves of the is_path_ignored decision tree", got=len(leaves))
    seen_bad = set()
    from ..rules import bool_formula
    from ..tab import evalf as _evalf, NeedAtom as _Need
    for d, leaf, expected in leaves:
        r.instance("leaf:" + show_valuation(d), {"valuation": show_valuation(d), "ignored": leaf.outcome[1]})
        outcome = leaf.outcome
        if outcome[0] == "return" and outcome[1] not in ("True", "False"):
            # a returned boolean EXPRESSION: evaluate it over the same atoms where they are known
            try:
                f = bool_formula(outcome[1], lambda t, n: hooks.atom(t, n, None))
                outcome = ("return", str(_evalf(f, Valuation(dict(d)))))
            except (_Need, Exception):
                pass
        if outcome[:2] != expected:
            free = [a for a in d if a.startswith("?")]
            key = show_valuation(d)
            if key in seen_bad:
                continue
            seen_bad.add(key)
            r.violation(
                qual, f"[{key}]",
                f"is_path_ignored gives {outcome[1]} but the specification says {expected[1]}"
                + (f" (depends on unrecognised condition {free})" if free else ""),
                f"{repo.module(CF).rel}:{leaf.trace[-1] if leaf.trace else fn.lineno}",
                {"valuation": d, "branch_lines": leaf.trace})
    atoms = sorted({a for d, _, _ in leaves for a in d})
    r.note("atoms: " + ", ".join(atoms))


# ------------------------------------------------------------------ R3
FLAGS = ["subset_files", "include_submodules", "include_meson_subprojects", "include_reuse_tomls", "vcs_strategy"]


def rule_walk(ck: Check, repo: Repo) -> None:
    r = ck.rule("R3", "iter_files prunes ignored directories and yields exactly the non-ignored files")
    qual = f"{CF}.iter_files"
    fn = repo.func(qual)
    ck.analysed_fn(qual)
    ignored_fn = repo.func(f"{CF}.is_path_ignored")

    class H(Hooks):
        def atom(self, text, node, it):
            m = re.fullmatch(r"is_path_ignored\((.+?),.*\)", text, re.S)
            if m:
                return "ignored"
            if text == "subset_files is not None":
                return "subset_given"
            return None

        def event(self, text, call, it):
            f = ast.unparse(call.func)
            if f == "is_path_ignored":
                return ("test", it.text(call.args[0]) if call.args else "?")
            if f.endswith(".remove"):
                return ("remove", text)
            if f == "os.walk":
                return ("walk", text)
            return None

    leaves = tabulate(fn, H())
    r.floor(4, "paths through iter_files", got=len(leaves))
    for d, leaf, _ in leaves:
        short = {k: v for k, v in d.items()}
        dir_ign = next((v for k, v in d.items() if "dir_" in k and k.endswith("ignored")), None)
        file_ign = next((v for k, v in d.items() if "file_" in k and k.endswith("ignored")), None)
        evs = leaf.events
        removes = [e for e in _strip(evs) if e[0] == "remove"]
        yields = [e for e in _strip(evs) if e[0] == "yield"]
        tests = [e for e in _strip(evs) if e[0] == "test"]
        walks = [e for e in _strip(evs) if e[0] == "walk"]
        r.instance("path:" + show_valuation(short), {"dir_ignored": dir_ign, "file_ignored": file_ign,
                                                     "events": [repr(e) for e in _strip(evs)]})
        if dir_ign is True and removes != [("remove", "dirs.remove(dir_)")]:
            r.violation(qual, "ignored directory is not pruned",
                        f"expected dirs.remove(dir_) for an ignored directory, got {removes}", repo.loc(fn))
        if dir_ign is False and removes:
            r.violation(qual, "non-ignored directory pruned", f"{removes}", repo.loc(fn))
        if file_ign is True and yields:
            r.violation(qual, "ignored file yielded", f"{yields}", repo.loc(fn))
        if file_ign is False and yields != [("yield", "Path(root_str) / file_")]:
            r.violation(qual, "covered file not yielded",
                        f"expected `yield root / file_` for a non-ignored file, got {yields}", repo.loc(fn))
        want_tests = {("test", "Path(root_str) / dir_"), ("test", "Path(root_str) / file_")}
        if set(tests) != want_tests:
            r.violation(qual, "ignore test operands", f"is_path_ignored is applied to {tests}", repo.loc(fn))
        if len(walks) != 1 or "topdown=False" in walks[0][1] or "followlinks=True" in walks[0][1]:
            r.violation(qual, "os.walk mode", f"pruning needs a top-down walk that does not follow links: {walks}",
                        repo.loc(fn))
    # the directory loop must iterate a copy of `dirs`
    loops = [n for n in ast.walk(fn) if isinstance(n, ast.For)]
    def own_nodes(loop):
        stack = list(loop.body)
        while stack:
            n = stack.pop()
            yield n
            if not isinstance(n, ast.For):
                stack.extend(ast.iter_child_nodes(n))

    dir_loops = [l for l in loops if "dirs" in {n.id for n in ast.walk(l.iter) if isinstance(n, ast.Name)}]
    for l in dir_loops:
        it = ast.unparse(l.iter)
        r.instance("prune-loop:" + it, {"iter": it})
        removes_here = any(isinstance(c, ast.Call) and ast.unparse(c.func).endswith("dirs.remove")
                           for c in own_nodes(l))
        if removes_here and it not in ("list(dirs)", "tuple(dirs)", "dirs[:]", "dirs.copy()", "sorted(dirs)"):
            r.violation(qual, "pruning loop mutates the list it iterates",
                        f"`for … in {it}` with dirs.remove() skips the element after each removal", repo.loc(l))
    r.floor(1, "pruning loops", got=len(dir_loops))
    # both calls forward every flag under its own name
    calls = find_calls(fn, lambda c, f: f == "is_path_ignored")
    r.floor(2, "is_path_ignored call sites in iter_files", got=len(calls))
    for c in calls:
        for p in FLAGS:
            a = arg_for(c, ignored_fn, p, skip_self=False)
            got = ast.unparse(a) if a is not None else "<default>"
            r.instance(f"forward:{ast.unparse(c.args[0]) if c.args else '?'}:{p}", None)
            if got != p:
                r.violation(qual, f"flag {p} not forwarded to is_path_ignored({ast.unparse(c.args[0]) if c.args else ''})",
                            f"parameter {p} receives {got}", repo.loc(c))
    subset_normalisation(r, repo)



# ------------------------------------------------------------------ path bases of the VCS membership tests
def rule_path_bases(ck: Check, repo: Repo, rid: str) -> None:
    """Units-of-measure check for paths in reuse.vcs: every `is_ignored` / `is_submodule` compares the queried path,
    made relative to the root, with members of a set collected from the VCS.  Both sides must have the SAME base
    (root-relative): a set whose members are joined with the root (or a query that is not made relative) compares
    unequal for every working directory but one, and ignored / submodule files silently become covered files."""
    r = ck.rule(rid, "VCS membership tests compare paths of the same base (query made root-relative; collected sets root-relative)")
    # the root the strategy relativises against is the root AS GIVEN - the same spelling the walk prefixes to every path it
    # yields.  A strategy root that went through resolve() / absolute() differs from it for a root reached through a
    # symbolic link (or spelled relatively): no walked path is 'below' it any more, nothing is ignored, nothing is a submodule
    base_init = repo.func("reuse.vcs.VCSStrategy.__init__")
    ck.analysed_fn("reuse.vcs.VCSStrategy.__init__")
    for st in ast.walk(base_init):
        if isinstance(st, ast.Assign) and any(ast.unparse(t) == "self.root" for t in st.targets):
            norm = [c for c in ast.walk(st.value) if isinstance(c, ast.Call) and ast.unparse(c.func).split(".")[-1] in
                    ("resolve", "absolute", "normpath", "abspath", "realpath", "expanduser")]
            r.instance("strategy-root", {"assignment": ast.unparse(st)[:70], "spelled_as_given": not norm}, "reuse.vcs.VCSStrategy.__init__")
            if norm:
                r.violation("reuse.vcs.VCSStrategy.__init__", f"the strategy's root is normalised ({ast.unparse(norm[0])[:40]}) while the walk uses the root as given",
                            "`reuse --root <symlink-to-project> annotate -r .`: every walked path starts with the link, the strategy's root is the"
                            " link's target - relative_from_root falls back to a lexical relpath full of `..`, no path is in the ignored set and"
                            " git-ignored files are linted and annotated", repo.loc(st))
    REL, ROOTED, UNKNOWN, GIVEN = "root-relative", "joined-with-root", "unknown", "as-given-by-the-caller"
    n_sites = 0
    for cq, cls in sorted(repo.classes.items()):
        if not cq.startswith("reuse.vcs.VCSStrategy"):
            continue
        methods = {n.name: n for n in cls.body if isinstance(n, ast.FunctionDef)}
        # attribute -> base of the members of the collection stored there
        member_base: dict[str, str] = {}
        init = methods.get("__init__")

        def elt_base(e: ast.AST, fn) -> str:
            """Base of one path-valued expression."""
            if isinstance(e, ast.Call):
                f = ast.unparse(e.func)
                if f == "relative_from_root":
                    return REL
                if f in ("Path", "PurePath") and e.args:
                    a = e.args[0]
                    if isinstance(a, ast.Attribute) and ast.unparse(a) == "self.root":
                        return ROOTED
                    if isinstance(a, ast.BinOp):
                        return elt_base(a, fn)
                    if isinstance(a, ast.Name) and a.id in {x.arg for x in fn.args.args}:
                        return GIVEN  # the queried path itself: absolute or relative to the working directory
                    return REL  # a path string as printed by the VCS (relative to the root: cwd=self.root)
                if isinstance(e.func, ast.Attribute) and e.func.attr in ("resolve", "absolute", "expanduser"):
                    return elt_base(e.func.value, fn)
                if isinstance(e.func, ast.Attribute) and e.func.attr == "joinpath":
                    return elt_base(e.func.value, fn)
                if isinstance(e.func, ast.Attribute) and e.func.attr == "relative_to" and e.args \
                        and ast.unparse(e.args[0]) in ("self.root", "self.root.resolve()"):
                    return REL
            if isinstance(e, ast.BinOp) and isinstance(e.op, ast.Div):
                if ast.unparse(e.left) in ("self.root", "Path(self.root)", "self.root.resolve()"):
                    return ROOTED
                return elt_base(e.left, fn)
            if isinstance(e, ast.Attribute) and ast.unparse(e) == "self.root":
                return ROOTED
            if isinstance(e, ast.Attribute) and e.attr in ("parts", "parent", "parents"):
                return elt_base(e.value, fn)
            if isinstance(e, ast.Subscript):
                return elt_base(e.value, fn)
            if isinstance(e, ast.Name):
                from ..rules import single_assign_value
                d = single_assign_value(fn, e.id)
                if d is not None:
                    return elt_base(d, fn)
                if e.id in {x.arg for x in fn.args.args} and e.id != "self":
                    # a parameter that is re-bound once (`path = relative_from_root(path, self.root)`) was handled
                    # above; a bare parameter is whatever the caller passed
                    return GIVEN
                # loop / comprehension variable over a collected set
                for n in ast.walk(fn):
                    gens = n.generators if isinstance(n, (ast.GeneratorExp, ast.ListComp, ast.SetComp)) else []
                    for g in gens:
                        if isinstance(g.target, ast.Name) and g.target.id == e.id:
                            return coll_base(g.iter, fn)
                    if isinstance(n, ast.For) and isinstance(n.target, ast.Name) and n.target.id == e.id:
                        return coll_base(n.iter, fn)
            return UNKNOWN

        def coll_base(e: ast.AST, fn) -> str:
            t = ast.unparse(e)
            if t.startswith("self.") and t[5:] in member_base:
                return member_base[t[5:]]
            if isinstance(e, (ast.SetComp, ast.ListComp, ast.GeneratorExp)):
                return elt_base(e.elt, fn)
            if isinstance(e, ast.Call) and ast.unparse(e.func) in ("set", "list", "sorted", "frozenset") and e.args:
                return coll_base(e.args[0], fn)
            return UNKNOWN

        if init is not None:
            for st in ast.walk(init):
                if isinstance(st, ast.Assign) and len(st.targets) == 1 and ast.unparse(st.targets[0]).startswith("self._") \
                        and isinstance(st.value, ast.Call) and ast.unparse(st.value.func).startswith("self._find_"):
                    finder = methods.get(ast.unparse(st.value.func)[5:])
                    if finder is None:
                        continue
                    bases = {coll_base(rt.value, finder) for rt in ast.walk(finder) if isinstance(rt, ast.Return) and rt.value is not None}
                    member_base[ast.unparse(st.targets[0])[5:]] = bases.pop() if len(bases) == 1 else UNKNOWN
        for mname in ("is_ignored", "is_submodule"):
            m = methods.get(mname)
            if m is None:
                continue
            for n in ast.walk(m):
                if not isinstance(n, ast.Compare) or len(n.ops) != 1:
                    continue
                op = n.ops[0]
                left, right = n.left, n.comparators[0]
                if isinstance(op, (ast.In, ast.NotIn)):
                    lb, rb = elt_base(left, m), coll_base(right, m)
                elif isinstance(op, (ast.Eq, ast.NotEq)):
                    lb, rb = elt_base(left, m), elt_base(right, m)
                else:
                    continue
                if lb == UNKNOWN and rb == UNKNOWN:
                    continue  # not a path membership test
                n_sites += 1
                r.instance(f"{cq}.{mname}:{ast.unparse(n)[:50]}", {"class": cq.split(".")[-1], "method": mname,
                                                                    "test": ast.unparse(n)[:90], "left": lb, "right": rb}, f"{cq}.{mname}")
                if lb != rb or lb == UNKNOWN:
                    r.violation(f"{cq}.{mname}", f"path bases differ: {lb} vs {rb}",
                                f"`{ast.unparse(n)[:100]}` compares a {lb} path with {rb} paths; they can only be equal when the"
                                f" working directory happens to be the root, so ignored files / submodules stop being recognised"
                                f" (and become covered files) from anywhere else", repo.loc(n))
            # Jujutsu-style: `tracked.is_relative_to(path)` / parents tests
            for c in ast.walk(m):
                if isinstance(c, ast.Call) and isinstance(c.func, ast.Attribute) and c.func.attr in ("is_relative_to", "samefile") and c.args:
                    lb, rb = elt_base(c.func.value, m), elt_base(c.args[0], m)
                    n_sites += 1
                    r.instance(f"{cq}.{mname}:{ast.unparse(c)[:50]}", {"class": cq.split(".")[-1], "method": mname,
                                                                        "test": ast.unparse(c)[:90], "left": lb, "right": rb}, f"{cq}.{mname}")
                    if lb != rb or lb == UNKNOWN:
                        r.violation(f"{cq}.{mname}", f"path bases differ: {lb} vs {rb}", f"`{ast.unparse(c)[:100]}`", repo.loc(c))
    r.floor(5, "VCS membership tests", got=n_sites)



def file_list_source(r, repo: Repo) -> None:
    """_generate_file_reports: the examined files are subset_files(F) exactly when a subset was GIVEN (`is not None`;
    an empty F is still a subset: nothing is examined), else all_files()."""
    gfr = repo.func("reuse.report._generate_file_reports")
    p_subset = "subset_files"
    mapped = [c.args[1] for c in find_calls(gfr, lambda c, f: f in ("pool.map", "map")) if len(c.args) > 1]
    name = mapped[0].id if mapped and isinstance(mapped[0], ast.Name) else "files"
    src_txt = expr_text(gfr, ast.Name(name, ast.Load()))
    r.instance("report-file-source", {"files": src_txt})
    try:
        e = ast.parse(src_txt, mode="eval").body
    except SyntaxError:
        e = None
    ok = False
    why = "expected Project.subset_files(subset_files) if a subset was given else Project.all_files()"
    if isinstance(e, ast.IfExp):
        t = ast.unparse(e.test)
        a, b = ast.unparse(e.body), ast.unparse(e.orelse)
        if t == f"{p_subset} is None":
            t, a, b = f"{p_subset} is not None", b, a
        if a == f"project.subset_files({p_subset})" and b == "project.all_files()":
            if t == f"{p_subset} is not None":
                ok = True
            elif t in (p_subset, f"bool({p_subset})", f"len({p_subset}) > 0"):
                why = (f"the test `{t}` treats an EMPTY subset like no subset: `lint-file` without files (or with only"
                       f" uncovered ones filtered to nothing) would lint the whole project")
    if not ok:
        r.violation("reuse.report._generate_file_reports", "file list source", f"files = {src_txt}; {why}", repo.loc(gfr))



def rule_vcs_output_verbatim(ck: Check, repo: Repo, rid: str) -> None:
    """Paths printed by a VCS command are file names: only the record separator may be removed from them.  A
    whitespace strip() also removes blanks that belong to the name (a directory called "proj " becomes "proj": another
    directory), so the root - and with it everything a command reads or writes - silently moves."""
    r = ck.rule(rid, "paths taken from VCS command output keep their exact spelling (no whitespace strip)")
    n = 0
    for q, fn in sorted(repo.functions.items()):
        if not q.startswith("reuse.vcs."):
            continue
        uses_output = any(isinstance(x, ast.Attribute) and x.attr == "stdout" for x in ast.walk(fn))
        if not uses_output:
            continue
        for c in ast.walk(fn):
            if isinstance(c, ast.Call) and isinstance(c.func, ast.Attribute) and c.func.attr in ("strip", "rstrip", "lstrip") \
                    and repo.enclosing_function(c) is fn:
                arg = c.args[0].value if c.args and isinstance(c.args[0], ast.Constant) else None
                n += 1
                lossy = not c.args or (isinstance(arg, str) and any(ch in arg for ch in " \t")) or (c.args and arg is None)
                r.instance(f"{q}:{ast.unparse(c)[:50]}", {"function": q, "call": ast.unparse(c)[:80], "removes_blanks": lossy}, q)
                if lossy:
                    r.violation(q, f"VCS output is whitespace-stripped: {ast.unparse(c)[:60]}",
                                "a file or directory name may end (or begin) with blanks; stripping them names a DIFFERENT path - for"
                                " find_root the whole project root moves to a sibling directory", repo.loc(c))
        for sub in ast.walk(fn):
            if isinstance(sub, ast.Subscript) and isinstance(sub.slice, ast.Slice) and "stdout" in ast.unparse(sub.value):
                n += 1
                r.instance(f"{q}:{ast.unparse(sub)[:50]}", {"function": q, "slice": ast.unparse(sub)[:80]}, q)
                if ast.unparse(sub.slice) != ":-1":
                    r.violation(q, f"VCS output is cut with {ast.unparse(sub.slice)}", "only the final newline may be removed",
                                repo.loc(sub))
        # decoding: the names are compared with what os.walk yields (os.fsdecode: UTF-8 + surrogateescape).  A lossy error
        # mode maps every undecodable byte to the same replacement, so the decoded name can never equal the walked one
        for c in ast.walk(fn):
            if isinstance(c, ast.Call) and isinstance(c.func, ast.Attribute) and c.func.attr == "decode" and repo.enclosing_function(c) is fn:
                mode = next((kw.value for kw in c.keywords if kw.arg == "errors"), c.args[1] if len(c.args) >= 2 else None)
                val = mode.value if isinstance(mode, ast.Constant) else (None if mode is None else ast.unparse(mode))
                n += 1
                r.instance(f"{q}:{ast.unparse(c)[:50]}", {"function": q, "call": ast.unparse(c)[:80], "errors": val or "strict"}, q)
                if val in ("replace", "ignore", "backslashreplace", "xmlcharrefreplace", "namereplace"):
                    r.violation(q, f"VCS output is decoded with errors={val!r}",
                                f"`{ast.unparse(c)[:70]}`: a file name that is not valid UTF-8 is altered by the decoding and no longer equals"
                                f" the name the directory walk yields - an ignored file `secret_caf\\xe9.py` is not recognised as ignored"
                                f" and is linted / annotated like a covered file", repo.loc(c))
    r.floor(3, "trimming sites on VCS output", got=n)



def rule_meson_parent(ck: Check, repo: Repo, rid: str) -> None:
    """A directory is a Meson subproject when its parent, INSIDE the project, is called `subprojects`.  The test must not
    look at components at or above the project root: for the children of the root the 'parent name' is then the root's own
    name as spelled - a project that lives in a directory called `subprojects` loses all its top-level directories when the
    root is given by name or absolutely, and keeps them with `--root .`."""
    r = ck.rule(rid, "the Meson-subproject test looks only at path components below the project root")
    q = f"{CF}.is_path_ignored"
    fn = repo.func(q)
    from ..rules import deep_text
    ops = []
    for c in ast.walk(fn):
        if isinstance(c, ast.Call) and isinstance(c.func, ast.Attribute) and c.func.attr in ("match", "fullmatch", "search") and c.args:
            loops = [p for p in ast.walk(fn) if isinstance(p, ast.For) and c in list(ast.walk(p)) and "MESON" in ast.unparse(p.iter)]
            loops += [p for p in ast.walk(fn) if isinstance(p, (ast.GeneratorExp, ast.ListComp, ast.SetComp)) and c in list(ast.walk(p))
                      and any("MESON" in ast.unparse(g.iter) for g in p.generators)]
            if loops or "MESON" in ast.unparse(c.func.value):
                ops.append((deep_text(fn, c.args[0]), c))
    params = [a.arg for a in fn.args.args + fn.args.kwonlyargs]
    r.instance("meson-operand", {"operands": [o for o, _ in ops], "parameters": params}, q)
    if not ops:
        raise AnalysisError("is_path_ignored: Meson parent test not found")
    rootish = [p for p in params if p in ("root", "project_root", "directory", "base", "top")]
    for text, node in ops:
        if "path.parent" in text and not rootish and "relative_to" not in text:
            r.violation(q, "the Meson test uses the parent name of the path as walked",
                        f"operand `{text}` and no parameter names the project root: for `<root>/src` the parent name is the root's own"
                        f" last component - with a project directory called `subprojects`, `reuse --root /x/subprojects lint` skips"
                        f" every top-level directory (0 files) while `--root .` lints them all", repo.loc(node))



def shared_decision(ck: Check, repo: Repo, rid: str) -> None:
    """The decision table of is_path_ignored for another property that depends on the covered-file set (the name
    languages themselves are C03-R1's business; only the meson parent language is needed to instantiate the table)."""
    from ..relang import union
    folder = Folder(repo)
    impl = _regex_list(folder, "_IGNORE_MESON_PARENT_DIR_PATTERNS")
    alpha = Alphabet([(x.pattern, x.flags) for x in impl], exclude=EXCLUDE)
    langs = {"_IGNORE_MESON_PARENT_DIR_PATTERNS": (alpha, union(alpha, [Lang.from_regex(x.pattern, x.flags, alpha, "match") for x in impl]))}
    rule_decision(ck, repo, langs, rid)


def subset_normalisation(r, repo: Repo) -> None:
    """The subset is compared like with like: iter_files resolves every requested path and
    is_path_ignored tests the resolved candidate (file) / resolved directory prefix."""
    qual = f"{CF}.iter_files"
    fn = repo.func(qual)
    norm = [n for n in ast.walk(fn) if isinstance(n, (ast.SetComp, ast.ListComp, ast.GeneratorExp))
            and ast.unparse(n.generators[0].iter) == "subset_files"]
    how = [ast.unparse(n.elt) for n in norm]
    r.instance("subset-normalisation", {"iter_files": how})
    ok = any(re.fullmatch(r"Path\((\w+)\)\.resolve\(\)|(\w+)\.resolve\(\)", h) for h in how)
    if not ok:
        r.violation(qual, "subset_files not resolved",
                    f"requested files are normalised by {how or 'nothing'}; is_path_ignored compares against"
                    " path.resolve(), so a non-canonical spelling (.., symlinked directory) never matches", repo.loc(fn))
    ig = repo.func(f"{CF}.is_path_ignored")
    src = ast.unparse(ig)
    def resolves_to_resolved(arg: ast.AST) -> bool:
        return expr_text(ig, arg) == "path.resolve()"

    dir_ok = any(isinstance(c, ast.Call) and isinstance(c.func, ast.Attribute) and c.func.attr == "is_relative_to" and c.args
                 and resolves_to_resolved(c.args[0]) for c in ast.walk(ig))
    file_ok = any(isinstance(c, ast.Compare) and isinstance(c.ops[0], (ast.In, ast.NotIn)) and ast.unparse(c.comparators[0]) == "subset_files"
                  and resolves_to_resolved(c.left) for c in ast.walk(ig))
    uses = {"file": file_ok, "dir": dir_ok}
    r.instance("subset-membership", uses)
    for k, v in uses.items():
        if not v:
            r.violation(f"{CF}.is_path_ignored", f"subset membership of a {k} does not use the resolved path",
                        "subset entries are resolved paths", repo.loc(ig))


def _strip(events):
    out = []
    for e in events:
        while e[0] == "each":
            e = e[2]
        out.append(e)
    return out


# ------------------------------------------------------------------ R4
def check_forward(r, repo: Repo, caller: str, callee_text: str, callee_def: str, want: dict[str, str],
                  min_sites: int = 1, skip_self: bool = True, blank_tolerant: tuple = ()) -> None:
    fn = repo.func(caller)
    cdef = repo.func(callee_def)
    calls = find_calls(fn, lambda c, f: f == callee_text or f.endswith("." + callee_text))
    if len(calls) < min_sites:
        raise AnalysisError(f"{caller}: call to {callee_text} vanished")
    for c in calls:
        for p, expected in want.items():
            a = arg_for(c, cdef, p, skip_self=skip_self)
            got = expr_text(fn, a) if a is not None else "<default>"
            raw = ast.unparse(a) if a is not None else "<default>"
            r.instance(f"{caller}->{callee_text}:{p}", {"caller": caller, "param": p, "argument": got},
                       caller)
            from ..rules import deep_text
            try:
                same = a is not None and expected != "<default>" and deep_text(fn, a) == deep_text(fn, expected)
                if not same and p in blank_tolerant and a is not None:
                    from ..rules import resolve_deep, unstrip
                    same = ast.unparse(unstrip(resolve_deep(fn, a))) == ast.unparse(unstrip(resolve_deep(fn, expected)))
            except SyntaxError:
                same = False
            if got != expected and raw != expected and not same:
                r.violation(caller, f"{callee_text}({p}=…) receives {got}",
                            f"parameter {p} of {callee_text} must receive {expected}, got {got}", repo.loc(c))


def discovery_forwarding(r, repo: Repo) -> None:
    """The REUSE.toml files of a project are discovered with the SAME coverage options as its files (a REUSE.toml in a
    submodule / Meson subproject counts exactly when that directory's files do)."""
    P = "reuse.project.Project"
    same = {"include_submodules": "include_submodules", "include_meson_subprojects": "include_meson_subprojects",
            "vcs_strategy": "vcs_strategy"}
    check_forward(r, repo, "reuse.global_licensing.NestedReuseTOML.find_reuse_tomls", "iter_files",
                  f"{CF}.iter_files", {**same, "include_reuse_tomls": "True", "subset_files": "<default>"},
                  skip_self=False)
    check_forward(r, repo, f"{P}.find_global_licensing", "find_reuse_tomls",
                  "reuse.global_licensing.NestedReuseTOML.find_reuse_tomls", same)
    check_forward(r, repo, f"{P}.from_directory", "find_global_licensing", f"{P}.find_global_licensing", same)



def rule_report_identity(ck: Check, repo: Repo, rid: str) -> None:
    """The per-file reports are collected in a SET.  Two reports that compare equal are one element: if equality is
    defined on anything coarser than the file's unique path (base name, checksum only), the reports of different covered
    files collapse and all but one file vanish from the result - silently, exit status unchanged."""
    r = ck.rule(rid, "reports of different covered files never compare equal (FileReport equality, if defined, includes the full path)")
    ck.extra.setdefault("inventory_claimed", {})["special_methods:reuse.report.FileReport"] = ["__eq__", "__hash__"]
    cls = repo.cls("reuse.report.FileReport")
    methods = {m.name: m for m in cls.body if isinstance(m, ast.FunctionDef)}
    eq = methods.get("__eq__")
    r.instance("FileReport", {"defines___eq__": eq is not None, "defines___hash__": "__hash__" in methods})
    if eq is None:
        return   # identity comparison: distinct objects are distinct elements

    def attrs_used(fn: ast.FunctionDef, depth: int = 0) -> set[str]:
        out = set()
        for n in ast.walk(fn):
            if isinstance(n, ast.Attribute) and isinstance(n.value, ast.Name) and n.value.id in ("self", "other"):
                # the chain rooted here, outermost attribute
                out.add(n.attr)
            if isinstance(n, ast.Attribute) and isinstance(n.value, ast.Attribute) and isinstance(n.value.value, ast.Name) \
                    and n.value.value.id in ("self", "other"):
                out.add(f"{n.value.attr}.{n.attr}")
            if depth < 2 and isinstance(n, ast.Call) and isinstance(n.func, ast.Attribute) and isinstance(n.func.value, ast.Name) \
                    and n.func.value.id in ("self", "other") and n.func.attr in methods:
                out |= attrs_used(methods[n.func.attr], depth + 1)
        return out

    # the path must be compared ACROSS the two objects: `(self.name, …) == (self.name, …)` compares it with itself
    other_name = eq.args.args[1].arg if len(eq.args.args) > 1 else "other"
    for cmp_ in [n for n in ast.walk(eq) if isinstance(n, ast.Compare) and len(n.ops) == 1 and isinstance(n.ops[0], (ast.Eq, ast.NotEq))]:
        lefts = cmp_.left.elts if isinstance(cmp_.left, ast.Tuple) else [cmp_.left]
        rights = cmp_.comparators[0].elts if isinstance(cmp_.comparators[0], ast.Tuple) else [cmp_.comparators[0]]
        for a, b in zip(lefts, rights):
            ta, tb = ast.unparse(a), ast.unparse(b)
            if ta.split(".")[0] == tb.split(".")[0] and ta.split(".")[0] in ("self", other_name) and "." in ta and ta.split(".", 1)[1].split(".")[0] in ("name", "path"):
                r.violation("reuse.report.FileReport.__eq__", f"`{ta}` is compared with `{tb}` - the same object on both sides",
                            "the path takes no part in the comparison: reports of different files with the same content compare equal, the set of"
                            " file reports keeps one of them", repo.loc(cmp_))
    used = attrs_used(eq)
    narrowed = {u for u in used if u.split(".")[0] in ("path", "name") and "." in u}    # path.name, path.stem, name.split …
    whole = {u for u in used if u in ("path", "name")} - {u.split(".")[0] for u in narrowed}
    r.instance("__eq__", {"attributes": sorted(used), "full_path_compared": bool(whole)})
    if not whole:
        r.violation("reuse.report.FileReport.__eq__", f"equality of file reports does not include the file's full path (compares {sorted(used)})",
                    "`a/__init__.py` and `b/__init__.py` with identical content have the same base name and checksum: their reports compare"
                    " equal, the set of file reports keeps one of them and `reuse spdx` emits one File section for three covered files",
                    repo.loc(eq))


def rule_forwarding(ck: Check, repo: Repo) -> None:
    r = ck.rule("R4", "configuration flags are forwarded unchanged along the file-enumeration chain")
    P = "reuse.project.Project"
    proj_flags = {
        "include_submodules": "self.include_submodules",
        "include_meson_subprojects": "self.include_meson_subprojects",
        "vcs_strategy": "self.vcs_strategy",
    }
    for m in ("all_files", "subset_files"):
        ck.analysed_fn(f"{P}.{m}")
        want = dict(proj_flags)
        want["include_reuse_tomls"] = "<default>"
        want["subset_files"] = "files" if m == "subset_files" else "<default>"
        check_forward(r, repo, f"{P}.{m}", "iter_files", f"{CF}.iter_files", want, skip_self=False)
    discovery_forwarding(r, repo)
    check_forward(r, repo, "reuse.cli.common.ClickObj.project", "from_directory", f"{P}.from_directory",
                  {"include_submodules": "self.include_submodules",
                   "include_meson_subprojects": "self.include_meson_subprojects"})
    # Project(...) constructions keep the flags
    for caller, want in (
        (f"{P}.from_directory", {"include_submodules": "include_submodules",
                                 "include_meson_subprojects": "include_meson_subprojects",
                                 "vcs_strategy": "cls._detect_vcs_strategy(root)"}),
        ("reuse.report._MultiprocessingContainer.__init__",
         {"include_submodules": "project.include_submodules",
          "include_meson_subprojects": "project.include_meson_subprojects",
          "vcs_strategy": "project.vcs_strategy"}),
    ):
        fn = repo.func(caller)
        ctor = "cls" if caller.endswith("from_directory") else "Project"
        calls = find_calls(fn, lambda c, f: f == ctor)
        if not calls:
            if caller.endswith("_MultiprocessingContainer.__init__"):
                # the container keeps the caller's Project instead of building a copy: no flags can get lost on the way
                r.instance(f"{caller}:no-copy", {"caller": caller, "constructs_project": False}, caller)
                continue
            raise AnalysisError(f"{caller}: Project construction vanished")
        for c in calls:
            for p, expected in want.items():
                a = kwarg(c, p)
                got = expr_text(fn, a) if a is not None else "<default>"
                r.instance(f"{caller}->Project:{p}", {"argument": got}, caller)
                if got != expected:
                    r.violation(caller, f"Project({p}=…) receives {got}", f"expected {expected}", repo.loc(c))
    # the group callback stores the CLI options in ClickObj under their own names
    main = repo.func("reuse.cli.main.main")
    calls = find_calls(main, lambda c, f: f == "ClickObj")
    if not calls:
        raise AnalysisError("reuse.cli.main.main: ClickObj construction vanished")
    for p in ("root", "include_submodules", "include_meson_subprojects"):   # (no_multiprocessing does not select files)
        a = kwarg(calls[0], p)
        got = ast.unparse(a) if a is not None else "<default>"
        r.instance(f"main->ClickObj:{p}", {"argument": got})
        if got != p:
            r.violation("reuse.cli.main.main", f"ClickObj({p}=…) receives {got}", f"expected {p}", repo.loc(calls[0]))
    # file list of the reports comes only from Project.all_files / subset_files
    gfr = repo.func("reuse.report._generate_file_reports")
    ck.analysed_fn("reuse.report._generate_file_reports")
    file_list_source(r, repo)
    mapped = [ast.unparse(c.args[1]) for c in find_calls(gfr, lambda c, f: f in ("pool.map", "map")) if len(c.args) > 1]
    if sorted(set(mapped)) != ["files"] or len(mapped) < 2:
        r.violation("reuse.report._generate_file_reports", "mapped collection",
                    f"the container is mapped over {mapped}, expected `files` on both branches", repo.loc(gfr))
    all_paths_rules(r, repo, ck)


def all_paths_rules(r, repo: Repo, ck: Check) -> None:
    # annotate --recursive expands only through Project.all_files() walked from the project root
    ap = repo.func("reuse.cli.annotate.all_paths")
    ck.analysed_fn("reuse.cli.annotate.all_paths")
    af_calls = find_calls(ap, lambda c, f: f.split(".")[-1] in ("all_files", "subset_files", "iter_files"))
    r.instance("annotate-recursive-source", {"calls": [ast.unparse(c) for c in af_calls]})
    if not af_calls:
        r.violation("reuse.cli.annotate.all_paths", "recursive expansion source",
                    "children of a directory argument must come from Project.all_files()", repo.loc(ap))
    for c in af_calls:
        if ast.unparse(c) != "project.all_files()":
            r.violation("reuse.cli.annotate.all_paths", f"recursive expansion walks {ast.unparse(c)}",
                        "a walk that does not start at the project root skips the directory-level exclusions of the"
                        " directories above its starting point (ignored / submodule / subprojects / LICENSES)", repo.loc(c))
    walkers = find_calls(ap, lambda c, f: f in ("os.walk", "os.listdir", "os.scandir") or
                         f.split(".")[-1] in ("rglob", "glob", "iterdir", "walk"))
    r.instance("annotate-recursive-no-own-walk", {"walk_calls": len(walkers)})
    for c in walkers:
        r.violation("reuse.cli.annotate.all_paths", f"own directory walk {ast.unparse(c.func)}",
                    "recursive annotate must expand only through Project.all_files()", repo.loc(c))
    comps = [n for n in ast.walk(ap) if isinstance(n, (ast.SetComp, ast.ListComp, ast.GeneratorExp))]
    under = [n for n in comps if any(re.search(r"\.parents\b|is_relative_to\(", ast.unparse(i)) for g in n.generators for i in g.ifs)]
    r.instance("annotate-recursive-child-filter", {"filters": [ast.unparse(i) for n in under for g in n.generators for i in g.ifs]})
    if af_calls and all(ast.unparse(c) == "project.all_files()" for c in af_calls) and not under:
        r.violation("reuse.cli.annotate.all_paths", "child filter",
                    "children of a directory argument must be restricted to the covered files below it", repo.loc(ap))
    # like with like: `X in child.parents` / `child.is_relative_to(X)` compare path components - when the children are resolved
    # (absolute) the directory argument has to be resolved too, and the other way round
    from ..rules import deep_text
    for n in under:
        for g in n.generators:
            src_txt = deep_text(ap, g.iter)
            children_resolved = ".resolve()" in src_txt or ".absolute()" in src_txt or re.search(r"\bmap\((Path|pathlib\.Path)\.(resolve|absolute),", src_txt) is not None
            for i in g.ifs:
                for c in ast.walk(i):
                    operand = None
                    if isinstance(c, ast.Compare) and len(c.ops) == 1 and isinstance(c.ops[0], ast.In) and ast.unparse(c.comparators[0]).endswith(".parents"):
                        operand = c.left
                    elif isinstance(c, ast.Call) and isinstance(c.func, ast.Attribute) and c.func.attr == "is_relative_to" and c.args:
                        operand = c.args[0]
                    if operand is None:
                        continue
                    op_txt = deep_text(ap, operand)
                    op_resolved = ".resolve()" in op_txt or ".absolute()" in op_txt
                    r.instance("annotate-recursive-like-with-like", {"children": src_txt[:70], "children_resolved": children_resolved,
                                                                     "directory": op_txt[:50], "directory_resolved": op_resolved})
                    if children_resolved != op_resolved:
                        r.violation("reuse.cli.annotate.all_paths", "the child filter compares a resolved path with one spelled as given",
                                    f"children come from `{src_txt[:60]}`, the directory is `{op_txt[:40]}`: for a relative directory argument no"
                                    " covered file is 'below' it - `reuse annotate -r src` touches nothing (or, the other way round, misses"
                                    " every file)", repo.loc(c))


# ------------------------------------------------------------------ R5
def _command_consts(fn: ast.FunctionDef) -> list[str]:
    for n in ast.walk(fn):
        if isinstance(n, ast.Assign) and any(isinstance(t, ast.Name) and t.id == "command" for t in n.targets):
            if isinstance(n.value, ast.List):
                return [e.value for e in n.value.elts if isinstance(e, ast.Constant)]
    raise AnalysisError(f"{fn.name}: command list vanished")


def _split_arg(fn: ast.FunctionDef) -> list[str]:
    out = []
    for c in ast.walk(fn):
        if isinstance(c, ast.Call) and isinstance(c.func, ast.Attribute):
            if c.func.attr == "split" and c.args and isinstance(c.args[0], ast.Constant):
                out.append(c.args[0].value)
            elif c.func.attr == "splitlines" and "stdout" in ast.unparse(c.func.value):
                out.append("<splitlines>")
    return out


def rule_vcs(ck: Check, repo: Repo) -> None:
    r = ck.rule("R5", "VCS readers: query flags and separators agree; membership of the root-relative path")
    G = "reuse.vcs.VCSStrategyGit"
    fn = repo.func(f"{G}._find_all_ignored_files")
    ck.analysed_fn(f"{G}._find_all_ignored_files")
    cmd = _command_consts(fn)
    sp = _split_arg(fn)
    r.instance("git-ignored", {"argv": cmd, "split": sp})
    for flag in ("ls-files", "--exclude-standard", "--ignored", "--others", "--directory"):
        if flag not in cmd:
            r.violation(f"{G}._find_all_ignored_files", f"git flag {flag} missing",
                        f"the ignored-files query lacks {flag}: {cmd}", repo.loc(fn))
    # the confirmed query: every flag of a VCS query selects or formats WHAT is listed - one that was not confirmed by
    # reading git's documentation changes the set of 'ignored' files (reference = the argv confirmed on the pinned tree)
    confirmed = {"ls-files", "--exclude-standard", "--ignored", "--others", "--directory", "-z"}
    known_bad = {"--no-empty-directory": "together with --directory, git (2.39) omits ignored files that lie in an UNTRACKED directory which also"
                                        " holds a non-ignored file (.gitignore `*.pyc`, untracked u/a.py + u/b.pyc: only without this flag is"
                                        " u/b.pyc listed) - such files are linted and annotated although `git check-ignore` names them",
                 "--cached": "also lists TRACKED files that match an exclude pattern (git add -f, a rule added after the commit): they are"
                             " skipped although git check-ignore says they are not ignored",
                 "-c": "also lists TRACKED files that match an exclude pattern", "--modified": "lists modified tracked files as ignored",
                 "-m": "lists modified tracked files as ignored", "--deleted": "lists deleted files", "--stage": "changes the output format",
                 "--killed": "lists files that a checkout would remove"}
    for flag in cmd:
        if flag not in confirmed:
            r.violation(f"{G}._find_all_ignored_files", f"git flag {flag} is not part of the confirmed ignored-files query",
                        f"{cmd}: {known_bad.get(flag, 'an unconfirmed flag changes which files the query lists or how they are printed')}",
                        repo.loc(fn))
    if ("-z" in cmd) != (sp == ["\0"]) or not sp:
        r.violation(f"{G}._find_all_ignored_files", "separator mismatch",
                    f"argv has -z: {'-z' in cmd} but output is split on {sp!r}", repo.loc(fn))
    if "-z" not in cmd:
        r.violation(f"{G}._find_all_ignored_files", "-z missing",
                    "without -z git quotes unusual file names and they are not recognised", repo.loc(fn))
    # VCS queries inherit the user's environment: git finds the user-level configuration (core.excludesFile,
    # ~/.config/git/ignore, safe.directory) through HOME / XDG_CONFIG_HOME / GIT_*; subprocess's env= REPLACES the
    # environment, it does not extend it (library semantics)
    n_sp = 0
    for fq, f in repo.functions.items():
        for c in ast.walk(f):
            if isinstance(c, ast.Call) and ast.unparse(c.func) in ("subprocess.run", "subprocess.Popen", "subprocess.check_output", "subprocess.call", "subprocess.check_call"):
                n_sp += 1
                env = next((kw.value for kw in c.keywords if kw.arg == "env"), None)
                txt = ast.unparse(env) if env is not None else None
                ok = env is None or (isinstance(env, ast.Constant) and env.value is None) or "os.environ" in (txt or "") or "environ" in (txt or "")
                r.instance(f"spawn:{fq}", {"function": fq, "env": txt, "inherits_environment": ok}, fq)
                if not ok:
                    r.violation(fq, f"VCS commands are run with a replaced environment (env={txt[:60]})",
                                "without HOME / XDG_CONFIG_HOME git reads no user-level configuration: files ignored through core.excludesFile or"
                                " ~/.config/git/ignore are no longer reported as ignored and become covered files (linted, annotated)",
                                repo.loc(c))
    if n_sp < 1:
        raise AnalysisError("no subprocess call found (anchor vanished)")
    fn = repo.func(f"{G}._find_submodules")
    cmd = _command_consts(fn)
    sp = _split_arg(fn)
    r.instance("git-submodules", {"argv": cmd, "split": sp})
    if ("-z" in cmd) != ("\0" in sp) or ".gitmodules" not in cmd:
        r.violation(f"{G}._find_submodules", "separator mismatch", f"argv {cmd}, split {sp!r}", repo.loc(fn))
    H = "reuse.vcs.VCSStrategyHg"
    fn = repo.func(f"{H}._find_all_ignored_files")
    cmd = _command_consts(fn)
    sp = _split_arg(fn)
    r.instance("hg-ignored", {"argv": cmd, "split": sp})
    if ("--print0" in cmd) != (sp == ["\0"]) or "--ignored" not in cmd:
        r.violation(f"{H}._find_all_ignored_files", "separator mismatch", f"argv {cmd}, split {sp!r}", repo.loc(fn))
    # 'VCS submodules' are what the VCS says they are: is_submodule answers from the VCS's own list only.  A probe of the
    # tree (a `.git` entry, a marker file) makes an ordinary directory that happens to contain such an entry a 'submodule'
    PROBES = ("exists", "is_dir", "is_file", "is_symlink", "stat", "lstat", "iterdir", "glob", "rglob", "listdir", "scandir", "open", "isdir", "isfile", "lexists")
    for sq, sf in sorted(repo.functions.items()):
        if not (sq.startswith("reuse.vcs.") and sq.endswith(".is_submodule")):
            continue
        ck.analysed_fn(sq)
        owner = sq.rsplit(".", 1)[0]
        scope = [sf] + [repo.functions[f"{owner}.{c.func.attr}"] for c in ast.walk(sf) if isinstance(c, ast.Call) and isinstance(c.func, ast.Attribute)
                        and isinstance(c.func.value, ast.Name) and c.func.value.id in ("self", "cls") and f"{owner}.{c.func.attr}" in repo.functions]
        probes = [ast.unparse(c)[:50] for f in scope for c in ast.walk(f) if isinstance(c, ast.Call) and isinstance(c.func, ast.Attribute) and c.func.attr in PROBES]
        rets = [n for n in ast.walk(sf) if isinstance(n, ast.Return) and n.value is not None]
        answers = [ast.unparse(n.value)[:70] for n in rets]
        always_true = [a for n, a in zip(rets, answers) if isinstance(n.value, ast.Constant) and n.value.value is True]
        r.instance(f"submodule-test:{sq}", {"function": sq, "file_system_probes": probes, "answers": answers}, sq)
        if always_true:
            r.violation(sq, "is_submodule answers True unconditionally",
                        "every directory is pruned as a 'submodule': under that VCS lint, spdx and annotate -r examine no file below the root",
                        repo.loc(sf))
        if probes:
            r.violation(sq, f"is_submodule probes the tree ({probes[0]})",
                        "a tracked directory that merely contains an entry named `.git` (an empty file, a leftover directory) is pruned like a"
                        " submodule: its covered files are skipped by lint, spdx and annotate -r although git lists them as tracked", repo.loc(sf))
    for cls in (G, H):
        q = f"{cls}.is_ignored"
        f2 = repo.func(q)
        ck.analysed_fn(q)
        rets = [n for n in ast.walk(f2) if isinstance(n, ast.Return)]
        txt = expr_text(f2, rets[-1].value) if rets else ""
        rel = expr_text(f2, ast.Name("path", ast.Load()))
        r.instance(q, {"returns": txt})
        ok = txt in ("path in self._all_ignored_files",) and any(
            isinstance(n, ast.Assign) and ast.unparse(n.value) == "relative_from_root(path, self.root)"
            for n in ast.walk(f2))
        if not ok:
            r.violation(q, "membership test", f"is_ignored returns {txt}; expected membership of the"
                        " root-relative path in the listed ignored files", repo.loc(f2))
    # strategies that know the TRACKED files: ignored = not tracked (Pijul: exact membership; Jujutsu: a path is tracked when
    # some tracked file lies at or below it)
    J, P = "reuse.vcs.VCSStrategyJujutsu", "reuse.vcs.VCSStrategyPijul"
    if repo.has_func(f"{P}.is_ignored"):
        f2 = repo.func(f"{P}.is_ignored")
        ck.analysed_fn(f"{P}.is_ignored")
        rets = [n for n in ast.walk(f2) if isinstance(n, ast.Return)]
        txt = expr_text(f2, rets[-1].value) if rets else ""
        r.instance(f"{P}.is_ignored", {"returns": txt})
        if txt not in ("path not in self._all_tracked_files", "not path in self._all_tracked_files"):
            r.violation(f"{P}.is_ignored", "membership test", f"is_ignored returns {txt}; expected: the root-relative path is not among the tracked files",
                        repo.loc(f2))
    if repo.has_func(f"{J}.is_ignored"):
        f2 = repo.func(f"{J}.is_ignored")
        ck.analysed_fn(f"{J}.is_ignored")
        loops = [n for n in f2.body if isinstance(n, ast.For) and "_all_tracked_files" in ast.unparse(n.iter)]
        verdicts = []
        for lp in loops:
            for n in ast.walk(lp):
                if isinstance(n, ast.If):
                    t = n.test
                    inner_ret = [x for x in n.body if isinstance(x, ast.Return) and isinstance(x.value, ast.Constant)]
                    if isinstance(t, ast.Compare) and len(t.ops) == 1 and inner_ret:
                        sides = sorted([ast.unparse(t.left), ast.unparse(t.comparators[0])])
                        prefix_cmp = sides == sorted([f"{lp.target.id}.parts[:len(path.parts)]", "path.parts"]) if isinstance(lp.target, ast.Name) else False
                        verdicts.append((type(t.ops[0]).__name__, prefix_cmp, inner_ret[0].value.value))
        tail = [x for x in f2.body if isinstance(x, ast.Return)]
        default = tail[-1].value.value if tail and isinstance(tail[-1].value, ast.Constant) else None
        r.instance(f"{J}.is_ignored", {"prefix_tests": verdicts, "default": default})
        if verdicts != [("Eq", True, False)] or default is not True:
            r.violation(f"{J}.is_ignored", "tracked-prefix test",
                        f"found {verdicts}, default {default}; expected: False as soon as a tracked file has the path as a prefix of its parts, True"
                        " otherwise - anything else reports tracked files as ignored (they are skipped) or ignored files as covered", repo.loc(f2))
    # every VCS query runs IN the project root: the listings are root-relative, and what git / hg / jj / pijul print depends on
    # the directory they are started in
    ec = repo.func("reuse._util.execute_command")
    ck.analysed_fn("reuse._util.execute_command")
    runs = [c for c in ast.walk(ec) if isinstance(c, ast.Call) and ast.unparse(c.func) in ("subprocess.run", "subprocess.Popen", "subprocess.check_output")]
    cwd_fwd = [ast.unparse(k.value) for c in runs for k in c.keywords if k.arg == "cwd"]
    r.instance("execute_command-cwd", {"cwd_arguments": cwd_fwd}, "reuse._util.execute_command")
    if runs and not any(re.fullmatch(r"(str\()?cwd\)?|os\.fspath\(cwd\)", t) for t in cwd_fwd):
        r.violation("reuse._util.execute_command", "the working directory is not handed to the child process",
                    f"cwd arguments: {cwd_fwd}: the VCS is asked about the directory `reuse` was started in, not about the project root - with"
                    " `--root ../proj` (or from a subdirectory) the ignored-files listing belongs to another tree", repo.loc(ec))
    n_q = 0
    for sq, sf in sorted(repo.functions.items()):
        # listing queries are made by instance methods (the strategy of one project); root discovery (class methods: in_repo,
        # find_root and their shared runner) runs in the directory it is asked about
        if not sq.startswith("reuse.vcs.") or sf.name.startswith("in_repo") or "find_root" in sf.name \
                or not (sf.args.args and sf.args.args[0].arg == "self"):
            continue
        for c in ast.walk(sf):
            if isinstance(c, ast.Call) and ast.unparse(c.func) == "execute_command":
                n_q += 1
                cw = next((ast.unparse(k.value) for k in c.keywords if k.arg == "cwd"), ast.unparse(c.args[2]) if len(c.args) > 2 else None)
                r.instance(f"query-cwd:{sq}", {"function": sq, "cwd": cw}, sq)
                if cw != "self.root":
                    r.violation(sq, "a VCS listing is not taken in the project root", f"cwd={cw}; the listing is compared with root-relative paths",
                                repo.loc(c))
    r.floor(4, "VCS listing queries", got=n_q)


def run(ck: Check, repo: Repo) -> None:
    ck.explanation = (
        "Decides (R1) equality of the ignore-table name languages with the specified languages by DFA"
        " product over a symbolic alphabet (names of any length), (R2) the decision table of"
        " is_path_ignored against the specified predicate by joint decision-tree exploration over 19 opaque"
        " atoms, (R3) the pruning/yield structure of iter_files, (R4) unchanged forwarding of the include"
        " flags / VCS strategy / subset along every call chain that enumerates files, (R5) separator and"
        " flag agreement of the VCS readers. Not decided: Git's own answer for ignore rules (external"
        " program, run time)."
    )
    ck.not_decided = ["whether `git ls-files --ignored --others --directory` equals check-ignore for every"
                      " tracked/untracked/ignored combination (external oracle, run time)"]
    ck.trust("CPython ast", "re._parser (regex syntax trees)", "sa/relang.py automata", "sa/tab.py tabulator",
             "sa/fold.py constant folder")
    folder = Folder(repo)
    langs = rule_languages(ck, repo, folder)
    rule_decision(ck, repo, langs)
    rule_path_bases(ck, repo, "R6")
    rule_vcs_output_verbatim(ck, repo, "R7")
    rule_report_identity(ck, repo, "R9")
    rule_meson_parent(ck, repo, "R8")
    rule_walk(ck, repo)
    rule_forwarding(ck, repo)
    rule_vcs(ck, repo)
