"""C19 - download: no overwrite, no partial file, LicenseRef offline, per-licence error handling."""
from __future__ import annotations

import ast
import re

from ..model import AnalysisError, Repo
from ..report import Check
from ..rules import find_calls
from ..tab import Hooks, show_valuation, tabulate

DL = "reuse.download"
EFFECTS = {"mkdir", "touch", "open", "copyfile", "write_text", "write_bytes", "unlink", "rename", "replace", "copy",
           "copy2", "move", "rmtree", "remove", "makedirs"}


class PutHooks(Hooks):
    def atom(self, text, node, it):
        t = text
        table = {
            "Path(destination).exists()": "exists",
            "Path(destination).is_symlink()": "is_link",
            "os.path.islink(Path(destination))": "is_link",
            "os.path.islink(destination)": "is_link",
            "os.path.lexists(Path(destination))": "present",
            "os.path.lexists(destination)": "present",
            "_LICENSEREF_PATTERN.match(spdx_identifier)": "lref",
            "source": "source",
            "Path(source).is_dir()": "source_is_dir",
            "Path(source).exists()": "source_exists",
            "(Path(source) / f'{spdx_identifier}.txt').exists()": "source_exists",
        }
        return table.get(t)

    def raises(self, text, call, it):
        if ast.unparse(call.func) == "download_license":
            return ["URLError"]
        return []

    def event(self, text, call, it):
        f = ast.unparse(call.func)
        last = f.split(".")[-1]
        if f == "download_license":
            return ("download", it.text(call.args[0]) if call.args else "")
        if last in EFFECTS and (isinstance(call.func, ast.Attribute)):
            recv = it.text(call.func.value)
            args = [it.text(a) for a in call.args]
            if last == "open":
                mode = args[0] if args else next((it.text(kw.value) for kw in call.keywords if kw.arg == "mode"), "'r'")
                if not any(m in mode for m in "wax+"):
                    return None
                return ("effect", "open-w", recv)
            if last in ("copyfile", "copy", "copy2", "move"):
                return ("effect", last, args[1] if len(args) > 1 else "?")
            if last in ("write_text", "write_bytes"):
                return ("effect", "open-w", recv)   # a whole-file write, however it is spelled
            return ("effect", last, recv)
        if f == "urllib.request.urlopen" or last == "urlopen":
            return ("network", text)
        return None


HANDLED = ("FileExistsError", "FileNotFoundError", "URLError")  # each is caught by the command and sets the exit status


def rule_put(ck: Check, repo: Repo, rid: str = "R1") -> None:
    r = ck.rule(rid, "put_license_in_file: exists() refusal dominates every write; download completes before the file is opened; LicenseRef offline")
    q = f"{DL}.put_license_in_file"
    fn = repo.func(q)
    ck.analysed_fn(q)
    DLERR = "raise[URLError]@download_license(spdx_identifier)"

    uses_lexists = "lexists(" in ast.unparse(fn)

    def ref(v):
        # 'never replaces or alters an existing file' / 'writes only to LICENSES/<id>.txt': exists() follows symbolic
        # links, so a dangling link at the destination is an existing entry that exists() does not see - and open('w')
        # would create the link's target, somewhere else
        if (v("present") if uses_lexists else (v("exists") or v("is_link"))):
            return ("refuse",)
        if v("lref"):
            if v("source"):
                v("source_is_dir")
                if not v("source_exists"):
                    return ("raise", "FileNotFoundError", [])
                return ("return", "None", [("effect", "copyfile", "Path(destination)")])
            return ("return", "None", [("effect", "touch", "Path(destination)")])
        if v(DLERR):
            return ("raise", "URLError", [])
        return ("return", "None", [("download", "spdx_identifier"), ("effect", "open-w", "Path(destination)")])

    leaves = tabulate(fn, PutHooks(), ref, params=["spdx_identifier", "destination", "source"])
    r.floor(7, "paths through put_license_in_file", got=len(leaves))
    for d, leaf, exp in leaves:
        ev = [e for e in leaf.events if e[0] in ("effect", "download", "network")]
        name = show_valuation(d)
        r.instance("path:" + name, {"valuation": name, "outcome": leaf.outcome[:2], "effects": [repr(e) for e in ev]})
        # mkdir of the parent directory is the only effect allowed before the refusal
        pre = [e for e in ev if e == ("effect", "mkdir", "Path(destination).parent")]
        rest = [e for e in ev if e not in pre]
        if len(pre) > 1:
            r.violation(q, "repeated mkdir", f"{pre}", repo.loc(fn))
        got = (leaf.outcome[0], leaf.outcome[1], rest)
        if exp == ("refuse",):
            # an existing destination: any handled error, and nothing on the file system is touched
            # (which error is reported first when several apply is not part of the property)
            if leaf.outcome[0] == "raise" and leaf.outcome[1] in HANDLED and not any(e[0] == "effect" for e in rest):
                continue
            exp = ("raise", "FileExistsError (or another handled error)", [])
        if exp[0] == "return" and exp[2] and exp[2][0][0] == "download":
            pass
        else:
            rest_cmp = [e for e in rest if e[0] != "download"]
            got = (leaf.outcome[0], leaf.outcome[1], rest_cmp)
        if got != exp:
            why = ""
            if d.get("exists") and any(e[0] == "effect" for e in rest):
                why = " (an existing destination is written to)"
            if d.get("is_link") and not d.get("exists") and any(e[0] == "effect" for e in rest):
                why = (" (a dangling symbolic link at the destination is written through: `LICENSES/MIT.txt -> ../../outside.txt`,"
                       " `reuse download MIT` exits 0 and creates outside.txt outside LICENSES/)")
            if d.get(DLERR) and any(e[0] == "effect" for e in rest):
                why = " (a failed transfer leaves a file behind)"
            if d.get("lref") and any(e[0] in ("download", "network") for e in ev):
                why = " (a LicenseRef- licence reaches the network)"
            r.violation(q, f"[{name}]", f"outcome/effects {got}; the specification says {exp}{why}",
                        f"{repo.module(DL).rel}:{leaf.trace[-1] if leaf.trace else fn.lineno}", {"valuation": d})
    # download_license is the only function that reaches the network
    net = []
    for fq, f in repo.functions.items():
        for c in find_calls(f, lambda c, n: n.split(".")[-1] in ("urlopen", "urlretrieve") or n.startswith(("requests.", "http.client"))):
            net.append(fq)
    r.instance("network-callers", {"callers": sorted(set(net))})
    if sorted(set(net)) != [f"{DL}.download_license"]:
        r.violation(f"{DL}.download_license", "network access outside download_license", f"{sorted(set(net))}")
    dl = repo.func(f"{DL}.download_license")
    ck.analysed_fn(f"{DL}.download_license")

    class H(Hooks):
        def atom(self, text, node, it):
            if text.endswith(".getcode() == 200"):
                return "ok200"
            return None

    for d, leaf, _ in tabulate(dl, H(), lambda v: v("ok200"), params=["spdx_identifier"]):
        r.instance("download_license:" + show_valuation(d), {"outcome": leaf.outcome[:2]})
        if d.get("ok200") and (leaf.outcome[0] != "return" or ".read().decode('utf-8')" not in leaf.outcome[1]):
            r.violation(f"{DL}.download_license", "status 200", f"{leaf.outcome}", repo.loc(dl))
        if d.get("ok200") is False and leaf.outcome[:2] != ("raise", "URLError"):
            r.violation(f"{DL}.download_license", "non-200 status must raise URLError", f"{leaf.outcome}", repo.loc(dl))
    src = ast.unparse(dl)
    # the file part may be spelled ''.join((id, '.txt')), f'{id}.txt' or id + '.txt' - also through a local
    from ..rules import deep_text as _dt19
    _uj = [c for c in ast.walk(dl) if isinstance(c, ast.Call) and ast.unparse(c.func) == "urljoin" and len(c.args) == 2]
    _url_ok = any(ast.unparse(c.args[0]) == "_SPDX_REPOSITORY_BASE_URL" and _dt19(dl, c.args[1]) in (
        "''.join((spdx_identifier, '.txt'))", "f'{spdx_identifier}.txt'", "spdx_identifier + '.txt'") for c in _uj)
    if not _url_ok:
        r.violation(f"{DL}.download_license", "URL construction", "base URL + <identifier>.txt", repo.loc(dl))


def _acc(rc: str) -> str:
    return rf"(?:{re.escape(rc)}(?:__in_loop)?)"


def _sets_nonzero(value: str, rc: str) -> bool:
    """The new value of the accumulated exit status is certainly non-zero."""
    a = _acc(rc)
    return re.fullmatch(rf"1|True|{a} \| 1|1 \| {a}|max\({a}, 1\)|max\(1, {a}\)|{a} or 1|\({a}\) \| 1", value) is not None


def _keeps_value(value: str, rc: str) -> bool:
    """The new value equals the old one (a success must not reset an earlier failure)."""
    a = _acc(rc)
    return re.fullmatch(rf"{a}|{a} \| 0|0 \| {a}|max\({a}, 0\)|max\(0, {a}\)|{a} or 0|\({a}\) \| 0|{a} \+ 0", value) is not None



def rule_cli(ck: Check, repo: Repo) -> None:
    r = ck.rule("R2", "download command: '+' stripped, --all = missing licences, failures set the exit status and stay in the loop")
    cmds = repo.commands()
    if "download" not in cmds:
        raise AnalysisError("anchor vanished: command download")
    fn = cmds["download"]
    q = repo.qualname_of(fn)
    ck.analysed_fn(q, f"{DL}._path_to_license_file")
    exits = find_calls(fn, lambda c, f: f == "sys.exit")
    rc = ast.unparse(exits[0].args[0]) if len(exits) == 1 and exits[0].args and isinstance(exits[0].args[0], ast.Name) else None
    if rc is None:
        rc = "return_code"  # the comparison below then reports that the exit status is not the accumulated code

    class H(Hooks):
        def atom(self, text, node, it):
            t = text
            if t == "all_":
                return "all"
            if t in ("licenses", "ProjectReport.generate(obj.project, do_checksum=False).missing_licenses.keys()"):
                return "has_licenses"
            if t.startswith("len(") and t.endswith(") > 1"):
                return "several"
            if t == "output":
                return "output"
            if t == "output is None":
                return ("not", "output")
            if t == "output is not None":
                return "output"
            return None

        def raises(self, text, call, it):
            if ast.unparse(call.func) == "put_license_in_file":
                return ["URLError", "FileExistsError", "FileNotFoundError"]
            return []

        def track_assign(self, name):
            return name in (rc, "licenses", "destination")

        def keep_carried(self, name):
            return name == "licenses"

        def event(self, text, call, it):
            f = ast.unparse(call.func)
            if f == "put_license_in_file":
                from ..model import named_args
                return ("put", [it.text(a) for a in call.args], {k: it.text(v) for k, v in named_args(call).items()})
            if f in ("_could_not_download", "_already_exists", "_not_found", "_successfully_downloaded"):
                return ("report", f)
            if f == "ProjectReport.generate":
                return ("generate", text)
            return None

    def ref(v):
        a = v("all")
        if a and v("has_licenses"):
            return "usage"
        if v("several") and v("output"):
            return "usage"
        return "run"

    leaves = tabulate(fn, H(), ref, params=["obj", "licenses", "all_", "output", "source"])
    r.floor(6, "paths through download", got=len(leaves))
    for d, leaf, exp in leaves:
        name = show_valuation({k.split("::")[-1] if "raise[" in k else k: v for k, v in d.items()})
        ev = leaf.events
        flat = []
        for e in ev:
            inloop = False
            while e[0] == "each":
                inloop = True
                e = e[2]
            flat.append((inloop, e))
        r.instance("path:" + name, {"valuation": name, "outcome": leaf.outcome[:2]})
        puts = [e for il, e in flat if e[0] == "put"]
        if exp == "usage":
            if leaf.outcome[:2] != ("raise", "UsageError") or puts:
                r.violation(q, f"usage error expected [{name}]", f"{leaf.outcome[:2]}, puts={len(puts)}", repo.loc(fn))
            continue
        if leaf.outcome[0] != "exit" or leaf.outcome[1] != f"{rc}__after_loop":
            r.violation(q, f"exit status [{name}]", f"{leaf.outcome}: the command must exit with the accumulated return code",
                        repo.loc(fn))
        assigns = [e for il, e in flat if e[0] == "assign"]
        lic_assign = [e for il, e in flat if e[0] == "assign" and e[1] == "licenses" and not il]
        if not lic_assign or not lic_assign[-1][2].startswith("{_strip_plus_from_identifier(lic) for lic in "):
            r.violation(q, "'+' not stripped from every requested identifier", f"{lic_assign[-1:] }", repo.loc(fn))
        if d.get("all"):
            gen = [e for il, e in flat if e[0] == "generate"]
            if not gen or "missing_licenses.keys()" not in (lic_assign[-1][2] if lic_assign else ""):
                r.violation(q, "--all does not take the report's missing licences", f"{lic_assign}", repo.loc(fn))
        rc0 = [e for il, e in flat if e[0] == "assign" and e[1] == rc and not il]
        if [e[2] for e in rc0] != ["0"]:
            r.violation(q, "return code initialisation", f"{rc0}", repo.loc(fn))
        raised = [k for k, v in d.items() if "raise[" in k and v]
        in_rc = [e for il, e in flat if il and e[0] == "assign" and e[1] == rc]
        ends = [e for il, e in flat if il and e[0] == "element-end"]
        reports = [e[1] for il, e in flat if il and e[0] == "report"]
        if len(puts) != 1:
            r.violation(q, "put_license_in_file not called once per licence", f"{puts}", repo.loc(fn))
            continue
        args, kws = puts[0][1], puts[0][2]
        if args[:1] != ["lic"] or "source" not in kws or kws.get("source") != "source":
            r.violation(q, "put_license_in_file operands", f"{args} {kws}", repo.loc(fn))
        dest = kws.get("destination", "")
        want_dest = "output" if d.get("output") else "_path_to_license_file(lic, obj.project)"
        if dest != want_dest:
            r.violation(q, f"destination when output={d.get('output')}", f"{dest}; expected {want_dest}", repo.loc(fn))
        if ends != [("element-end", "next")]:
            r.violation(q, f"loop left early [{name}]", f"{ends}: the remaining licences must still be processed", repo.loc(fn))
        if raised:
            exc = re.search(r"raise\[(\w+)\]", raised[0]).group(1)
            want_report = {"URLError": "_could_not_download", "FileExistsError": "_already_exists",
                           "FileNotFoundError": "_not_found"}[exc]
            if not (len(in_rc) == 1 and _sets_nonzero(in_rc[0][2], rc)):
                r.violation(q, f"failure ({exc}) does not set a non-zero exit status", f"{in_rc}", repo.loc(fn))
            # the property asks for the exit status; the message is checked only against MIS-reporting (a failure announced as success)
            if "_successfully_downloaded" in reports:
                r.violation(q, f"failure ({exc}) reporting", f"{reports}: a failed download is announced as a success", repo.loc(fn))
        else:
            if any(not _keeps_value(e[2], rc) for e in in_rc):
                r.violation(q, "success changes the return code", f"{in_rc}", repo.loc(fn))
            if any(x != "_successfully_downloaded" for x in reports):
                r.violation(q, "success reporting", f"{reports}: a successful download is announced as a failure", repo.loc(fn))


def rule_destination(ck: Check, repo: Repo) -> None:
    r = ck.rule("R3", "default destination: <root>/LICENSES/<id>.txt; the working directory is used only when the root IS a LICENSES/ directory without VCS")
    q = f"{DL}._path_to_license_file"
    pf = repo.func(q)
    ck.analysed_fn(q, "reuse._util.find_licenses_directory")

    class H1(Hooks):
        def atom(self, text, node, it):
            t = text
            if t == "project.root":
                return "root"
            if t in ("project.root.name == 'LICENSES'", "'LICENSES' == project.root.name"):
                return "root_is_licenses_dir"
            if t == "isinstance(project.vcs_strategy, VCSStrategyNone)":
                return "no_vcs"
            return None

    def ref1(v):
        if v("root") and v("root_is_licenses_dir") and v("no_vcs"):
            return "None"
        return "project.root"

    leaves = tabulate(pf, H1(), ref1, params=["spdx_identifier", "project"])
    r.floor(2, "paths through _path_to_license_file", got=len(leaves))
    for d, leaf, exp in leaves:
        name = show_valuation(d)
        out = leaf.outcome[1] if leaf.outcome[0] == "return" else repr(leaf.outcome)
        m = re.fullmatch(r"find_licenses_directory\((?:root=)?(.+)\) / (.+)", out)
        root_arg = m.group(1) if m else None
        file_part = m.group(2) if m else None
        r.instance("_path_to_license_file:" + name, {"valuation": name, "returns": out})
        free = [a for a in d if a.startswith("?")]
        if root_arg != exp:
            r.violation(q, f"[{name}] root handed to find_licenses_directory",
                        f"{root_arg}; the specification says {exp}"
                        + (f" (the choice depends on {free[0][1:]!r}, which is not a property of the project root)" if free else ""),
                        f"{repo.module(DL).rel}:{leaf.trace[-1] if leaf.trace else pf.lineno}", {"valuation": d})
        if file_part not in ("''.join((spdx_identifier, '.txt'))", "f'{spdx_identifier}.txt'", "(spdx_identifier + '.txt')", "spdx_identifier + '.txt'"):
            r.violation(q, f"[{name}] file name", f"{file_part}; expected <identifier>.txt", repo.loc(pf), {"valuation": d})
    fd = repo.func("reuse._util.find_licenses_directory")

    class H2(Hooks):
        def atom(self, text, node, it):
            return {"root": "root", "Path.cwd().name == 'LICENSES'": "in_licenses"}.get(text)

    def ref2(v):
        if v("root"):
            return "Path(root) / 'LICENSES'"
        if v("in_licenses"):
            return "Path.cwd()"
        return "Path.cwd() / 'LICENSES'"

    leaves2 = tabulate(fd, H2(), ref2, params=["root"])
    r.floor(3, "paths through find_licenses_directory", got=len(leaves2))
    for d, leaf, exp in leaves2:
        r.instance("find_licenses_directory:" + show_valuation(d), {"returns": leaf.outcome[1]})
        if leaf.outcome[1] != exp:
            r.violation("reuse._util.find_licenses_directory", f"[{show_valuation(d)}]", f"{leaf.outcome[1]}; expected {exp}", repo.loc(fd),
                        {"valuation": d})


def rule_transfer_failures(ck: Check, repo: Repo, rid: str = "R4") -> None:
    """Every way the transfer can fail must end in one of the handlers of the command's loop (they set the exit status
    and go on with the next licence).  Exception-escape analysis of download_license against the handler set."""
    from ..callgraph import CallGraph, Escape
    from ..typed import TypeFacts
    r = ck.rule(rid, "every failure of a transfer is caught by the per-licence handlers (exit status set, batch continues)")
    cg = CallGraph(repo, TypeFacts(repo))
    esc = Escape(cg)
    q = f"{DL}.download_license"
    cmd = repo.commands()["download"]
    # the per-licence handlers: in the command, or in a helper of the command's module that the confirmed tree does not have
    # (the loop body moved into `_download_one`) and that the command calls
    from ..canon import ref_table as _rt
    _known = set(_rt().get("__functions__", []))
    _cq = repo.qualname_of(cmd)
    _mod = _cq.rsplit(".", 1)[0]
    _called = {c.func.id for c in ast.walk(cmd) if isinstance(c, ast.Call) and isinstance(c.func, ast.Name)}
    _scopes = [cmd] + [f for q_, f in repo.functions.items() if _known and q_ not in _known and q_.rsplit(".", 1)[0] == _mod
                       and q_.rsplit(".", 1)[1] in _called]
    handlers = sorted({ast.unparse(e) for sc in _scopes for n in ast.walk(sc) if isinstance(n, ast.Try) for h in n.handlers if h.type is not None
                       for e in (h.type.elts if isinstance(h.type, ast.Tuple) else [h.type])})
    full = {"URLError": "urllib.error.URLError", "FileExistsError": "builtins.FileExistsError", "FileNotFoundError": "builtins.FileNotFoundError",
            "OSError": "builtins.OSError", "Exception": "builtins.Exception", "HTTPException": "http.client.HTTPException"}
    hs = [full.get(h, h) for h in handlers]
    r.instance("handlers", {"handlers": handlers})
    keys = esc.esc.get(q, {})
    r.floor(1, "exceptions of download_license", got=len(keys))
    for (exc, origin) in sorted(keys):
        caught = any(esc.catches(h, exc) for h in hs)
        r.instance(f"{exc}@{origin[:60]}", {"exception": exc, "origin": origin[:100], "caught_by_the_loop": caught})
        if not caught:
            short = exc.split(".")[-1]
            r.violation(q, f"{short} from the transfer is not handled by the download loop",
                        f"{origin}: `reuse download A B C` ends in a traceback at the first licence whose transfer fails this way -"
                        f" the remaining licences are not downloaded and the failure is not reported per licence (handlers:"
                        f" {handlers})", repo.loc(repo.func(q)))



def run(ck: Check, repo: Repo) -> None:
    ck.explanation = (
        "Decision/effect tables: put_license_in_file (every file-system effect on the destination is dominated by the"
        " exists() refusal; the network fetch completes before the file is opened, so a failed transfer leaves nothing;"
        " the LicenseRef branch reaches no network call; download_license is the only network caller) and the download"
        " command (usage errors, '+' stripping before both uses, --all = report.missing_licenses, every failure handler"
        " sets return_code = 1 and stays in the loop, exit with the accumulated code, default destination). Not decided:"
        " network faults other than the modelled exceptions; that a following lint reports no missing licence (C06)."
    )
    ck.not_decided = ["network faults other than URLError/HTTP status", "the network stub's behaviour"]
    ck.trust("CPython ast", "sa/tab.py", "T1 effect names (Path/shutil mutators)")
    rule_put(ck, repo)
    rule_cli(ck, repo)
    rule_destination(ck, repo)
    rule_transfer_failures(ck, repo)
