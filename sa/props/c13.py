"""C13 - every lint output format and lint-file tell the same story as the exit status."""
from __future__ import annotations

import ast
import re

from ..model import AnalysisError, Repo, parent_of
from ..report import Check
from ..rules import atoms_of, bool_formula, equivalent, find_calls, resolve_local
from ..tab import Hooks, show_valuation, tabulate
from . import c01

LINT = "reuse.lint"
RP = "reuse.report"

FULL = c01.ISSUES
SUBSET = ["missing_licenses", "read_errors", "files_without_licenses", "files_without_copyright"]
JSON_KEYS = {
    "missing_licenses": "missing_licenses",
    "unused_licenses": "unused_licenses",
    "deprecated_licenses": "deprecated_licenses",
    "bad_licenses": "bad_licenses",
    "licenses_without_extension": "licenses_without_extension",
    "missing_copyright_info": "files_without_copyright",
    "missing_licensing_info": "files_without_licenses",
    "read_errors": "read_errors",
}


def _attrs_in(expr: ast.AST, obj: str) -> set[str]:
    return {n.attr for n in ast.walk(expr) if isinstance(n, ast.Attribute) and isinstance(n.value, ast.Name) and n.value.id == obj}


def _local_defs(fn: ast.FunctionDef) -> dict[str, ast.AST]:
    out = {}
    for n in ast.walk(fn):
        if isinstance(n, ast.Assign) and len(n.targets) == 1 and isinstance(n.targets[0], ast.Name):
            out.setdefault(n.targets[0].id, n.value)
    return out


def _expand(expr: ast.AST, defs: dict[str, ast.AST], obj: str, depth: int = 3) -> set[str]:
    """report attributes an expression depends on, following local definitions."""
    attrs = _attrs_in(expr, obj)
    if depth:
        for n in ast.walk(expr):
            if isinstance(n, ast.Name) and n.id in defs and n.id != obj:
                attrs |= _expand(defs[n.id], defs, obj, depth - 1)
    return attrs


def _guards(node: ast.AST, fn: ast.FunctionDef) -> list[tuple[ast.AST, bool]]:
    """Enclosing `if` tests with the branch taken (True = body)."""
    out = []
    cur = node
    par = parent_of(cur)
    while par is not None and par is not fn:
        if isinstance(par, ast.If):
            out.append((par.test, cur in par.body))
        cur = par
        par = parent_of(cur)
    return out


def _writes_loopvar(loop: ast.For) -> bool:
    names = {n.id for n in ast.walk(loop.target) if isinstance(n, ast.Name)}
    for st in ast.walk(loop):  # locals derived from the element inside the loop body
        if isinstance(st, ast.Assign) and len(st.targets) == 1 and isinstance(st.targets[0], ast.Name) and \
                {n.id for n in ast.walk(st.value) if isinstance(n, ast.Name)} & names:
            names = names | {st.targets[0].id}
    inner = {n.id for l in ast.walk(loop) if isinstance(l, ast.For) and l is not loop for n in ast.walk(l.target)
             if isinstance(n, ast.Name)}
    for c in ast.walk(loop):
        if isinstance(c, ast.Call) and ast.unparse(c.func).endswith("output.write"):
            used = {n.id for n in ast.walk(c) if isinstance(n, ast.Name)}
            if used & (names | inner):
                return True
    return False


def _drop_counts(expr: ast.AST) -> ast.AST:
    """*expr* without its `len(...)` / `str(len(...))` sub-expressions: a COUNT of a category renders none of its elements."""
    class T(ast.NodeTransformer):
        def visit_Call(self, n):
            if isinstance(n.func, ast.Name) and n.func.id == "len":
                return ast.Constant(value=0)
            self.generic_visit(n)
            return n
    import copy
    return T().visit(copy.deepcopy(expr))


def sections(repo: Repo, qual: str, obj: str) -> dict[str, list]:
    """category -> list of (loop, guards) that render elements of report.<category>."""
    fn = repo.func(qual)
    defs = {k: _drop_counts(v) for k, v in _local_defs(fn).items()}
    out: dict[str, list] = {}
    for loop in [n for n in ast.walk(fn) if isinstance(n, ast.For)]:
        if isinstance(parent_of(loop), ast.For) and _attrs_in(loop.iter, obj) == set() and \
                not any(isinstance(n, ast.Name) and n.id in defs for n in ast.walk(loop.iter)):
            continue  # inner loop over the outer element (files of a licence)
        if not _writes_loopvar(loop):
            continue
        for attr in _expand(_drop_counts(loop.iter), defs, obj):
            out.setdefault(attr, []).append(loop)
    return out


def check_formatter(r, repo: Repo, qual: str, obj: str, categories: list[str], via_subset: list[str] = ()) -> None:
    fn = repo.func(qual)
    defs = _local_defs(fn)
    secs = sections(repo, qual, obj)
    for cat in categories:
        loops = secs.get(cat, [])
        r.instance(f"{qual}:{cat}", {"formatter": qual.split('.')[-1], "category": cat, "rendering_loops": len(loops)}, qual)
        if not loops:
            if cat in via_subset:
                continue
            r.violation(qual, f"category {cat} is not rendered",
                        f"{qual.split('.')[-1]} has no loop that writes the elements of {obj}.{cat}", repo.loc(fn))
            continue
        for loop in loops:
            # a re-keyed intermediate collection can collapse entries: {path: lic for lic, files in X.items() for path in files}
            # keeps ONE identifier per path - every (identifier, file) pair must reach the output
            for nm in {n.id for n in ast.walk(loop.iter) if isinstance(n, ast.Name) and n.id in defs}:
                dv = defs[nm]
                if isinstance(dv, ast.Call) and ast.unparse(dv.func) in ("dict", "sorted", "list") and dv.args:
                    dv = dv.args[0]
                if isinstance(dv, ast.DictComp) and cat in _expand(dv, defs, obj):
                    all_vars = {n.id for g in dv.generators for n in ast.walk(g.target) if isinstance(n, ast.Name)}
                    key_vars = {n.id for n in ast.walk(dv.key) if isinstance(n, ast.Name)}
                    if not all_vars <= key_vars:
                        r.violation(qual, f"section {cat} is rendered from a re-keyed dictionary ({nm})",
                                    f"`{nm} = {ast.unparse(dv)[:90]}` is keyed by {sorted(key_vars)} only: entries that share the key"
                                    f" collapse, so some (identifier, file) pairs of {obj}.{cat} never reach this format while the"
                                    f" other formats list them", repo.loc(loop))
            for test, in_body in _guards(loop, fn):
                def atom(text, node):
                    m = re.fullmatch(rf"{obj}\.(\w+)", text)
                    if m:
                        return m.group(1)
                    if text in defs:
                        return "local:" + text
                    return None

                f = bool_formula(test, atom)
                if not in_body:
                    f = ("not", f)
                ats = atoms_of(f)
                # allowed: truthiness of the category itself / a local derived from it / not is_compliant
                ok = True
                for a in ats:
                    if a == "is_compliant":
                        ok = ok and equivalent(f, ("not", "is_compliant")) is None
                    elif a == cat:
                        ok = ok and equivalent(f, cat) is None
                    elif a.startswith("local:") and cat in _expand(defs[a[6:]], defs, obj):
                        ok = ok and (equivalent(f, a) is None or all(x.startswith("local:") for x in ats) and
                                     not _negated_only(f))
                    else:
                        ok = False
                if not ok:
                    r.violation(qual, f"section {cat} is guarded by `{ast.unparse(test)}`",
                                f"a non-empty {cat} may stay unreported: guard `{'' if in_body else 'not '}{ast.unparse(test)}`"
                                f" is neither the category's own truthiness nor `not {obj}.is_compliant`", repo.loc(loop))


def _negated_only(f) -> bool:
    """True if the formula is false whenever all its atoms are true (i.e. an inverted guard)."""
    from ..tab import Valuation, evalf
    return not evalf(f, Valuation({a: True for a in atoms_of(f)}))


def rule_coverage(ck: Check, repo: Repo) -> None:
    r = ck.rule("R1", "every category consulted by the verdict is rendered by every format under a positive guard")
    ck.analysed_fn(f"{LINT}.format_plain", f"{LINT}.format_lines", f"{LINT}.format_lines_subset", f"{RP}.ProjectReport.to_dict_lint")
    check_formatter(r, repo, f"{LINT}.format_plain", "report", FULL)
    check_formatter(r, repo, f"{LINT}.format_lines_subset", "report", SUBSET)
    check_formatter(r, repo, f"{LINT}.format_lines", "report", FULL, via_subset=SUBSET)
    # format_lines delegates the four per-file categories to format_lines_subset(report) under `not is_compliant`
    fl = repo.func(f"{LINT}.format_lines")
    calls = find_calls(fl, lambda c, f: f == "format_lines_subset")
    ok = len(calls) == 1 and ast.unparse(calls[0].args[0]) == "report"
    guards = _guards(calls[0], fl) if calls else []
    gtxt = [("" if b else "not ") + ast.unparse(t) for t, b in guards]
    from ..model import walk_no_nested
    ret = [n for n in walk_no_nested(fl) if isinstance(n, ast.Return)]
    from ..rules import deep_text as _dt13
    _rv = _dt13(fl, ret[-1].value) if ret and ret[-1].value is not None else ""
    # the subset's lines are appended to the project-wide ones: through a local or as the call itself
    concat = bool(ret) and "output.getvalue()" in ast.unparse(ret[-1].value) and (
        "subset_output" in ast.unparse(ret[-1].value) or "format_lines_subset(report)" in _rv)
    r.instance("format_lines->subset", {"delegates": ok, "guards": gtxt, "concatenated": concat})
    if not ok or gtxt not in ([], ["not report.is_compliant"]) or not concat:
        r.violation(f"{LINT}.format_lines", "per-file categories not delegated to format_lines_subset(report)",
                    f"calls={len(calls)} guards={gtxt} concatenated={concat}", repo.loc(fl))
    # plain: the per-file partition covers both categories
    fp = repo.func(f"{LINT}.format_plain")
    defs = {k: ast.unparse(v) for k, v in _local_defs(fp).items()}
    want = {
        "files_without_both": "report.files_without_copyright.intersection(report.files_without_licenses)",
        "files_without_copyright_excl": "report.files_without_copyright - files_without_both",
        "files_without_licenses_excl": "report.files_without_licenses - files_without_both",
    }
    for k, v in want.items():
        # each part of the partition is written out element by element (a part that is only tested, or whose loop writes
        # nothing, leaves its files out of the plain report while --json and --lines name them)
        part_loops = [lp for lp in ast.walk(fp) if isinstance(lp, ast.For) and any(isinstance(n, ast.Name) and n.id == k for n in ast.walk(lp.iter))
                      and _writes_loopvar(lp)]
        r.instance(f"plain-partition:{k}", {"definition": defs.get(k), "rendering_loops": len(part_loops)})
        if defs.get(k) != v:
            r.violation(f"{LINT}.format_plain", f"partition {k}", f"{k} = {defs.get(k)}; expected {v}", repo.loc(fp))
        elif not part_loops:
            r.violation(f"{LINT}.format_plain", f"the files of {k} are not written",
                        f"no loop over `{k}` writes its element: these files are missing from the plain report, the other formats list them",
                        repo.loc(fp))
    # JSON lists
    td = repo.func(f"{RP}.ProjectReport.to_dict_lint")
    nc = None
    for n in ast.walk(td):
        if isinstance(n, ast.Dict):
            for k, v in zip(n.keys, n.values):
                if isinstance(k, ast.Constant) and k.value == "non_compliant" and isinstance(v, ast.Dict):
                    nc = v
    if nc is None:
        raise AnalysisError("to_dict_lint: non_compliant literal vanished")
    got = {k.value: v for k, v in zip(nc.keys, nc.values) if isinstance(k, ast.Constant)}
    for key, attr in JSON_KEYS.items():
        v = got.get(key)
        attrs = _attrs_in(v, "self") if v is not None else set()
        filt = v is not None and any(isinstance(n, ast.comprehension) and n.ifs for n in ast.walk(v))
        r.instance(f"json:{key}", {"key": key, "value": ast.unparse(v)[:60] if v is not None else None})
        if attrs != {attr} or filt:
            r.violation(f"{RP}.ProjectReport.to_dict_lint", f"JSON list {key}",
                        f"non_compliant[{key!r}] = {ast.unparse(v) if v is not None else None}; expected all of self.{attr}",
                        repo.loc(td))
    extra = set(got) - set(JSON_KEYS)
    if extra:
        r.note(f"additional JSON categories {sorted(extra)}")


def rule_counters(ck: Check, repo: Repo) -> None:
    r = ck.rule("R2", "JSON summary counters derive from the same attributes as the JSON lists")
    td = repo.func(f"{RP}.ProjectReport.to_dict_lint")
    summary = None
    for n in ast.walk(td):
        if isinstance(n, ast.Assign) and ast.unparse(n.targets[0]) == "data['summary']" and isinstance(n.value, ast.Dict):
            summary = n.value
    if summary is None:
        raise AnalysisError("to_dict_lint: summary assignment vanished")
    got = {k.value: ast.unparse(resolve_names(td, v)) for k, v in zip(summary.keys, summary.values) if isinstance(k, ast.Constant)}
    want = {
        "used_licenses": "list(self.used_licenses)",
        "files_total": "len(self.file_reports)",
        "files_with_copyright_info": "len(self.file_reports) - len(self.files_without_copyright)",
        "files_with_licensing_info": "len(self.file_reports) - len(self.files_without_licenses)",
        "compliant": "self.is_compliant",
    }
    for k, v in want.items():
        r.instance(f"summary:{k}", {"key": k, "value": got.get(k)})
        if got.get(k) != v:
            r.violation(f"{RP}.ProjectReport.to_dict_lint", f"summary counter {k}", f"{got.get(k)}; expected {v}", repo.loc(td))
    fp = repo.func(f"{LINT}.format_plain")
    src = re.sub(r"\s+", " ", ast.unparse(fp))
    for frag, what in (("total_files = len(report.file_reports)", "file total"),
                       ("{total_files - len(report.files_without_copyright)}", "copyright counter"),
                       ("{total_files - len(report.files_without_licenses)}", "licence counter"),
                       ("str(len(report.read_errors))", "read-error counter")):
        r.instance(f"plain-summary:{what}", {"present": frag in src})
        if frag not in src:
            r.violation(f"{LINT}.format_plain", f"plain summary {what}", f"expected `{frag}`", repo.loc(fp))
    # verdict sentence follows is_compliant
    class H(Hooks):
        def atom(self, text, node, it):
            m = re.fullmatch(r"report\.(\w+)", text)
            if m:
                return m.group(1)
            if text in ("files_without_either or files_without_both",) or "files_without" in text:
                return "@" + text[:20]
            return None

        def event(self, text, call, it):
            if not ast.unparse(call.func).endswith("output.write"):
                return None
            if "Congratulations" in text:
                return ("verdict", "compliant")
            if "Unfortunately" in text:
                return ("verdict", "non-compliant")
            return None

        def loop_policy(self, node, it):
            return "skip"

    seen = set()
    for d, leaf, _ in tabulate(fp, H(), feasible=lambda v: not (v.get("is_compliant") and any(v.get(c) for c in FULL))):
        ver = [e[1] for e in leaf.events if e[0] == "verdict"]
        key = (d.get("is_compliant"), tuple(ver))
        if key in seen:
            continue
        seen.add(key)
        r.instance(f"plain-verdict:{key}", {"is_compliant": d.get("is_compliant"), "sentence": ver})
        exp = ["compliant"] if d.get("is_compliant") else ["non-compliant"]
        if ver != exp:
            r.violation(f"{LINT}.format_plain", f"verdict sentence when is_compliant={d.get('is_compliant')}", f"{ver}", repo.loc(fp))


def resolve_names(fn: ast.FunctionDef, expr: ast.AST) -> ast.AST:
    """Substitute single-assignment locals inside an expression (one level)."""
    import copy
    from ..rules import single_assign_value

    class T(ast.NodeTransformer):
        def visit_Name(self, node):
            if isinstance(node.ctx, ast.Load):
                v = single_assign_value(fn, node.id)
                if v is not None and not isinstance(v, ast.Dict):
                    return copy.deepcopy(v)
            return node

    return T().visit(copy.deepcopy(expr))


def rule_subset(ck: Check, repo: Repo) -> None:
    r0 = ck.rule("R3", "ProjectSubsetReport agrees with ProjectReport on the four shared categories")
    f, fn = c01.verdict_formula_plain(repo, f"{RP}.ProjectSubsetReport.is_compliant")
    ck.analysed_fn(f"{RP}.ProjectSubsetReport.is_compliant", f"{RP}.ProjectSubsetReport.generate")
    ref = ("not", ("or",) + tuple(SUBSET))
    bad = equivalent(f, ref)
    r0.instance("subset-verdict", {"extracted": repr(f)})
    if bad is not None:
        r0.violation(f"{RP}.ProjectSubsetReport.is_compliant", "subset verdict differs from NOR(4 categories)",
                     f"at {bad}", repo.loc(fn))
    printed = set(sections(repo, f"{LINT}.format_lines_subset", "report"))
    r0.instance("subset-printed", {"printed": sorted(printed)})
    if printed != set(SUBSET):
        r0.violation(f"{LINT}.format_lines_subset", "printed categories differ from the verdict's categories",
                     f"printed {sorted(printed)}, verdict consults {SUBSET}", repo.loc(repo.func(f"{LINT}.format_lines_subset")))
    c01.rule_file_sets(ck, repo, "ProjectSubsetReport", "R3b")
    c01.rule_propagation(ck, repo, f"{RP}.ProjectSubsetReport.generate", "R3c", False)
    # ... and the sibling it must agree with is held to the same table (shared with C01-R3): a key or category recorded
    # differently by ONE of the two generate() functions is a disagreement between lint and lint-file
    c01.rule_propagation(ck, repo, f"{RP}.ProjectReport.generate", "R3d", True)


def rule_exit(ck: Check, repo: Repo) -> None:
    r = ck.rule("R4", "lint-file: exit 0 iff compliant on all paths; files outside the root are a usage error first")
    cmds = repo.commands()
    if "lint-file" not in cmds:
        raise AnalysisError("anchor vanished: command lint-file")
    fn = cmds["lint-file"]
    q = repo.qualname_of(fn)
    ck.analysed_fn(q)

    class H(Hooks):
        def atom(self, text, node, it):
            if re.fullmatch(r"ProjectSubsetReport\.generate\(.*\)\.is_compliant", text, re.S):
                return "compliant"
            if text in ("quiet", "lines"):
                return text
            if text.startswith("any(not file_.resolve().is_relative_to(obj.project.root.resolve()) for file_ in "):
                return "outside"
            return None

        def event(self, text, call, it):
            f = ast.unparse(call.func)
            if f == "ProjectSubsetReport.generate":
                return ("generate", [it.text(a) for a in call.args])
            if f.startswith("format_"):
                return ("format", f, it.text(call.args[0]))
            return None

    def ref(v):
        if v("outside"):
            return ("raise", "UsageError")
        return ("exit", "0" if v("compliant") else "1")

    leaves = tabulate(fn, H(), ref)
    r.floor(4, "paths through lint-file", got=len(leaves))
    for d, leaf, exp in leaves:
        r.instance("path:" + show_valuation(d), {"valuation": show_valuation(d), "outcome": leaf.outcome[:2]})
        if leaf.outcome[:2] != exp:
            r.violation(q, f"[{show_valuation(d)}]", f"outcome {leaf.outcome[:2]}, expected {exp}", repo.loc(fn))
        gen = [e for e in leaf.events if e[0] == "generate"]
        if exp[0] == "raise" and gen:
            r.violation(q, "report generated before the usage error", "", repo.loc(fn))
        if exp[0] == "exit":
            if len(gen) != 1 or gen[0][1][:2] != ["obj.project", "{Path(file_) for file_ in files}"]:
                r.violation(q, "report source", f"{gen}", repo.loc(fn))
            for e in leaf.events:
                if e[0] == "format" and (e[1] != "format_lines_subset" or not e[2].startswith("ProjectSubsetReport.generate(")):
                    r.violation(q, "formatter", f"{e}", repo.loc(fn))


def rule_dispatch(ck: Check, repo: Repo, rid: str = "R9") -> None:
    """Which formatter's text reaches standard output for which option: --quiet nothing, --json format_json, --lines
    format_lines, otherwise format_plain; lint-file: --quiet nothing, otherwise format_lines_subset.  The text must be ECHOED
    (a formatter that is called and whose result is dropped prints nothing)."""
    r = ck.rule(rid, "each output option echoes the text of its own formatter, applied to the generated report")
    cmds = repo.commands()

    class H(Hooks):
        def atom(self, text, node, it):
            return text if text in ("quiet", "json", "plain", "lines") else None

        def event(self, text, call, it):
            f = ast.unparse(call.func)
            if f in ("click.echo", "print", "sys.stdout.write", "click.secho"):
                inner = call.args[0] if call.args else None
                if isinstance(inner, ast.Call) and ast.unparse(inner.func).startswith("format_"):
                    return ("echo", ast.unparse(inner.func), it.text(inner.args[0]) if inner.args else "")
                return ("echo", it.text(inner) if inner is not None else "", "")
            return None

    specs = {"lint": lambda v: [] if v("quiet") else ["format_json"] if v("json") else ["format_lines"] if v("lines") else ["format_plain"],
             "lint-file": lambda v: [] if v("quiet") else ["format_lines_subset"]}
    for name, spec in specs.items():
        if name not in cmds:
            raise AnalysisError(f"anchor vanished: command {name}")
        fn = cmds[name]
        q = repo.qualname_of(fn)
        ck.analysed_fn(q)
        leaves = tabulate(fn, H(), spec)
        seen = set()
        for d, leaf, exp in leaves:
            short = {k: v for k, v in d.items() if k in ("quiet", "json", "plain", "lines")}
            got = [e[1] for e in leaf.events if e[0] == "echo"]
            key = (show_valuation(short), tuple(got))
            if key in seen:
                continue
            seen.add(key)
            r.instance(f"{name}:{show_valuation(short)}", {"command": name, "options": show_valuation(short), "echoed": got}, q)
            if leaf.outcome and leaf.outcome[0] == "raise":
                continue
            if got != exp:
                r.violation(q, f"output when [{show_valuation(short)}]",
                            f"`reuse {name}` echoes {got or 'nothing'}; expected {exp or 'nothing'} - the formats no longer agree on what is"
                            " reported (one of them prints another format, or nothing at all)", repo.loc(fn))
            for e in leaf.events:
                if e[0] == "echo" and e[1].startswith("format_") and not re.search(r"Report\.generate\(|^report$", e[2]):
                    r.violation(q, "a formatter is applied to something other than the generated report", f"{e[1]}({e[2]})", repo.loc(fn))
        r.floor(2, f"output paths of {name}", got=len(seen))


def rule_json_serializer(ck: Check, repo: Repo, rid: str = "R10") -> None:
    """to_dict_lint holds sets and Paths; json.dumps knows neither.  format_json hands json.dumps a `default` function that
    turns a set into a list and a Path into its string - without it (or with its tests inverted) `lint --json` ends in a
    TypeError while the other formats print the report."""
    r = ck.rule(rid, "format_json serialises the sets and paths of the report (default= handler: set -> list, Path -> str)")
    q = f"{LINT}.format_json"
    fn = repo.func(q)
    ck.analysed_fn(q)
    dumps = [c for c in ast.walk(fn) if isinstance(c, ast.Call) and ast.unparse(c.func) == "json.dumps"]
    if len(dumps) != 1:
        raise AnalysisError("format_json: json.dumps call not found")
    d = next((k.value for k in dumps[0].keywords if k.arg == "default"), None)
    r.instance("default-handler", {"default": ast.unparse(d) if d is not None else None}, q)
    if d is None:
        r.violation(q, "json.dumps is called without a default= handler",
                    "the report dictionary contains sets and Path objects: `reuse lint --json` raises TypeError", repo.loc(dumps[0]))
        return
    if not isinstance(d, ast.Name):
        raise AnalysisError("format_json: default= is not a local function")
    h = next((n for n in ast.walk(fn) if isinstance(n, ast.FunctionDef) and n.name == d.id), None)
    if h is None:
        raise AnalysisError(f"format_json: handler {d.id} not found")
    param = h.args.args[0].arg

    class H(Hooks):
        def atom(self, text, node, it):
            m = re.fullmatch(rf"isinstance\({param}, (\w+)\)", text)
            return f"is_{m.group(1)}" if m else None

    def spec(v):
        if v("is_Path"):
            return ("return", [f"str({param})", f"{param}.as_posix()", f"os.fspath({param})"])
        if v("is_set"):
            return ("return", [f"list({param})", f"sorted({param})"])
        return ("any", [])   # what happens to other objects is not this property's business

    n = 0
    for dv, leaf, exp in tabulate(h, H(), spec):
        n += 1
        short = {k: v for k, v in dv.items() if k.startswith("is_")}
        r.instance(f"serializer:{show_valuation(short)}", {"valuation": show_valuation(short), "outcome": leaf.outcome[:2]}, q)
        if exp[0] != "any" and (leaf.outcome[0] != exp[0] or leaf.outcome[1] not in exp[1]):
            r.violation(q, f"serializer cell [{show_valuation(short)}]",
                        f"{leaf.outcome[:2]}; expected {exp[0]} {exp[1][0]}: a set (every list of the JSON report) or a path is not converted -"
                        " `reuse lint --json` raises TypeError or prints a Python repr instead of a JSON list", repo.loc(h))
    r.floor(3, "cells of the serializer", got=n)


PLAIN_SUMMARY = {
    "Bad licenses:": "bad_licenses", "Deprecated licenses:": "deprecated_licenses",
    "Licenses without file extension:": "licenses_without_extension", "Missing licenses:": "missing_licenses",
    "Unused licenses:": "unused_licenses", "Used licenses:": "used_licenses", "Read errors:": "read_errors",
    "Files with copyright information:": "files_without_copyright", "Files with license information:": "files_without_licenses",
}


def rule_plain_labels(ck: Check, repo: Repo, rid: str = "R11") -> None:
    """The plain rendering says under each heading what that heading names: a section guarded by `if report.X:` lists X, and a
    summary line labelled 'X:' is computed from X (second mutant sweep: attribute swaps in format_plain survived the suite and
    the coverage rule, which only asks that every category is rendered SOMEWHERE)."""
    r = ck.rule(rid, "format_plain: every section lists the category of its guard, every summary label shows its own category")
    q = "reuse.lint.format_plain"
    fn = repo.func(q)
    ck.analysed_fn(q)
    n = 0
    for node in ast.walk(fn):
        if isinstance(node, ast.If) and isinstance(node.test, ast.Attribute) and ast.unparse(node.test.value) == "report":
            cat = node.test.attr
            loops = [st for st in node.body if isinstance(st, ast.For)]
            for lp in loops:
                attrs = sorted(_attrs_in(lp.iter, "report"))
                n += 1
                r.instance(f"section:{cat}", {"guard": cat, "lists": attrs}, q)
                if attrs and cat not in attrs:
                    r.violation(q, f"the section shown when report.{cat} is non-empty lists report.{attrs[0]}",
                                f"`for {ast.unparse(lp.target)} in {ast.unparse(lp.iter)[:60]}` under `if report.{cat}:` - the heading of"
                                f" category {cat} is followed by the entries of another category", repo.loc(lp))
    dicts = [d for d in ast.walk(fn) if isinstance(d, ast.Dict) and d.keys and all(
        k is not None and isinstance(k, ast.Call) and ast.unparse(k.func) == "_" and k.args and isinstance(k.args[0], ast.Constant) for k in d.keys)]
    seen = 0
    for d in dicts:
        for k, v in zip(d.keys, d.values):
            label = k.args[0].value
            want = PLAIN_SUMMARY.get(label)
            if want is None:
                continue
            attrs = sorted(_attrs_in(v, "report"))
            seen += 1
            r.instance(f"summary:{label}", {"label": label, "computed_from": attrs}, q)
            if attrs != [want]:
                r.violation(q, f"summary line '{label}' is computed from report.{', report.'.join(attrs) or '<nothing>'}",
                            f"the line labelled '{label}' must show report.{want}: the plain summary then names one category and shows"
                            " another, while the JSON summary and the verdict use the right one", repo.loc(v))
    if seen < 6:
        ck.defer(AnalysisError(f"{rid}: the summary table of format_plain (a dict of translated labels) was not found in the shape this rule"
                               f" reads ({seen} labelled entries): label/category agreement of the plain summary is not decided"))
    r.floor(4, "guarded sections of format_plain", got=n)


def run(ck: Check, repo: Repo) -> None:
    ck.explanation = (
        "Sibling agreement between the four renderings of one report: for format_plain, format_lines"
        " (+format_lines_subset) and the JSON dictionary, every category consulted by the verdict is rendered by a"
        " loop over that attribute whose enclosing guards are only the category's own truthiness or `not"
        " is_compliant` (guards compared as boolean formulas); JSON counters derive from the same attributes as the"
        " lists; ProjectSubsetReport's verdict, filters and propagation agree with ProjectReport on the four shared"
        " categories; lint-file's exit table. Textual equality of rendered paths is not decided."
    )
    ck.not_decided = ["textual equality of rendered file names across formats (string formatting at run time)"]
    ck.trust("CPython ast", "sa/tab.py")
    rule_coverage(ck, repo)
    rule_counters(ck, repo)
    rule_subset(ck, repo)
    rule_exit(ck, repo)
    rule_dispatch(ck, repo)
    rule_json_serializer(ck, repo)
    rule_plain_labels(ck, repo)
    r5 = ck.rule("R5", "lint-file's subset is compared like with like (resolved requested paths vs resolved candidates)")
    from . import c03
    c03.subset_normalisation(r5, repo)
    ck.analysed_fn("reuse.covered_files.iter_files", "reuse.covered_files.is_path_ignored")
    # which of the requested files lint-file examines is decided by the same table as for lint (subset cells included)
    from ..fold import Folder
    folder = Folder(repo)
    rl = ck.rule("R6a", "name languages for the decision table (shared with C03-R1; findings are reported under C03)")
    impl = c03._regex_list(folder, "_IGNORE_MESON_PARENT_DIR_PATTERNS")
    from ..relang import Alphabet, Lang, union
    alpha = Alphabet([(x.pattern, x.flags) for x in impl], exclude=c03.EXCLUDE)
    langs = {"_IGNORE_MESON_PARENT_DIR_PATTERNS": (alpha, union(alpha, [Lang.from_regex(x.pattern, x.flags, alpha, "match") for x in impl]))}
    rl.instance("meson-parent-language", {"patterns": [x.pattern for x in impl]})
    c03.rule_decision(ck, repo, langs, "R6")
    r7 = ck.rule("R7", "the subset report examines subset_files(F) whenever F was given, even when F is empty (shared with C03-R4)")
    c03.file_list_source(r7, repo)
    # lint and lint-file must see a file in the same state: nothing is carried from one examined file to the next (shared with C14-R6)
    from . import c14
    from ..typed import TypeFacts
    from ..callgraph import CallGraph
    c14.rule_task_purity(ck, repo, CallGraph(repo, TypeFacts(repo)), "R8")
