"""E9 - freshness / shared-state mutation analysis.

Question decided: inside a set of functions (the per-file task of lint / spdx), is every IN-PLACE mutation applied to
an object that the same task created?  A mutation of anything else (a parameter, `self`, an element of a collection
handed in, an attribute of an object that was not constructed here) changes state that outlives the task: the result
for the NEXT file then depends on which files the same process handled before - on the order of files and on how the
pool split the list - which is exactly what C14 forbids, and what makes a request object unsafe to share (C09).

Freshness (may-analysis, conservative towards "not fresh"):
  literal containers, comprehensions, constructor calls, builder builtins (set/list/dict/sorted/...), copying
  methods (.copy/.union/...), calls of repository functions all of whose returns are fresh (fixpoint), and locals all of
  whose assignments are fresh.  An attribute chain `x.a.b` is fresh only when `x` was constructed by a class call in
  this very function (its attributes were created by that constructor).  `x[k]`, `x.get(k)`, `x.setdefault(k, v)` are
  as fresh as `x`.  Loop variables, parameters, `self`, module globals and anything unknown are not fresh.
"""
from __future__ import annotations

import ast
from typing import Optional

from .model import Repo

MUTATORS = {"add", "update", "discard", "remove", "clear", "pop", "append", "extend", "insert", "sort", "reverse",
            "difference_update", "intersection_update", "symmetric_difference_update", "setdefault", "popitem",
            "appendleft", "extendleft", "__setitem__", "__delitem__"}
BUILDERS = {"set", "list", "dict", "tuple", "frozenset", "sorted", "defaultdict", "Counter", "OrderedDict", "deque",
            "bytearray", "StringIO", "BytesIO", "sha1", "md5", "sha256", "new", "deepcopy", "copy", "filter", "map", "zip",
            "enumerate", "str", "bytes", "int", "bool", "float", "Path", "PurePath", "compile", "groupby", "chain", "len",
            "repr", "open", "TextIOWrapper"}
COPY_METHODS = {"copy", "union", "intersection", "difference", "symmetric_difference", "split", "rsplit", "splitlines",
                "strip", "lstrip", "rstrip", "format", "join", "encode", "decode", "hexdigest", "digest", "as_posix",
                "resolve", "relative_to", "keys", "values", "items", "replace", "lower", "upper", "read", "readlines",
                "most_common", "groupdict", "groups", "findall", "with_name", "with_suffix", "simplify", "render", "to_dict",
                "to_dict_lint", "elements", "partition", "rpartition", "expandtabs", "title", "casefold", "translate"}
DEREF_METHODS = {"get", "setdefault", "__getitem__"}


class Fresh:
    def __init__(self, repo: Repo, callees=None):
        self.repo = repo
        self.callees = callees  # (function qualname, call node) -> list of repo qualnames (call graph), optional
        self.returns_fresh: dict[str, bool] = {}
        self.class_names = {c.split('.')[-1] for c in repo.classes}
        self._fix()

    # ------------------------------------------------------------------ function summaries
    def _fix(self) -> None:
        fns = self.repo.functions
        cur = {q: True for q in fns}  # optimistic start, shrink to the greatest fixpoint
        for _ in range(12):
            self.returns_fresh = cur
            nxt = {}
            for q, fn in fns.items():
                rets = [n for n in self._walk(fn) if isinstance(n, ast.Return)]
                ok = True
                for rt in rets:
                    if rt.value is None or isinstance(rt.value, ast.Constant):
                        continue
                    if not self.fresh(rt.value, fn, q):
                        ok = False
                        break
                if any(isinstance(n, (ast.Yield, ast.YieldFrom)) for n in self._walk(fn)):
                    ok = all(n.value is None or self.fresh(n.value, fn, q) for n in self._walk(fn) if isinstance(n, ast.Yield)) \
                        and not any(isinstance(n, ast.YieldFrom) for n in self._walk(fn))
                nxt[q] = ok
            if nxt == cur:
                break
            cur = nxt
        self.returns_fresh = cur

    @staticmethod
    def _walk(fn):
        from .model import walk_no_nested
        return list(walk_no_nested(fn))

    # ------------------------------------------------------------------ expression freshness
    def _assignments(self, fn: ast.AST, name: str) -> Optional[list[ast.AST]]:
        """Values assigned to local `name` in fn; None if `name` is a parameter / loop variable / with-target / global."""
        args = fn.args
        params = {a.arg for a in args.posonlyargs + args.args + args.kwonlyargs}
        if args.vararg:
            params.add(args.vararg.arg)
        if args.kwarg:
            params.add(args.kwarg.arg)
        if name in params:
            return None
        vals: list[ast.AST] = []
        for n in self._walk(fn):
            if isinstance(n, ast.Assign):
                for t in n.targets:
                    if isinstance(t, ast.Name) and t.id == name:
                        vals.append(n.value)
                    elif isinstance(t, (ast.Tuple, ast.List)) and any(isinstance(e, ast.Name) and e.id == name for e in ast.walk(t)):
                        return None
            elif isinstance(n, ast.AnnAssign) and isinstance(n.target, ast.Name) and n.target.id == name:
                if n.value is not None:
                    vals.append(n.value)
            elif isinstance(n, ast.AugAssign) and isinstance(n.target, ast.Name) and n.target.id == name:
                pass  # in-place on the same object: freshness is that of the other assignments
            elif isinstance(n, ast.NamedExpr) and n.target.id == name:
                vals.append(n.value)
            elif isinstance(n, (ast.For, ast.AsyncFor)) and any(isinstance(e, ast.Name) and e.id == name for e in ast.walk(n.target)):
                return None
            elif isinstance(n, ast.comprehension) and any(isinstance(e, ast.Name) and e.id == name for e in ast.walk(n.target)):
                return None
            elif isinstance(n, (ast.With, ast.AsyncWith)):
                for item in n.items:
                    if item.optional_vars is not None and any(isinstance(e, ast.Name) and e.id == name for e in ast.walk(item.optional_vars)):
                        vals.append(item.context_expr)
            elif isinstance(n, ast.ExceptHandler) and n.name == name:
                return None
        return vals or None

    def constructed_here(self, expr: ast.AST, fn: ast.AST, q: str) -> bool:
        """`expr` is a local whose every assignment is a class-constructor call made in this function."""
        if not isinstance(expr, ast.Name):
            return False
        vals = self._assignments(fn, expr.id)
        if not vals:
            return False
        return all(self._is_ctor_call(v, fn, q) for v in vals)

    def _is_ctor_call(self, v: ast.AST, fn, q: str) -> bool:
        if not isinstance(v, ast.Call):
            return False
        f = v.func
        if isinstance(f, ast.Name):
            if f.id == "cls":
                return True
            return f.id in self.class_names or f.id[:1].isupper()
        if isinstance(f, ast.Attribute):
            # Class.from_x(...) / module.Class(...)
            if f.attr[:1].isupper():
                return True
            tgt = self._resolve(q, v)
            return bool(tgt) and all(self.returns_fresh.get(t, False) for t in tgt) and isinstance(f.value, ast.Name) \
                and (f.value.id[:1].isupper() or f.value.id == "cls")
        return False

    def _resolve(self, q: str, call: ast.Call) -> list[str]:
        if self.callees is None:
            return []
        return self.callees(q, call)

    def fresh(self, e: ast.AST, fn: ast.AST, q: str, depth: int = 0) -> bool:
        if depth > 8:
            return False
        if isinstance(e, (ast.List, ast.Dict, ast.Set, ast.Tuple, ast.ListComp, ast.SetComp, ast.DictComp, ast.GeneratorExp,
                          ast.Constant, ast.JoinedStr, ast.Compare, ast.BinOp, ast.UnaryOp, ast.Lambda)):
            if isinstance(e, ast.BoolOp):
                return all(self.fresh(v, fn, q, depth + 1) for v in e.values)
            return True
        if isinstance(e, ast.BoolOp):
            return all(self.fresh(v, fn, q, depth + 1) for v in e.values)
        if isinstance(e, ast.IfExp):
            return self.fresh(e.body, fn, q, depth + 1) and self.fresh(e.orelse, fn, q, depth + 1)
        if isinstance(e, ast.NamedExpr):
            return self.fresh(e.value, fn, q, depth + 1)
        if isinstance(e, ast.Name):
            vals = self._assignments(fn, e.id)
            if not vals:
                return False
            return all(self.fresh(v, fn, q, depth + 1) for v in vals)
        if isinstance(e, ast.Subscript):
            return self.fresh(e.value, fn, q, depth + 1) and not isinstance(e.value, ast.Attribute)
        if isinstance(e, ast.Attribute):
            return self.constructed_here(e.value, fn, q)
        if isinstance(e, ast.Call):
            f = e.func
            if isinstance(f, ast.Name):
                if f.id in BUILDERS or f.id == "cls" or f.id in self.class_names or f.id[:1].isupper():
                    return True
                tg = self._resolve(q, e)
                if tg:
                    return all(self.returns_fresh.get(t, False) for t in tg)
                local = [k for k in self.repo.functions if k.endswith("." + f.id)]
                return bool(local) and all(self.returns_fresh.get(t, False) for t in local)
            if isinstance(f, ast.Attribute):
                if f.attr in DEREF_METHODS:
                    return self.fresh(f.value, fn, q, depth + 1) and not isinstance(f.value, ast.Attribute)
                if f.attr in COPY_METHODS or f.attr in BUILDERS or f.attr[:1].isupper():
                    return True
                tg = self._resolve(q, e)
                if tg:
                    return all(self.returns_fresh.get(t, False) for t in tg)
                return False
        return False

    # ------------------------------------------------------------------ mutation sites
    def mutations(self, fn: ast.AST, q: str):
        """Yield (node, receiver expr, what, fresh?) for every in-place mutation in fn (nested defs excluded)."""
        for n in self._walk(fn):
            recv = None
            what = ""
            if isinstance(n, ast.Call) and isinstance(n.func, ast.Attribute) and n.func.attr in MUTATORS:
                recv = n.func.value
                what = f"{ast.unparse(n.func)}(…)"
            elif isinstance(n, ast.AugAssign) and not isinstance(n.target, ast.Name):
                recv = n.target.value if isinstance(n.target, (ast.Attribute, ast.Subscript)) else n.target
                what = f"{ast.unparse(n.target)} {type(n.op).__name__}= …"
            elif isinstance(n, ast.AugAssign) and isinstance(n.target, ast.Name):
                # `x |= y` on a set/list local mutates the object x names
                if isinstance(n.op, (ast.BitOr, ast.BitAnd, ast.Sub, ast.BitXor, ast.Add)):
                    recv = n.target
                    what = f"{n.target.id} {type(n.op).__name__}= …"
                    vals = self._assignments(fn, n.target.id)
                    if vals and all(isinstance(v, ast.Constant) or self._is_immutable_expr(v) for v in vals):
                        continue  # int / str accumulators re-bind, they do not mutate
                    if self._is_number_expr(n.value):
                        continue  # `x += len(...)` / `x += 1`: only a number accepts a number - rebinding, never in-place
            elif isinstance(n, (ast.Assign, ast.AnnAssign)):
                tg = n.targets if isinstance(n, ast.Assign) else [n.target]
                for t in tg:
                    if isinstance(t, (ast.Attribute, ast.Subscript)):
                        yield n, t.value, f"{ast.unparse(t)} = …", self._recv_fresh(t.value, fn, q)
                continue
            elif isinstance(n, ast.Delete):
                for t in n.targets:
                    if isinstance(t, (ast.Attribute, ast.Subscript)):
                        yield n, t.value, f"del {ast.unparse(t)}", self._recv_fresh(t.value, fn, q)
                continue
            if recv is None:
                continue
            yield n, recv, what, self._recv_fresh(recv, fn, q)

    @staticmethod
    def _is_immutable_expr(v: ast.AST) -> bool:
        if isinstance(v, (ast.Constant, ast.JoinedStr, ast.Compare)):
            return True
        if isinstance(v, ast.BinOp):
            return Fresh._is_immutable_expr(v.left) or Fresh._is_immutable_expr(v.right)
        if isinstance(v, ast.Call) and isinstance(v.func, ast.Name) and v.func.id in ("int", "str", "len", "bool", "float", "min", "max", "sum"):
            return True
        if isinstance(v, ast.Call) and isinstance(v.func, ast.Attribute) and v.func.attr in (
                "find", "index", "rfind", "rindex", "count", "start", "end", "strip", "lstrip", "rstrip", "replace", "join", "format", "lower",
                "upper", "removeprefix", "removesuffix", "decode", "as_posix", "hexdigest", "render", "group"):
            return True   # str / int results of str, bytes, re.Match and Path methods
        return False

    @staticmethod
    def _is_number_expr(v: ast.AST) -> bool:
        if isinstance(v, ast.Constant):
            return isinstance(v.value, (int, float)) and not isinstance(v.value, bool)
        if isinstance(v, ast.Call) and isinstance(v.func, ast.Name) and v.func.id in ("len", "int", "float", "abs", "round"):
            return True
        if isinstance(v, ast.BinOp) and isinstance(v.op, (ast.Add, ast.Sub, ast.Mult, ast.FloorDiv, ast.Mod)):
            return Fresh._is_number_expr(v.left) and Fresh._is_number_expr(v.right)
        if isinstance(v, ast.UnaryOp) and isinstance(v.op, (ast.USub, ast.UAdd)):
            return Fresh._is_number_expr(v.operand)
        return False

    def _recv_fresh(self, recv: ast.AST, fn, q: str) -> bool:
        # the receiver itself is the object being changed
        if isinstance(recv, ast.Name):
            if recv.id == "self" and q.rsplit(".", 1)[-1] in ("__init__", "__attrs_post_init__", "__post_init__", "__new__"):
                return True  # an object under construction
            return self.fresh(recv, fn, q)
        if isinstance(recv, ast.Attribute):
            root = recv
            while isinstance(root, (ast.Attribute, ast.Subscript)):
                root = root.value
            if isinstance(root, ast.Name) and root.id == "self" and q.rsplit(".", 1)[-1] in ("__init__", "__attrs_post_init__", "__post_init__"):
                return True
            if isinstance(root, ast.Call):
                return self.fresh(root, fn, q)
            return self.constructed_here(root, fn, q) if isinstance(root, ast.Name) else False
        if isinstance(recv, ast.Subscript):
            return self._recv_fresh(recv.value, fn, q)
        if isinstance(recv, ast.Call) and isinstance(recv.func, ast.Attribute) and recv.func.attr in DEREF_METHODS:
            return self._recv_fresh(recv.func.value, fn, q)
        return self.fresh(recv, fn, q)
