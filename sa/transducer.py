"""E5 - extraction of a finite-state transducer from a character loop.

For a loop `for ch in s:` whose cross-iteration state consists of finitely-valued
locals and an append-only output list, the loop body is evaluated by conditional
constant propagation (the tabulator with constant / 'any other character'
values) once per (state, input class).  The result is an exact sequential
transducer Q x Sigma -> Q x Token*, plus a final-output function.
"""
from __future__ import annotations

import ast
import re
from dataclasses import dataclass
from typing import Any, Optional

from .model import AnalysisError, Repo
from .tab import Const, Distinct, Hooks, Sym, Tup, Valuation, run_block, vtext, NeedAtom

OTHER = Distinct("other")


@dataclass(frozen=True)
class Tok:
    kind: str  # 'raw' (regex text), 'esc' (re.escape of the current char), 'rawchar' (char unescaped)
    text: str = ""


class _TH(Hooks):
    def __init__(self, out_var: str, char_var: str, consts: Optional[dict] = None):
        self.out_var = out_var
        self.char_var = char_var
        self.consts = consts or {}   # module-level string constants the body may emit by name
        self.bad: list[str] = []

    def event(self, text, call, it):
        f = ast.unparse(call.func)
        if f == f"{self.out_var}.append" and len(call.args) == 1:
            arg = call.args[0]
            val = it.ev(arg) if not isinstance(arg, ast.Call) else None
            if isinstance(val, Const) and isinstance(val.v, str):
                return ("tok", Tok("raw", val.v))
            if isinstance(val, Distinct):
                return ("tok", Tok("rawchar"))
            if isinstance(arg, ast.Name) and isinstance(self.consts.get(arg.id), str) and not isinstance(val, (Const, Distinct)):
                return ("tok", Tok("raw", self.consts[arg.id]))
            if isinstance(arg, ast.Call) and ast.unparse(arg.func) == "re.escape" and len(arg.args) == 1:
                inner = it.ev(arg.args[0])
                if isinstance(inner, Const) and isinstance(inner.v, str):
                    return ("tok", Tok("raw", re.escape(inner.v)))
                if isinstance(inner, Distinct):
                    return ("tok", Tok("esc"))
            self.bad.append(text)
            return ("tok", Tok("unknown", text))
        return None


class Transducer:
    def __init__(self, fn: ast.FunctionDef, repo: Optional[Repo] = None, consts: Optional[dict] = None):
        self.fn = fn
        self._consts = consts or {}
        loops = [s for s in fn.body if isinstance(s, ast.For)]
        if len(loops) != 1:
            raise AnalysisError(f"{fn.name}: expected exactly one top-level character loop")
        self.loop = loops[0]
        if not isinstance(self.loop.target, ast.Name) or not isinstance(self.loop.iter, ast.Name):
            raise AnalysisError(f"{fn.name}: character loop must be `for ch in <param>`")
        params = [a.arg for a in fn.args.args]
        if self.loop.iter.id not in params:
            raise AnalysisError(f"{fn.name}: loop does not iterate the parameter")
        self.char_var = self.loop.target.id
        idx = fn.body.index(self.loop)
        self.pre = fn.body[:idx]
        self.post = fn.body[idx + 1:]
        # output list: the local initialised to [] and appended to
        self.out_var = None
        for st in self.pre:
            if isinstance(st, ast.Assign) and isinstance(st.value, ast.List) and not st.value.elts:
                self.out_var = st.targets[0].id  # type: ignore[attr-defined]
        if self.out_var is None:
            raise AnalysisError(f"{fn.name}: no output list")
        # input classes from the character literals the body compares against
        lits = set()
        for n in ast.walk(self.loop):
            if isinstance(n, ast.Compare):
                for c in [n.left] + n.comparators:
                    if isinstance(c, ast.Constant) and isinstance(c.value, str) and len(c.value) == 1:
                        lits.add(c.value)
        self.literals = sorted(lits)
        self.hooks = _TH(self.out_var, self.char_var, self._consts)
        # state variables: locals assigned in the loop body or before it (except the output list)
        env0, ev0, oc0 = run_block(self.pre, {p: Sym(p) for p in params}, self.hooks)
        if ev0 or oc0:
            raise AnalysisError(f"{fn.name}: unexpected effects before the loop")
        self.state_vars = sorted(k for k, v in env0.items() if k not in params and k != self.out_var)
        for k in self.state_vars:
            if not isinstance(env0[k], Const):
                raise AnalysisError(f"{fn.name}: state variable {k} is not initialised to a constant")
        self.init = tuple(env0[k] for k in self.state_vars)
        self.params = params
        self.delta: dict[tuple, tuple] = {}  # (state, cls) -> (state', tokens)
        self.final: dict[tuple, list[Tok]] = {}
        self.wrapper: tuple[str, str] = ("", "")
        self._explore()

    def classes(self) -> list[Any]:
        return [Const(c) for c in self.literals] + [OTHER]

    def _env(self, state: tuple) -> dict[str, Any]:
        env = {p: Sym(p) for p in self.params}
        env[self.out_var] = Sym(self.out_var)
        for k, v in zip(self.state_vars, state):
            env[k] = v
        return env

    def _step(self, state: tuple, cls: Any) -> tuple:
        env = self._env(state)
        env[self.char_var] = cls
        try:
            env2, events, outcome = run_block(self.loop.body, env, self.hooks)
        except NeedAtom as need:
            raise AnalysisError(
                f"{self.fn.name}: loop body branches on a non-finite condition {need.atom!r}"
                f" in state {self.show_state(state)}")
        if outcome not in (None, ("continue",)):
            raise AnalysisError(f"{self.fn.name}: loop body leaves the loop ({outcome})")
        toks = [e[1] for e in events if e[0] == "tok"]
        new = []
        for k in self.state_vars:
            v = env2.get(k)
            if not isinstance(v, (Const, Distinct)):
                raise AnalysisError(f"{self.fn.name}: state variable {k} is not finitely valued ({vtext(v)})")
            new.append(v)
        return tuple(new), toks

    def _explore(self) -> None:
        seen = {self.init}
        todo = [self.init]
        while todo:
            st = todo.pop()
            for cls in self.classes():
                nxt, toks = self._step(st, cls)
                self.delta[(st, cls)] = (nxt, toks)
                if nxt not in seen:
                    seen.add(nxt)
                    todo.append(nxt)
                    if len(seen) > 500:
                        raise AnalysisError("transducer state space too large")
        self.states = seen
        for st in seen:
            env2, events, outcome = run_block(self.post, self._env(st), self.hooks)
            if not outcome or outcome[0] != "return":
                raise AnalysisError(f"{self.fn.name}: does not return after the loop")
            self.final[st] = [e[1] for e in events if e[0] == "tok"]
            ret = outcome[1]
            rtext = vtext(ret)
            node = ast.parse(rtext, mode="eval").body
            joined = f"''.join({self.out_var})"
            if isinstance(node, ast.JoinedStr) and len(node.values) == 3 and \
                    isinstance(node.values[0], ast.Constant) and isinstance(node.values[2], ast.Constant) and \
                    isinstance(node.values[1], ast.FormattedValue) and ast.unparse(node.values[1].value) == joined:
                wrapper = (node.values[0].value, node.values[2].value)
            elif rtext == joined:
                wrapper = ("", "")
            else:
                raise AnalysisError(f"{self.fn.name}: return value {rtext} is not a wrapper around the joined output")
            self.wrapper = wrapper
        if self.hooks.bad:
            raise AnalysisError(f"{self.fn.name}: emission that is neither a constant nor re.escape(char): {self.hooks.bad[:3]}")

    def show_state(self, st: tuple) -> str:
        return ", ".join(f"{k}={vtext(v)}" for k, v in zip(self.state_vars, st))

    def classify(self, ch: str) -> Any:
        return Const(ch) if ch in self.literals else OTHER

    def run(self, s: str) -> tuple[str, list[tuple]]:
        """Regex text produced for input s, plus the transitions taken."""
        st = self.init
        out: list[str] = []
        path = []
        for ch in s:
            cls = self.classify(ch)
            nxt, toks = self.delta[(st, cls)]
            path.append((st, cls, toks))
            for t in toks:
                out.append(self._tok_text(t, ch))
            st = nxt
        for t in self.final[st]:
            out.append(self._tok_text(t, ""))
        return self.wrapper[0] + "".join(out) + self.wrapper[1], path

    @staticmethod
    def _tok_text(t: Tok, ch: str) -> str:
        if t.kind == "raw":
            return t.text
        if t.kind == "esc":
            return re.escape(ch)
        if t.kind == "rawchar":
            return ch
        raise AnalysisError("unknown token")

    def table(self) -> list[dict]:
        rows = []
        for (st, cls), (nxt, toks) in sorted(self.delta.items(), key=lambda kv: (self.show_state(kv[0][0]), vtext(kv[0][1]))):
            rows.append({"state": self.show_state(st), "input": vtext(cls), "next": self.show_state(nxt),
                         "emit": [f"{t.kind}:{t.text}" for t in toks]})
        return rows
