"""Join of mypy's type facts onto the ast model (E0, typed part).

The facts are produced by sa/mypy_dump.py in a subprocess (mypy as a library; nothing of
`reuse` is imported or run) and cached under /verif/.cache keyed by the digest of the sources.
"""
from __future__ import annotations

import ast
import json
import os
import subprocess
import sys
from pathlib import Path
from typing import Optional

from .model import AnalysisError, Repo

HERE = Path(__file__).resolve().parent
CACHE = HERE.parent / ".cache"


class TypeFacts:
    def __init__(self, repo: Repo):
        self.repo = repo
        digest = repo.digest()[:24]
        CACHE.mkdir(exist_ok=True)
        path = CACHE / f"facts-{digest}.json"
        data = None
        if path.exists():
            try:
                data = json.loads(path.read_text())  # another run may prune the file between the test and the read
            except (OSError, ValueError):
                data = None
        if data is None:
            tmp = CACHE / f"facts-{digest}.{os.getpid()}.tmp"
            cp = subprocess.run([sys.executable, str(HERE / "mypy_dump.py"), str(repo.root), str(tmp)],
                                capture_output=True, text=True)
            if cp.returncode != 0 or not tmp.exists():
                raise AnalysisError("mypy fact extraction failed: " + (cp.stderr or cp.stdout)[-400:])
            data = json.loads(tmp.read_text())
            os.replace(tmp, path)
            try:
                olds = sorted((o for o in CACHE.glob("facts-*.json") if o != path), key=lambda o: o.stat().st_mtime, reverse=True)
            except OSError:
                olds = []
            for old in olds[24:]:  # keep recent digests (seed / self-test runs alternate between many trees, in parallel)
                try:
                    old.unlink()
                except OSError:
                    pass
        self.classes: dict[str, list[str]] = data["classes"]
        self.calls: dict[tuple, tuple] = {}
        self.types: dict[tuple, str] = {}
        self.n_calls = 0
        self.n_unresolved = 0
        for mod, facts in data["modules"].items():
            for line, col, el, ec, full, recv, nargs in facts["calls"]:
                self.calls[(mod, line, col, el, ec)] = (full, recv)
                self.n_calls += 1
                if not full:
                    self.n_unresolved += 1
            for line, col, el, ec, kind, t in facts["types"]:
                self.types[(mod, line, col, el, ec)] = t
        # real type errors (not missing stubs) mean the facts may be unreliable
        self.errors = [e for e in data.get("errors", []) if "error:" in e and "import-untyped" not in e and "import-not-found" not in e]

    def _key(self, node: ast.AST) -> tuple:
        mod = self.repo.module_of(node)
        return (mod.name, node.lineno, node.col_offset, node.end_lineno, node.end_col_offset)

    def _lookup(self, table: dict, node: ast.AST):
        key = self._key(node)
        if key in table:
            return table[key]
        # positions of nodes inside f-strings differ by one column between ast and mypy
        mod, line, col, el, ec = key
        want = None
        if isinstance(node, ast.Call):
            want = node.func.attr if isinstance(node.func, ast.Attribute) else getattr(node.func, "id", None)
        cands = []
        for dc in (-1, 1, 0):
            for de in (0, -1, 1):
                k = (mod, line, col + dc, el, (ec or 0) + de)
                if k in table:
                    cands.append(table[k])
        if want is not None:
            for c in cands:
                full = c[0] if isinstance(c, tuple) else None
                if full and full.split("|")[0].split(".")[-1] == want:
                    return c
            return None  # synthetic calls of mypy's f-string desugaring are not a match
        return cands[0] if cands else None

    def callee(self, call: ast.Call) -> Optional[str]:
        """Fully qualified callee (possibly 'A.m|B.m' for unions, 'type:C' for a class held in a variable) or None."""
        f = self._lookup(self.calls, call)
        return f[0] if f else None

    def receiver(self, call: ast.Call) -> Optional[str]:
        f = self._lookup(self.calls, call)
        return f[1] if f else None

    def type_of(self, node: ast.AST) -> Optional[str]:
        return self._lookup(self.types, node)

    def mro(self, cls: str) -> list[str]:
        return self.classes.get(cls, [cls])

    def is_subclass(self, cls: str, base: str) -> bool:
        return base in self.mro(cls)
