"""E7 - whole-program call graph (callees resolved by mypy), file-system effects, exception escape."""
from __future__ import annotations

import ast
import re
from collections import deque
from typing import Any, Iterable, Optional

from .model import AnalysisError, Repo, kwarg, parent_of, walk_no_nested
from .typed import TypeFacts


class CallGraph:
    def __init__(self, repo: Repo, facts: TypeFacts):
        self.repo = repo
        self.facts = facts
        self.edges: dict[str, list[tuple[str, ast.AST]]] = {q: [] for q in repo.functions}
        self.ext: dict[str, list[tuple[str, ast.Call]]] = {q: [] for q in repo.functions}
        self.unresolved: list[tuple[str, str, str]] = []
        self.qual_of: dict[int, str] = {id(f): q for q, f in repo.functions.items()}
        self._class_index()
        self._property_index()
        for q, fn in repo.functions.items():
            self._scan(q, fn)

    # ------------------------------------------------------------------ classes
    def _class_index(self) -> None:
        repo = self.repo
        self.bases: dict[str, list[str]] = {}
        for cq, cls in repo.classes.items():
            mod = repo.module_of(cls)
            bs = []
            for b in cls.bases:
                d = repo.dotted(mod, b)
                if d in repo.classes:
                    bs.append(d)
            self.bases[cq] = bs
        self.subclasses: dict[str, set[str]] = {c: set() for c in repo.classes}
        for c in repo.classes:
            for a in self.ancestors(c):
                self.subclasses[a].add(c)

    def ancestors(self, cls: str) -> list[str]:
        out = []
        todo = list(self.bases.get(cls, []))
        while todo:
            b = todo.pop()
            if b not in out:
                out.append(b)
                todo += self.bases.get(b, [])
        return out

    def methods_named(self, cls: str, name: str, with_overrides: bool = True) -> list[str]:
        """cls.name resolved through the repo MRO, plus overrides in subclasses."""
        out = []
        for c in [cls] + self.ancestors(cls):
            if f"{c}.{name}" in self.repo.functions:
                out.append(f"{c}.{name}")
                break
        if with_overrides:
            for s in self.subclasses.get(cls, ()):
                if f"{s}.{name}" in self.repo.functions:
                    out.append(f"{s}.{name}")
        return out

    def _property_index(self) -> None:
        self.properties: dict[str, list[str]] = {}
        for q, fn in self.repo.functions.items():
            for d in fn.decorator_list:
                if ast.unparse(d) in ("property", "functools.cached_property", "cached_property"):
                    self.properties.setdefault(fn.name, []).append(q)

    # ------------------------------------------------------------------ scanning
    def _enclosing_class(self, fn: ast.AST) -> Optional[str]:
        cur = parent_of(fn)
        while cur is not None:
            if isinstance(cur, ast.ClassDef):
                return self.repo.qualname_of(cur)
            cur = parent_of(cur)
        return None

    def _add(self, q: str, target: str, node: ast.AST) -> bool:
        repo = self.repo
        ok = False
        for t in target.split("|"):
            if t.startswith("type:"):
                base = t[5:]
                if base in repo.classes:
                    for c in [base] + sorted(self.subclasses.get(base, ())):
                        for m in self._ctor_targets(c):
                            self.edges[q].append((m, node))
                    ok = True
                continue
            if t in repo.functions:
                # a method: include overrides of subclasses (dynamic dispatch)
                owner, _, name = t.rpartition(".")
                if owner in repo.classes:
                    for m in self.methods_named(owner, name):
                        self.edges[q].append((m, node))
                else:
                    self.edges[q].append((t, node))
                ok = True
            elif t in repo.classes:
                for m in self._ctor_targets(t):
                    self.edges[q].append((m, node))
                ok = True
        return ok

    def _ctor_targets(self, cls: str) -> list[str]:
        repo = self.repo
        out = []
        for c in [cls] + self.ancestors(cls):
            for name in ("__init__", "__attrs_post_init__", "__post_init__", "__new__"):
                if f"{c}.{name}" in repo.functions:
                    out.append(f"{c}.{name}")
            node = repo.classes[c]
            mod = repo.module_of(node)
            for st in node.body:
                # attrs default/validator methods and converter/validator callables named in field(...)
                if isinstance(st, ast.FunctionDef) and any(
                        isinstance(d, ast.Attribute) and d.attr in ("default", "validator") for d in st.decorator_list):
                    out.append(f"{c}.{st.name}")
                for call in [n for n in ast.walk(st) if isinstance(n, ast.Call)] if isinstance(st, (ast.Assign, ast.AnnAssign)) else []:
                    for kw in call.keywords:
                        if kw.arg in ("converter", "validator", "factory", "default"):
                            for n in ast.walk(kw.value):
                                if isinstance(n, ast.Name):
                                    d = repo.resolve_name(mod, n.id)
                                    if d in repo.functions:
                                        out.append(d)
                                        # validator factories return instances of validator classes
                                    if d in repo.functions:
                                        for r in ast.walk(repo.functions[d]):
                                            if isinstance(r, ast.Return) and isinstance(r.value, ast.Call):
                                                rd = repo.dotted(repo.module_of(repo.functions[d]), r.value.func)
                                                if rd in repo.classes:
                                                    out += self.methods_named(rd, "__call__") + self._ctor_targets_shallow(rd)
        return out

    def _ctor_targets_shallow(self, cls: str) -> list[str]:
        return [f"{cls}.{n}" for n in ("__init__",) if f"{cls}.{n}" in self.repo.functions]

    def _scan(self, q: str, fn: ast.FunctionDef) -> None:
        repo = self.repo
        facts = self.facts
        mod = repo.module_of(fn)
        # nested definitions may be called by the enclosing function
        for st in ast.walk(fn):
            if st is not fn and isinstance(st, (ast.FunctionDef, ast.AsyncFunctionDef)) and repo.enclosing_function(st) is fn:
                nq = self.qual_of.get(id(st))
                if nq:
                    self.edges[q].append((nq, st))
        # decorators: click callbacks (type=callable, cls=OptionClass)
        for dec in fn.decorator_list:
            for n in ast.walk(dec):
                if isinstance(n, ast.keyword) and n.arg in ("type", "cls", "callback"):
                    for m in ast.walk(n.value):
                        if isinstance(m, ast.Name):
                            d = repo.resolve_name(mod, m.id)
                            if d in repo.functions:
                                self.edges[q].append((d, dec))
                            elif d in repo.classes:
                                for name in ("__init__", "handle_parse_result", "convert"):
                                    for t in self.methods_named(d, name):
                                        self.edges[q].append((t, dec))
        for node in walk_no_nested(fn):
            if isinstance(node, ast.Call):
                full = facts.callee(node)
                text = ast.unparse(node.func)
                resolved = False
                if full:
                    resolved = self._add(q, full, node)
                    if not resolved:
                        self.ext[q].append((full, node))
                        resolved = True
                        # callables passed to map / Pool.map: instances with __call__
                        if full.split(".")[-1] in ("map", "imap", "imap_unordered", "starmap", "apply_async", "submit") and node.args:
                            t = facts.type_of(node.args[0])
                            if t and t.startswith("reuse."):
                                for m in self.methods_named(t.split("[")[0], "__call__"):
                                    self.edges[q].append((m, node))
                if not resolved:
                    d = repo.dotted(mod, node.func)
                    if d and (d in repo.functions or d in repo.classes):
                        self._add(q, d, node)
                        resolved = True
                    elif isinstance(node.func, ast.Attribute) and isinstance(node.func.value, ast.Name) and node.func.value.id in ("self", "cls"):
                        ec = self._enclosing_class(fn)
                        if ec:
                            ms = self.methods_named(ec, node.func.attr)
                            for m in ms:
                                self.edges[q].append((m, node))
                            resolved = bool(ms)
                    elif isinstance(node.func, ast.Name) and f"{q}.{node.func.id}" in repo.functions:
                        self.edges[q].append((f"{q}.{node.func.id}", node))
                        resolved = True
                    if not resolved:
                        if d:
                            self.ext[q].append((d, node))
                        else:
                            self.ext[q].append(("?" + text, node))
                            self.unresolved.append((q, text, repo.loc(node)))
            elif isinstance(node, ast.Attribute) and isinstance(node.ctx, ast.Load) and node.attr in self.properties:
                t = facts.type_of(node.value) if hasattr(node.value, "end_col_offset") else None
                for p in self.properties[node.attr]:
                    owner = p.rsplit(".", 1)[0]
                    if t is None or not t.startswith("reuse.") or t.split("[")[0] == owner or owner in self.ancestors(t.split("[")[0]) \
                            or t.split("[")[0] in self.ancestors(owner):
                        self.edges[q].append((p, node))
            elif isinstance(node, ast.BinOp) and isinstance(node.op, ast.BitOr):
                t = facts.type_of(node.left) if isinstance(node.left, (ast.Name, ast.Attribute, ast.Call)) else None
                if t and t.startswith("reuse."):
                    for m in self.methods_named(t.split("[")[0], "__or__"):
                        self.edges[q].append((m, node))

    # ------------------------------------------------------------------ reachability
    def reachable(self, roots: Iterable[str]) -> dict[str, Optional[tuple[str, ast.AST]]]:
        """function -> (caller, call site) of a shortest path from the roots (None for roots)."""
        parent: dict[str, Optional[tuple[str, ast.AST]]] = {}
        dq = deque()
        for r in roots:
            if r not in self.repo.functions:
                raise AnalysisError(f"call-graph root vanished: {r}")
            parent[r] = None
            dq.append(r)
        while dq:
            cur = dq.popleft()
            for tgt, node in self.edges.get(cur, []):
                if tgt not in parent:
                    parent[tgt] = (cur, node)
                    dq.append(tgt)
        return parent

    def chain(self, parent: dict, target: str) -> list[str]:
        out = [target]
        cur = target
        while parent.get(cur) is not None:
            cur = parent[cur][0]
            out.append(cur)
        return list(reversed(out))


# --------------------------------------------------------------------------- T1 effects
PATH_MUTATORS = {"write_text", "write_bytes", "touch", "mkdir", "unlink", "rmdir", "rename", "replace", "chmod", "lchmod",
                 "symlink_to", "hardlink_to", "link_to"}
OS_MUTATORS = {"remove", "unlink", "rename", "renames", "replace", "mkdir", "makedirs", "rmdir", "removedirs", "chmod", "chown",
               "link", "symlink", "truncate", "utime"}
SHUTIL_MUTATORS = {"copy", "copy2", "copyfile", "copytree", "move", "rmtree", "copymode", "copystat", "chown"}
SUBPROCESS = {"run", "Popen", "call", "check_call", "check_output"}


def effect_of(full: str, call: ast.Call) -> Optional[tuple[str, str]]:
    """(kind, target text) if the resolved library call mutates the file system / spawns a process."""
    names = full.split("|")
    for name in names:
        last = name.split(".")[-1]
        if name in ("builtins.open", "io.open", "_io.open") or (name.startswith("pathlib.") and last == "open"):
            is_path = name.startswith("pathlib.")
            mode = None
            args = call.args
            if is_path:
                mode = args[0] if args else kwarg(call, "mode")
                target = ast.unparse(call.func.value) if isinstance(call.func, ast.Attribute) else "?"
            else:
                mode = args[1] if len(args) > 1 else kwarg(call, "mode")
                target = ast.unparse(args[0]) if args else "?"
            if mode is None:
                return None
            if isinstance(mode, ast.Constant) and isinstance(mode.value, str):
                if any(c in mode.value for c in "wax+"):
                    return ("open-w", target)
                return None
            return ("open-?", target)
        if name.startswith("pathlib.") and last in PATH_MUTATORS:
            return (last, ast.unparse(call.func.value) if isinstance(call.func, ast.Attribute) else "?")
        if name.startswith(("os.", "posix.", "nt.")) and last in OS_MUTATORS:
            return ("os." + last, ast.unparse(call.args[0]) if call.args else "?")
        if name.startswith("shutil.") and last in SHUTIL_MUTATORS:
            return ("shutil." + last, ast.unparse(call.args[1]) if len(call.args) > 1 else "?")
        if name.startswith("subprocess.") and last in SUBPROCESS or name == "os.system":
            return ("subprocess", ast.unparse(call.args[0]) if call.args else "?")
        if name.startswith("tempfile."):
            return ("tempfile", ast.unparse(call))
    return None


# --------------------------------------------------------------------------- T2 content-triggered exceptions
def _length_guard_admits_short(sub: ast.Subscript) -> Optional[str]:
    """`X[k]` (k a constant) on a path whose conditions talk about len(X) / the truthiness of X without implying that X is
    long enough: `X if len(X) > 1 else X[0]` also takes the else arm for the EMPTY sequence.  Returns the condition text,
    or None when the path implies enough elements or says nothing about the length (then nothing is claimed)."""
    if not (isinstance(sub.value, ast.Name) and isinstance(sub.slice, ast.Constant) and isinstance(sub.slice.value, int)
            and not isinstance(sub.slice.value, bool) and isinstance(sub.ctx, ast.Load)):
        return None
    x = sub.value.id
    k = sub.slice.value
    need = k + 1 if k >= 0 else -k
    lo, hi = 0, None
    spoke = []

    def constrain(test: ast.AST, truth: bool) -> None:
        nonlocal lo, hi
        if isinstance(test, ast.UnaryOp) and isinstance(test.op, ast.Not):
            constrain(test.operand, not truth)
            return
        if isinstance(test, ast.BoolOp):
            if isinstance(test.op, ast.And) and truth or isinstance(test.op, ast.Or) and not truth:
                for v in test.values:
                    constrain(v, truth)
            return
        if isinstance(test, ast.Name) and test.id == x:
            spoke.append(ast.unparse(test))
            if truth:
                lo = max(lo, 1)
            else:
                hi = 0
            return
        if isinstance(test, ast.Compare) and len(test.ops) == 1 and ast.unparse(test.left) == f"len({x})" \
                and isinstance(test.comparators[0], ast.Constant) and isinstance(test.comparators[0].value, int):
            c = test.comparators[0].value
            op = type(test.ops[0])
            if not truth:
                op = {ast.Gt: ast.LtE, ast.GtE: ast.Lt, ast.Lt: ast.GtE, ast.LtE: ast.Gt, ast.Eq: ast.NotEq, ast.NotEq: ast.Eq}.get(op)
            spoke.append(ast.unparse(test))
            if op is ast.Gt:
                lo = max(lo, c + 1)
            elif op is ast.GtE:
                lo = max(lo, c)
            elif op is ast.Eq:
                lo = max(lo, c)
                hi = c if hi is None else min(hi, c)
            elif op is ast.Lt:
                hi = c - 1 if hi is None else min(hi, c - 1)
            elif op is ast.LtE:
                hi = c if hi is None else min(hi, c)
            elif op is ast.NotEq and c == 0:
                lo = max(lo, 1)

    cur = sub
    par = parent_of(cur)
    while par is not None and not isinstance(par, (ast.FunctionDef, ast.AsyncFunctionDef, ast.Lambda)):
        if isinstance(par, ast.IfExp):
            if cur is par.body:
                constrain(par.test, True)
            elif cur is par.orelse:
                constrain(par.test, False)
        elif isinstance(par, ast.If):
            if any(cur is st for st in par.body):
                constrain(par.test, True)
            elif any(cur is st for st in par.orelse):
                constrain(par.test, False)
        elif isinstance(par, ast.BoolOp) and isinstance(par.op, ast.And):
            for v in par.values:
                if v is cur:
                    break
                constrain(v, True)
        cur = par
        par = parent_of(cur)
    # early exits in front of the statement (`if not X: return ...`)
    if isinstance(par, (ast.FunctionDef, ast.AsyncFunctionDef)):
        for st in par.body:
            if st is cur:
                break
            if isinstance(st, ast.If) and not st.orelse and st.body and isinstance(st.body[-1], (ast.Return, ast.Raise, ast.Continue)):
                constrain(st.test, False)
    if spoke and lo < need:
        return " / ".join(spoke)
    return None


def _split_index_guarded(sub: ast.Subscript) -> bool:
    """`X.split(SEP, k)[1]` under a test `SEP in X` - in an enclosing `if`, or in the `if` of the comprehension that
    contains it - always has a second piece."""
    from .model import parent_of
    call = sub.value
    if call.func.attr not in ("split", "rsplit") or not call.args or sub.slice.value != 1:
        return False
    want = {f"{ast.unparse(call.args[0])} in {ast.unparse(call.func.value)}"}
    cur = sub
    par = parent_of(cur)
    while par is not None:
        if isinstance(par, (ast.ListComp, ast.SetComp, ast.GeneratorExp, ast.DictComp)):
            for g in par.generators:
                if any(ast.unparse(c) in want for c in g.ifs):
                    return True
        if isinstance(par, ast.If) and ast.unparse(par.test) in want and cur in par.body:
            return True
        if isinstance(par, ast.IfExp) and ast.unparse(par.test) in want and cur is par.body:
            return True
        if isinstance(par, (ast.FunctionDef, ast.AsyncFunctionDef)):
            break
        cur = par
        par = parent_of(cur)
    return False


UNDECIDED_ORDERINGS: list[str] = []   # orderings of values of unknown element type outside the raw-value converters


def lib_raises(full: str, call: ast.Call, facts: TypeFacts, raw_param: Optional[set] = None) -> list[str]:
    """Exceptions a library call raises because of input *content* (table T2)."""
    out: list[str] = []
    text = ast.unparse(call.func)
    for name in full.split("|"):
        last = name.split(".")[-1]
        if last == "decode" and (name.startswith("builtins.bytes") or name.startswith("?") or "Any" in (facts.receiver(call) or "Any")):
            if not kwarg(call, "errors") and len(call.args) < 2:
                out.append("builtins.UnicodeDecodeError")
        if name in ("tomlkit.api.loads", "tomlkit.api.parse", "tomlkit.loads", "tomlkit.parse"):
            out.append("tomlkit.exceptions.TOMLKitError")
        if name in ("debian.copyright.Copyright",):
            out += ["debian.copyright.Error", "builtins.ValueError", "builtins.UnicodeDecodeError"]
        if name.endswith("Environment.get_template"):
            out += ["jinja2.exceptions.TemplateNotFound", "jinja2.exceptions.TemplateSyntaxError"]
        if name.endswith("Template.render"):
            out.append("jinja2.exceptions.TemplateError")
        if last == "read" and ("TextIOWrapper" in (facts.receiver(call) or "") or "TextIO" in (facts.receiver(call) or "")):
            out.append("builtins.UnicodeDecodeError")
        if name in ("pathlib.Path.read_text",):
            out.append("builtins.UnicodeDecodeError")
    # ordering values whose element type is not established (raw parsed data: Any) compares arbitrary objects
    if full.split("|")[0] in ("builtins.sorted", "builtins.min", "builtins.max") or (text.endswith(".sort") and "list" in (facts.receiver(call) or "")):
        arg = call.args[0] if call.args else None
        t = (facts.type_of(arg) if arg is not None else facts.receiver(call)) or ""
        mapped_to_str = isinstance(arg, ast.Call) and ast.unparse(arg.func) == "map" and arg.args \
            and ast.unparse(arg.args[0]) in ("str", "repr", "int", "float", "len")
        if not any(k.arg == "key" for k in call.keywords) and re.search(r"\bAny\b", t) and not mapped_to_str:
            # a RAW parsed value (a parameter of an attrs converter) holds whatever the file says: ordering it can raise.  Elsewhere an
            # element type that the type checker could not establish (a local list built from dict values) is unknown, not wrong:
            # that site is an undecided clause, not a violation
            names = {n.id for n in ast.walk(arg) if isinstance(n, ast.Name)} if arg is not None else set()
            if raw_param and names & set(raw_param):
                out.append("builtins.TypeError")
            else:
                UNDECIDED_ORDERINGS.append(f"`{ast.unparse(call)[:60]}` orders values whose element type is not established ({t[:40]})")
    # building a set (or dict keys) from values whose element type is not established hashes arbitrary objects
    # (only where the argument is a RAW parsed value: a parameter of an attrs converter, see Escape.raw_value_params)
    if full.split("|")[0] in ("builtins.set", "builtins.frozenset") and call.args and raw_param \
            and isinstance(call.args[0], ast.Name) and call.args[0].id in raw_param:
        out.append("builtins.TypeError")
    if re.fullmatch(r"_LICENSING\.parse", text):
        # ExpressionError / ParseError are documented; IndexError is what license-expression 30.x raises for "()"
        # (an empty parenthesis pair) - observed by calling the library function directly
        out += ["license_expression.ExpressionError", "boolean.boolean.ParseError", "builtins.IndexError"]
    return sorted(set(out))


LIB_MRO = {
    "tomlkit.exceptions.TOMLKitError": ["tomlkit.exceptions.TOMLKitError", "builtins.Exception", "builtins.BaseException"],
    "debian.copyright.Error": ["debian.copyright.Error", "builtins.Exception", "builtins.BaseException"],
    "jinja2.exceptions.TemplateNotFound": ["jinja2.exceptions.TemplateNotFound", "builtins.OSError", "builtins.LookupError",
                                           "jinja2.exceptions.TemplateError", "builtins.Exception", "builtins.BaseException"],
    "jinja2.exceptions.TemplateSyntaxError": ["jinja2.exceptions.TemplateSyntaxError", "jinja2.exceptions.TemplateError",
                                              "builtins.Exception", "builtins.BaseException"],
    "jinja2.exceptions.TemplateError": ["jinja2.exceptions.TemplateError", "builtins.Exception", "builtins.BaseException"],
    "license_expression.ExpressionError": ["license_expression.ExpressionError", "builtins.Exception", "builtins.BaseException"],
    "boolean.boolean.ParseError": ["boolean.boolean.ParseError", "builtins.Exception", "builtins.BaseException"],
    "urllib.error.URLError": ["urllib.error.URLError", "builtins.OSError", "builtins.Exception", "builtins.BaseException"],
    "http.client.IncompleteRead": ["http.client.IncompleteRead", "http.client.HTTPException", "builtins.Exception", "builtins.BaseException"],
}


class Escape:
    """Exception-escape sets per function, bottom-up over the call graph with try/except filtering."""

    def __init__(self, cg: CallGraph):
        self.cg = cg
        self.repo = cg.repo
        self.facts = cg.facts
        # fn -> (exc, origin) -> witness;  origin = "function | raise/lib | normalised text" (no line numbers)
        self.esc: dict[str, dict[tuple, tuple]] = {q: {} for q in self.repo.functions}
        self._simple: dict[str, list[str]] = {}
        for full in list(self.facts.classes) + list(LIB_MRO):
            self._simple.setdefault(full.split(".")[-1], []).append(full)
        changed = True
        rounds = 0
        while changed:
            changed = False
            rounds += 1
            for q, fn in self.repo.functions.items():
                new = self._function(q, fn)
                if set(new) != set(self.esc[q]):
                    self.esc[q] = new
                    changed = True
            if rounds > 40:
                raise AnalysisError("exception-escape fixpoint did not converge")
        self.rounds = rounds

    # ---- class name resolution
    def exc_class(self, expr: ast.AST, mod) -> str:
        d = self.repo.dotted(mod, expr) or ast.unparse(expr)
        if d in self.repo.classes or d in self.facts.classes or d in LIB_MRO:
            return d
        simple = d.split(".")[-1]
        cands = self._simple.get(simple, [])
        if f"builtins.{simple}" in cands:
            # prefer the import target's top-level package when it names one
            top = d.split(".")[0]
            pk = [c for c in cands if c.split(".")[0] == top]
            return pk[0] if pk and top != simple else f"builtins.{simple}"
        top = d.split(".")[0]
        pk = [c for c in cands if c.split(".")[0] == top]
        if pk:
            return pk[0]
        if cands:
            return cands[0]
        return d

    def mro(self, exc: str) -> list[str]:
        if exc in self.facts.classes:
            return self.facts.classes[exc]
        if exc in LIB_MRO:
            return LIB_MRO[exc]
        if exc in self.repo.classes:
            out = [exc]
            for a in self.cg.ancestors(exc):
                out.append(a)
            return out + ["builtins.Exception", "builtins.BaseException"]
        return [exc, "builtins.Exception", "builtins.BaseException"]

    def catches(self, handler: str, exc: str) -> bool:
        return handler in self.mro(exc)

    # ---- per function
    def raw_value_params(self) -> dict[str, set]:
        """function -> parameters that receive RAW parsed configuration values: the first parameter of every function
        named as `converter=` of an attrs field (converters run before the validators), and of the functions those pass
        their parameter on to unchanged (`value = _str_to_set(value)`)."""
        if getattr(self, "_raw", None) is not None:
            return self._raw
        names = set()
        for mod in self.repo.modules.values():
            for c in ast.walk(mod.tree):
                if isinstance(c, ast.Call) and ast.unparse(c.func).split(".")[-1] in ("field", "ib", "attrib"):
                    for kw in c.keywords:
                        if kw.arg == "converter" and isinstance(kw.value, ast.Name):
                            names.add(kw.value.id)
        raw: dict[str, set] = {}
        work = [q for q in self.repo.functions if q.rsplit(".", 1)[-1] in names]
        while work:
            q = work.pop()
            fn = self.repo.functions[q]
            if q in raw or not fn.args.args:
                continue
            p = fn.args.args[0].arg
            raw[q] = {p}
            for c in ast.walk(fn):
                if isinstance(c, ast.Call) and isinstance(c.func, ast.Name) and c.args and isinstance(c.args[0], ast.Name) and c.args[0].id == p:
                    for q2 in self.repo.functions:
                        if q2.rsplit(".", 1)[-1] == c.func.id and q2.rsplit(".", 1)[0] == q.rsplit(".", 1)[0]:
                            work.append(q2)
        self._raw = raw
        return raw

    def _function(self, q: str, fn: ast.FunctionDef) -> dict[str, tuple]:
        mod = self.repo.module_of(fn)
        edges_by_node: dict[int, list[str]] = {}
        for tgt, node in self.cg.edges.get(q, []):
            edges_by_node.setdefault(id(node), []).append(tgt)
        ext_by_node = {id(n): full for full, n in self.cg.ext.get(q, [])}

        # handles of a network response: `with urlopen(...) as NAME`
        net_handles = {item.optional_vars.id for w in ast.walk(fn) if isinstance(w, (ast.With, ast.AsyncWith)) for item in w.items
                       if isinstance(item.context_expr, ast.Call) and ast.unparse(item.context_expr.func).split(".")[-1] == "urlopen"
                       and isinstance(item.optional_vars, ast.Name)}

        def expr_raises(node: ast.AST) -> dict[str, tuple]:
            out: dict[str, tuple] = {}
            for n in walk_no_nested(node) if not isinstance(node, (ast.FunctionDef,)) else []:
                # T2: a constant index into the pieces of a split text: the text decides how many pieces there are
                if isinstance(n, ast.Subscript) and isinstance(n.slice, ast.Constant) and isinstance(n.slice.value, int) \
                        and n.slice.value not in (0, -1) and isinstance(n.value, ast.Call) and isinstance(n.value.func, ast.Attribute) \
                        and n.value.func.attr in ("split", "splitlines", "rsplit", "partition") and n.value.func.attr != "partition":
                    if _split_index_guarded(n):
                        continue
                    origin = f"{q} | lib | {ast.unparse(n)[:90]}"
                    out.setdefault(("builtins.IndexError", origin), ("lib", "subscript", self.repo.loc(n), ast.unparse(n)[:80]))
                # T2: a constant index under a length test that also lets the EMPTY (too short) sequence through
                if isinstance(n, ast.Subscript):
                    why = _length_guard_admits_short(n)
                    if why:
                        origin = f"{q} | lib | {ast.unparse(n)[:60]} under `{why[:60]}`"
                        out.setdefault(("builtins.IndexError", origin), ("lib", "subscript", self.repo.loc(n), ast.unparse(n)[:80]))
                for tgt in edges_by_node.get(id(n), []):
                    if tgt == q:
                        continue
                    for key in self.esc.get(tgt, {}):
                        out.setdefault(key, ("via", tgt, self.repo.loc(n)))
                # T2: reading the body of a network response fails in ways that are NOT URLError (a short body, a reset)
                if isinstance(n, ast.Call) and isinstance(n.func, ast.Attribute) and n.func.attr in ("read", "readlines", "readline") \
                        and isinstance(n.func.value, ast.Name) and n.func.value.id in net_handles:
                    for exc in ("http.client.IncompleteRead", "builtins.ConnectionError"):
                        origin = f"{q} | lib | {ast.unparse(n)[:90]}"
                        out.setdefault((exc, origin), ("lib", "network read", self.repo.loc(n), ast.unparse(n)[:80]))
                if isinstance(n, ast.Call) and id(n) in ext_by_node:
                    for exc in lib_raises(ext_by_node[id(n)], n, self.facts, self.raw_value_params().get(q)):
                        origin = f"{q} | lib | {ast.unparse(n)[:90]}"
                        out.setdefault((exc, origin), ("lib", ext_by_node[id(n)], self.repo.loc(n), ast.unparse(n)[:80]))
            return out

        def block(stmts: list[ast.stmt], current: dict[str, tuple], bound: dict[str, list[str]]) -> dict[str, tuple]:
            out: dict[str, tuple] = {}
            for st in stmts:
                out.update({k: v for k, v in stmt(st, current, bound).items() if k not in out})
            return out

        def stmt(st: ast.stmt, current: dict[str, tuple], bound: dict[str, list[str]]) -> dict[str, tuple]:
            if isinstance(st, (ast.FunctionDef, ast.AsyncFunctionDef, ast.ClassDef)):
                return {}
            if isinstance(st, ast.Raise):
                out = {}
                if st.exc is None:
                    return dict(current)
                out.update(expr_raises(st.exc))
                exc = st.exc.func if isinstance(st.exc, ast.Call) else st.exc
                if isinstance(exc, ast.Name) and exc.id in bound:
                    for c in bound[exc.id]:
                        out[c] = current.get(c, ("raise", self.repo.loc(st)))
                    return out
                cls = self.exc_class(exc, mod)
                origin = f"{q} | raise | {ast.unparse(st)[:90]}"
                out[(cls, origin)] = ("raise", self.repo.loc(st), ast.unparse(st)[:80])
                return out
            if isinstance(st, ast.Try):
                raised = block(st.body, current, bound)
                out: dict[str, tuple] = {}
                caught: dict[int, dict[str, tuple]] = {}
                for key, wit in raised.items():
                    exc = key[0]
                    for i, h in enumerate(st.handlers):
                        hs = ["builtins.BaseException"] if h.type is None else \
                            [self.exc_class(e, mod) for e in (h.type.elts if isinstance(h.type, ast.Tuple) else [h.type])]
                        if any(self.catches(hc, exc) for hc in hs):
                            caught.setdefault(i, {})[key] = wit
                            break
                    else:
                        out[key] = wit
                for i, h in enumerate(st.handlers):
                    cur = caught.get(i, {})
                    if not cur:
                        continue  # handler unreachable for the modelled exceptions
                    b2 = dict(bound)
                    if h.name:
                        b2[h.name] = list(cur)
                    for k, v in block(h.body, cur, b2).items():
                        out.setdefault(k, v)
                for k, v in block(st.orelse, current, bound).items():
                    out.setdefault(k, v)
                for k, v in block(st.finalbody, current, bound).items():
                    out.setdefault(k, v)
                return out
            if isinstance(st, ast.With):
                sup: list[str] = []
                out = {}
                for item in st.items:
                    ce = item.context_expr
                    if isinstance(ce, ast.Call) and ast.unparse(ce.func).split(".")[-1] == "suppress":
                        sup += [self.exc_class(a, mod) for a in ce.args]
                    else:
                        out.update(expr_raises(ce))
                for k, v in block(st.body, current, bound).items():
                    if not any(self.catches(s, k[0]) for s in sup):
                        out.setdefault(k, v)
                return out
            out = {}
            # compound statements: own expressions + nested blocks
            for fld, val in ast.iter_fields(st):
                if isinstance(val, list) and val and isinstance(val[0], ast.stmt):
                    for k, v in block(val, current, bound).items():
                        out.setdefault(k, v)
                elif isinstance(val, ast.AST):
                    for k, v in expr_raises(val).items():
                        out.setdefault(k, v)
                elif isinstance(val, list):
                    for x in val:
                        if isinstance(x, ast.AST) and not isinstance(x, ast.stmt):
                            for k, v in expr_raises(x).items():
                                out.setdefault(k, v)
            return out

        res = block(fn.body, {}, {})
        # decorator-driven callbacks (click types etc.) raise on behalf of the command
        for dec in fn.decorator_list:
            for tgt in edges_by_node.get(id(dec), []):
                for key in self.esc.get(tgt, {}):
                    res.setdefault(key, ("via", tgt, self.repo.loc(dec)))
        return res

    def witness_chain(self, q: str, exc: tuple, limit: int = 12) -> list[str]:
        out = []
        cur = q
        for _ in range(limit):
            w = self.esc.get(cur, {}).get(exc)
            if w is None:
                break
            if w[0] == "via":
                out.append(f"{cur} -> {w[1]} @ {w[2]}")
                cur = w[1]
            else:
                out.append(f"{cur}: {w[0]} {' '.join(str(x) for x in w[1:])}")
                break
        return out

    def origin(self, q: str, exc: tuple) -> tuple[str, tuple]:
        cur = q
        for _ in range(30):
            w = self.esc.get(cur, {}).get(exc)
            if w is None or w[0] != "via":
                return cur, w
            cur = w[1]
        return cur, None
