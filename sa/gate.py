"""Unread-helper gate: a rule that models function F reads F's own body (after the canonical form has substituted every
helper it can substitute).  When F hands part of its work to a helper that the confirmed tree does not have and that could
not be substituted (a method, a closure, a helper that returns from inside a loop), the rule has not read the code that
now does the work: what it would report about F is a statement about half a function.  Such a report is not raised as a
violation - the clause is undecided (exit 2), and the message names the helper."""
from __future__ import annotations

import ast

from .canon import ref_table
from .model import Repo


def _new_helpers(repo: Repo, q: str, known: set[str]) -> list[str]:
    fn = repo.functions.get(q)
    if fn is None:
        return []
    parts = q.split(".")
    mod = None
    for i in range(len(parts), 0, -1):
        if ".".join(parts[:i]) in repo.modules:
            mod = ".".join(parts[:i])
            break
    if mod is None:
        return []
    owner_cls = ".".join(parts[:-1]) if ".".join(parts[:-1]) in repo.classes else None
    out = []
    for c in ast.walk(fn):
        if not isinstance(c, ast.Call):
            continue
        cands = []
        if isinstance(c.func, ast.Name):
            cands = [f"{q}.{c.func.id}", f"{mod}.{c.func.id}"]
        elif isinstance(c.func, ast.Attribute) and isinstance(c.func.value, ast.Name) and owner_cls:
            base = c.func.value.id
            if base in ("self", "cls") or base == owner_cls.split(".")[-1]:
                cands = [f"{owner_cls}.{c.func.attr}"]
        if not cands and isinstance(c.func, ast.Attribute):
            # a method of any class that the confirmed tree does not have, called on some object (`report._add_license(...)`)
            cands = [k for k in repo.functions if k.endswith("." + c.func.attr) and k not in known
                     and k.rsplit(".", 1)[0] in repo.classes]
        for cand in cands:
            if cand in repo.functions and cand not in known and cand != q:
                out.append(cand)
                break
    return sorted(set(out))


def demote(ck, repo: Repo) -> list[str]:
    known = set(ref_table().get("__functions__", []))
    if not known:
        return []
    notes = []
    for r in ck.rules:
        keep = []
        for v in r.violations:
            if ck.known_match(v) is not None:
                keep.append(v)
                continue
            q = str(v.get("construct", "")).split(":")[0].split(" ")[0]
            helpers = _new_helpers(repo, q, known)
            if helpers:
                notes.append(f"{v['rule']}: {q} hands part of its work to {', '.join(helpers)}, which the confirmed tree does not have and"
                             f" which could not be read in place: the report `{str(v['witness'])[:80]}` is about half a function and is"
                             " not raised - the clause is undecided")
            else:
                keep.append(v)
        r.violations[:] = keep
    return sorted(set(notes))
