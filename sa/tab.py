"""E2/E3 - path-sensitive tabulation by abstract interpretation over opaque atoms.

A function body is interpreted with
  * locals bound to constants, opaque symbolic terms (canonical text) or tuples,
  * every branch condition reduced to *atoms* (named by the rule's atomizer; an
    unknown leaf becomes a free atom `?<text>`),
  * designated calls recorded as an ordered event trace,
  * exceptional edges only at calls the rule names.
Atoms are valued lazily: a run that needs an unvalued atom aborts with NeedAtom
and the driver forks on it (decision-tree exploration).  A reference function
is explored jointly with the implementation, which gives exact comparison of
the two decision tables without enumerating 2^n valuations.  Nothing of the
program's data is evaluated and no path condition is handed to a solver.
"""
from __future__ import annotations

import ast
from dataclasses import dataclass, field
from typing import Any, Callable, Optional

from .model import AnalysisError, norm


# --------------------------------------------------------------------------- values
@dataclass(frozen=True)
class Const:
    v: Any


@dataclass(frozen=True)
class Sym:
    text: str


@dataclass(frozen=True)
class Distinct:
    """A value known to differ from every constant (E5: 'any other character')."""

    tag: str


@dataclass(frozen=True)
class Tup:
    items: tuple


Value = Any


class NeedAtom(Exception):
    def __init__(self, atom: str):
        super().__init__(atom)
        self.atom = atom


class Valuation:
    def __init__(self, d: dict[str, bool]):
        self.d = d
        self.used: list[str] = []

    def __call__(self, atom: str) -> bool:
        if atom not in self.d:
            raise NeedAtom(atom)
        if atom not in self.used:
            self.used.append(atom)
        return self.d[atom]

    def get(self, atom: str) -> Optional[bool]:
        return self.d.get(atom)


def evalf(f: Any, v: Valuation) -> bool:
    """Evaluate a formula: atom name | ('not',f) | ('and',f..) | ('or',f..) | bool."""
    if isinstance(f, bool):
        return f
    if isinstance(f, str):
        return v(f)
    op = f[0]
    if op == "not":
        return not evalf(f[1], v)
    if op == "and":
        for g in f[1:]:
            if not evalf(g, v):
                return False
        return True
    if op == "or":
        for g in f[1:]:
            if evalf(g, v):
                return True
        return False
    if op == "xor":
        return evalf(f[1], v) != evalf(f[2], v)
    raise AnalysisError(f"bad formula {f!r}")


# --------------------------------------------------------------------------- control
class _Return(Exception):
    def __init__(self, value: Value):
        self.value = value


class _Raise(Exception):
    def __init__(self, exc: str, origin: str = ""):
        self.exc = exc
        self.origin = origin


class _Exit(Exception):
    def __init__(self, value: Value):
        self.value = value


class _Break(Exception):
    pass


class _Continue(Exception):
    pass


@dataclass
class Leaf:
    outcome: tuple
    events: list
    trace: list[int]
    env: dict = field(default_factory=dict)


class Hooks:
    """Rule-specific knowledge; subclass and override."""

    def atom(self, text: str, node: ast.AST, it: "Interp") -> Any:
        return None

    def event(self, text: str, call: ast.Call, it: "Interp") -> Any:
        return None

    def raises(self, text: str, call: ast.Call, it: "Interp") -> list[str]:
        return []

    def catches(self, handler: str, exc: str) -> bool:
        """Does `except handler` catch exception class `exc`?"""
        if handler == exc:
            return True
        if handler in ("Exception", "BaseException"):
            return True
        return (exc, handler) in self.subclass_pairs()

    def subclass_pairs(self) -> set[tuple[str, str]]:
        return set()

    def track_assign(self, name: str) -> bool:
        return False

    def loop_policy(self, node: ast.For, it: "Interp") -> Optional[str]:
        return None

    def value_of_call(self, text: str, call: ast.Call, it: "Interp") -> Optional[Value]:
        return None


def vtext(v: Value) -> str:
    if isinstance(v, Const):
        return repr(v.v)
    if isinstance(v, Sym):
        return v.text
    if isinstance(v, Distinct):
        return f"<{v.tag}>"
    if isinstance(v, Tup):
        return "(" + ", ".join(vtext(i) for i in v.items) + ("," if len(v.items) == 1 else "") + ")"
    return repr(v)


class _Subst(ast.NodeTransformer):
    def __init__(self, env: dict[str, Value]):
        self.env = env

    def visit_Name(self, node: ast.Name) -> ast.AST:
        if isinstance(node.ctx, ast.Load) and node.id in self.env:
            val = self.env[node.id]
            if isinstance(val, Const):
                try:
                    return ast.copy_location(ast.Constant(val.v), node)
                except Exception:
                    return node
            if isinstance(val, (Sym, Tup, Distinct)):
                t = vtext(val)
                if isinstance(val, Distinct):
                    return ast.Name(id=f"__{val.tag}__", ctx=ast.Load())
                try:
                    return ast.parse(t, mode="eval").body
                except SyntaxError:
                    return ast.Name(id="__opaque__", ctx=ast.Load())
        return node

    # do not substitute inside nested scopes that rebind names
    def visit_Lambda(self, node: ast.Lambda) -> ast.AST:
        bound = {a.arg for a in node.args.args}
        inner = _Subst({k: v for k, v in self.env.items() if k not in bound})
        node.body = inner.visit(node.body)
        return node

    def _comp(self, node):
        bound = set()
        for gen in node.generators:
            for n in ast.walk(gen.target):
                if isinstance(n, ast.Name):
                    bound.add(n.id)
        inner = _Subst({k: v for k, v in self.env.items() if k not in bound})
        for fld in ("elt", "key", "value"):
            if hasattr(node, fld):
                setattr(node, fld, inner.visit(getattr(node, fld)))
        for gen in node.generators:
            gen.iter = inner.visit(gen.iter)
            gen.ifs = [inner.visit(i) for i in gen.ifs]
        return node

    visit_ListComp = _comp
    visit_SetComp = _comp
    visit_GeneratorExp = _comp
    visit_DictComp = _comp


_TEXT_CAP = 400


_NEG = {ast.NotIn: ast.In, ast.IsNot: ast.Is, ast.NotEq: ast.Eq}
_POS = {v: k for k, v in _NEG.items()}


def _swap_symmetric(text: str):
    """`a == b` -> `b == a` (==, !=, is, is not with one operator); None for anything else."""
    try:
        e = ast.parse(text, mode="eval").body
    except SyntaxError:
        return None
    if isinstance(e, ast.Compare) and len(e.ops) == 1 and isinstance(e.ops[0], (ast.Eq, ast.NotEq, ast.Is, ast.IsNot)):
        return ast.unparse(ast.Compare(left=e.comparators[0], ops=e.ops, comparators=[e.left]))
    return None


def _dual_compare(text: str):
    """(positive text, was_negative) for a single comparison with in / is / == or their negations; else None."""
    try:
        e = ast.parse(text, mode="eval").body
    except SyntaxError:
        return None
    if not isinstance(e, ast.Compare) or len(e.ops) != 1:
        return None
    op = type(e.ops[0])
    if op in _NEG:
        return ast.unparse(ast.Compare(left=e.left, ops=[_NEG[op]()], comparators=e.comparators)), True
    if op in _POS:
        return text, False
    return None


def _negative_of(text: str):
    try:
        e = ast.parse(text, mode="eval").body
    except SyntaxError:
        return None
    if isinstance(e, ast.Compare) and len(e.ops) == 1 and type(e.ops[0]) in _POS:
        return ast.unparse(ast.Compare(left=e.left, ops=[_POS[type(e.ops[0])]()], comparators=e.comparators))
    return None



class Interp:
    def __init__(self, fn: ast.FunctionDef, hooks: Hooks, valuation: Valuation, prefix: str = ""):
        self.fn = fn
        self.hooks = hooks
        self.v = valuation
        self.env: dict[str, Value] = {}
        self.events: list = []
        self.trace: list[int] = []
        self.prefix = prefix  # atom prefix (inside generic loop elements)
        self.loop_depth = 0
        self._opaque_n = 0
        self.each_ctx: list[str] = []
        self.attr_env: dict[str, Value] = {}
        self.loop_locals: list[set[str]] = []

    # ----------------------------------------------------------------- text
    def text(self, expr: ast.AST) -> str:
        import copy

        e = copy.deepcopy(expr)
        choice = getattr(self, "_ifexp_choice", None)
        if choice and any(isinstance(n, ast.IfExp) for n in ast.walk(expr)):
            # a conditional expression that was decided on this path is rendered as the operand that was chosen
            picked = {id(c): choice[id(o)] for o, c in zip(ast.walk(expr), ast.walk(e)) if isinstance(o, ast.IfExp) and id(o) in choice}

            class _Pick(ast.NodeTransformer):
                def visit_IfExp(self, n):
                    if id(n) in picked:
                        return self.visit(n.body if picked[id(n)] else n.orelse)
                    return self.generic_visit(n)

            if picked:
                e = _Pick().visit(e)
        e = _Subst(self.env).visit(e)
        if any(isinstance(n, ast.FormattedValue) and isinstance(n.value, ast.JoinedStr) for n in ast.walk(e)):
            # f"{a} {f'{b} {c}'}" is f"{a} {b} {c}": an f-string placed in a plain replacement field is spliced in
            class _Flat(ast.NodeTransformer):
                def visit_JoinedStr(self, n):
                    self.generic_visit(n)
                    vals = []
                    for v in n.values:
                        if isinstance(v, ast.FormattedValue) and isinstance(v.value, ast.JoinedStr) and v.conversion == -1 and v.format_spec is None:
                            vals.extend(v.value.values)
                        else:
                            vals.append(v)
                    merged = []
                    for v in vals:
                        if isinstance(v, ast.Constant) and merged and isinstance(merged[-1], ast.Constant):
                            merged[-1] = ast.Constant(value=merged[-1].value + v.value)
                        else:
                            merged.append(v)
                    n.values = merged
                    return n

            e = _Flat().visit(e)
        ast.fix_missing_locations(e)
        return ast.unparse(e)

    def opaque(self, name: str) -> Sym:
        self._opaque_n += 1
        return Sym(f"{name}__{self._opaque_n}")

    # ----------------------------------------------------------------- events
    def emit(self, ev: Any) -> None:
        if ev is None:
            return
        if self.each_ctx:
            ev = ("each", tuple(self.each_ctx), ev)
        self.events.append(ev)

    # ----------------------------------------------------------------- expressions
    def ev(self, expr: ast.AST) -> Value:
        if isinstance(expr, ast.Constant):
            return Const(expr.value)
        if isinstance(expr, ast.Name):
            if expr.id in self.env:
                return self.env[expr.id]
            if expr.id in ("True", "False", "None"):
                return Const({"True": True, "False": False, "None": None}[expr.id])
            return Sym(expr.id)
        if isinstance(expr, ast.Tuple):
            return Tup(tuple(self.ev(e) for e in expr.elts))
        if isinstance(expr, ast.NamedExpr):
            val = self.ev(expr.value)
            self.bind(expr.target, val)
            return val
        if isinstance(expr, ast.IfExp):
            took = self.cond(expr.test)
            if not hasattr(self, "_ifexp_choice"):
                self._ifexp_choice = {}
            self._ifexp_choice[id(expr)] = took
            if took:
                return self.ev(expr.body)
            return self.ev(expr.orelse)
        if isinstance(expr, ast.UnaryOp) and isinstance(expr.op, ast.Not):
            inner = self.ev(expr.operand)
            if isinstance(inner, Const):
                return Const(not inner.v)
            return Sym(self.text(expr))
        if isinstance(expr, ast.Compare) and len(expr.ops) == 1:
            left = self.ev(expr.left)
            right = self.ev(expr.comparators[0])
            r = self._cmp(expr.ops[0], left, right)
            if r is not None:
                return Const(r)
            return Sym(self.text(expr))
        if isinstance(expr, ast.Call):
            return self.call(expr)
        if isinstance(expr, ast.BoolOp):
            # value context: visit operands for their calls, keep symbolic
            vals = [self.ev(o) for o in expr.values]
            if all(isinstance(x, Const) for x in vals):
                cur = vals[0].v
                for x in vals[1:]:
                    cur = (cur and x.v) if isinstance(expr.op, ast.And) else (cur or x.v)
                return Const(cur)
            return Sym(self.text(expr))
        if isinstance(expr, ast.BinOp):
            left = self.ev(expr.left)
            right = self.ev(expr.right)
            if isinstance(left, Const) and isinstance(right, Const):
                try:
                    if isinstance(expr.op, ast.Add):
                        return Const(left.v + right.v)
                    if isinstance(expr.op, ast.Sub):
                        return Const(left.v - right.v)
                except Exception:
                    pass
            return Sym(self.text(expr))
        if isinstance(expr, (ast.Lambda, ast.ListComp, ast.SetComp, ast.GeneratorExp, ast.DictComp)):
            return Sym(self.text(expr))
        if isinstance(expr, ast.JoinedStr):
            for part in expr.values:
                if isinstance(part, ast.FormattedValue):
                    self.ev(part.value)
            return Sym(self.text(expr))
        if isinstance(expr, ast.Subscript):
            base = self.ev(expr.value)
            idx = self.ev(expr.slice) if not isinstance(expr.slice, ast.Slice) else None
            if isinstance(base, Tup) and isinstance(idx, Const) and isinstance(idx.v, int):
                try:
                    return base.items[idx.v]
                except IndexError:
                    pass
            if isinstance(expr.slice, ast.Slice):
                for p in (expr.slice.lower, expr.slice.upper, expr.slice.step):
                    if p is not None:
                        self.ev(p)
            return Sym(self.text(expr))
        if isinstance(expr, ast.Attribute):
            key = ast.unparse(expr)
            if key in self.attr_env:
                return self.attr_env[key]
            self.ev(expr.value)
            return Sym(self.text(expr))
        if isinstance(expr, (ast.List, ast.Set)):
            for e in expr.elts:
                self.ev(e)
            return Sym(self.text(expr))
        if isinstance(expr, ast.Dict):
            for k in expr.keys:
                if k is not None:
                    self.ev(k)
            for val in expr.values:
                self.ev(val)
            return Sym(self.text(expr))
        if isinstance(expr, ast.Starred):
            self.ev(expr.value)
            return Sym(self.text(expr))
        if isinstance(expr, ast.UnaryOp):
            self.ev(expr.operand)
            return Sym(self.text(expr))
        if isinstance(expr, ast.Compare):
            self.ev(expr.left)
            for c in expr.comparators:
                self.ev(c)
            return Sym(self.text(expr))
        if isinstance(expr, ast.Yield):
            val = self.ev(expr.value) if expr.value is not None else Const(None)
            self.emit(("yield", vtext(val)))
            return Sym("<sent>")
        raise AnalysisError(
            f"tabulator: unsupported expression {type(expr).__name__} at line {getattr(expr, 'lineno', '?')}"
        )

    def _cmp(self, op: ast.cmpop, left: Value, right: Value) -> Optional[bool]:
        def known(x):
            return isinstance(x, (Const, Distinct))

        if not (known(left) and known(right)):
            # `x is None` where x is a tuple/… : unknown
            return None
        if isinstance(left, Distinct) or isinstance(right, Distinct):
            same = left == right
            if isinstance(op, (ast.Eq, ast.Is)):
                return same
            if isinstance(op, (ast.NotEq, ast.IsNot)):
                return not same
            return None
        a, b = left.v, right.v
        try:
            if isinstance(op, ast.Eq):
                return a == b
            if isinstance(op, ast.NotEq):
                return a != b
            if isinstance(op, ast.Is):
                return a is b if (a is None or b is None or isinstance(a, bool)) else a == b
            if isinstance(op, ast.IsNot):
                return (a is not b) if (a is None or b is None or isinstance(a, bool)) else a != b
            if isinstance(op, ast.In):
                return a in b
            if isinstance(op, ast.NotIn):
                return a not in b
            if isinstance(op, ast.Lt):
                return a < b
            if isinstance(op, ast.LtE):
                return a <= b
            if isinstance(op, ast.Gt):
                return a > b
            if isinstance(op, ast.GtE):
                return a >= b
        except Exception:
            return None
        return None

    def call(self, call: ast.Call) -> Value:
        # evaluation order: callee object, args
        if isinstance(call.func, ast.Attribute):
            self.ev(call.func.value)
        # a conditional expression handed over as an argument is decided on this path: the call is read with the chosen operand
        # (`f(x, size=None if c else N)` is `f(x, size=None)` where c holds), as the statement form `if c: … else: …` would be
        if any(isinstance(a, ast.IfExp) for a in call.args) or any(isinstance(kw.value, ast.IfExp) for kw in call.keywords):
            import copy as _copy

            call = _copy.copy(call)
            call.args = list(call.args)
            call.keywords = [_copy.copy(kw) for kw in call.keywords]
            if not hasattr(self, "_ifexp_choice"):
                self._ifexp_choice = {}

            def pick(a):
                while isinstance(a, ast.IfExp):
                    took = self.cond(a.test)
                    self._ifexp_choice[id(a)] = took
                    a = a.body if took else a.orelse
                return a

            for i, a in enumerate(call.args):
                call.args[i] = a = pick(a)
                self.ev(a)
            for kw in call.keywords:
                kw.value = a = pick(kw.value)
                self.ev(a)
        else:
            for a in call.args:
                self.ev(a)
            for kw in call.keywords:
                self.ev(kw.value)
        text = self.text(call)
        fname = ast.unparse(call.func)
        if fname in ("sys.exit", "exit"):
            arg = self.ev(call.args[0]) if call.args else Const(None)
            self.emit(self.hooks.event(text, call, self))
            raise _Exit(arg)
        emitted = False
        for exc in self.hooks.raises(text, call, self):
            atom = f"{self.prefix}raise[{exc}]@{self._short(text)}"
            if self.v(atom):
                self.trace.append(call.lineno)
                # the call was attempted: its event is part of the trace
                self.emit(self.hooks.event(text, call, self))
                raise _Raise(exc, text)
        self.emit(self.hooks.event(text, call, self))
        val = self.hooks.value_of_call(text, call, self)
        if val is not None:
            return val
        if len(text) > _TEXT_CAP:
            return self.opaque("call_" + fname.replace(".", "_"))
        return Sym(text)

    @staticmethod
    def _short(text: str) -> str:
        return text if len(text) < 120 else text[:117] + "..."

    # ----------------------------------------------------------------- conditions
    @staticmethod
    def normalize_cond(expr: ast.AST) -> ast.AST:
        from .rules import normalize_test
        return normalize_test(expr)

    def cond(self, expr: ast.AST) -> bool:
        expr = self.normalize_cond(expr)
        if isinstance(expr, ast.BoolOp):
            if isinstance(expr.op, ast.And):
                for o in expr.values:
                    if not self.cond(o):
                        return False
                return True
            for o in expr.values:
                if self.cond(o):
                    return True
            return False
        if isinstance(expr, ast.UnaryOp) and isinstance(expr.op, ast.Not):
            return not self.cond(expr.operand)
        if isinstance(expr, ast.IfExp):
            return self.cond(expr.body) if self.cond(expr.test) else self.cond(expr.orelse)
        if isinstance(expr, ast.NamedExpr):
            val = self.ev(expr.value)
            self.bind(expr.target, val)
            return self._truth(val, expr)
        if isinstance(expr, ast.Call) and ast.unparse(expr.func) == "bool" and len(expr.args) == 1:
            return self.cond(expr.args[0])
        val = self.ev(expr)
        if isinstance(expr, ast.Name) and isinstance(val, Sym):
            # a local that stores a boolean combination (`needs = not a and not b.startswith(c)`) is tested like the combination
            # written in place: the same atoms, not one opaque atom
            try:
                stored = ast.parse(val.text, mode="eval").body
            except SyntaxError:
                stored = None
            if isinstance(stored, ast.Call) and isinstance(stored.func, ast.Name) and stored.func.id == "bool" and len(stored.args) == 1 \
                    and not stored.keywords and isinstance(stored.args[0], (ast.BoolOp, ast.UnaryOp)):
                stored = stored.args[0]      # bool(A and B) is tested like A and B
            if isinstance(stored, ast.BoolOp) or (isinstance(stored, ast.UnaryOp) and isinstance(stored.op, ast.Not)):
                if not any(isinstance(n, (ast.NamedExpr, ast.Lambda, ast.Await, ast.Yield)) for n in ast.walk(stored)):
                    return self.cond(stored)
        return self._truth(val, expr)

    def _truth(self, val: Value, node: ast.AST) -> bool:
        if isinstance(val, Const):
            return bool(val.v)
        if isinstance(val, Distinct):
            return True
        if isinstance(val, Tup):
            return len(val.items) > 0
        text = vtext(val)
        # any((gen)) / all((gen)): one canonical spelling (same text as the any-match loop summary)
        import re as _re
        m = _re.fullmatch(r"(any|all)\(\((.*)\)\)", text, _re.S)
        if m:
            text = f"{m.group(1)}({m.group(2)})"
        f = self.hooks.atom(text, node, self)
        if f is None:
            # `a == b` and `b == a` (also !=, is, is not) are one atom
            sw = _swap_symmetric(text)
            if sw is not None:
                f = self.hooks.atom(sw, node, self)
                if f is None:
                    d2 = _dual_compare(sw)
                    if d2 is not None:
                        pos2, neg2 = d2
                        other2 = pos2 if neg2 else _negative_of(pos2)
                        g2 = self.hooks.atom(other2, node, self) if other2 is not None else None
                        if g2 is not None:
                            f = ("not", g2) if not isinstance(g2, bool) else (not g2)
                if f is None and sw < text:
                    text = sw   # an unknown symmetric comparison is named by the smaller of its two spellings
        if f is None:
            # `a not in b` / `a is not b` / `a != b` and their positive forms are one atom: an atomizer that knows
            # either spelling decides both; an unknown comparison is named by its positive form
            dual = _dual_compare(text)
            if dual is not None:
                pos, negated = dual
                other = pos if negated else _negative_of(pos)
                g = self.hooks.atom(other, node, self) if other is not None else None
                if g is not None:
                    f = ("not", g) if not isinstance(g, bool) else (not g)
                elif negated:
                    f = ("not", "?" + pos)
        if f is None:
            f = "?" + text
        self.trace.append(getattr(node, "lineno", 0))
        return evalf(self._prefix_formula(f, text), self.v)

    def _prefix_formula(self, f: Any, text: Optional[str] = None) -> Any:
        if not self.prefix:
            return f
        if text is not None and self.loop_locals:
            import re as _re

            if not (set(_re.findall(r"[A-Za-z_]\w*", text)) & set().union(*self.loop_locals)):
                return f  # loop-invariant condition: same atom as outside the loop
        if isinstance(f, bool):
            return f
        if isinstance(f, str):
            return f if f.startswith("@") else self.prefix + f
        return (f[0],) + tuple(self._prefix_formula(g) for g in f[1:])

    # ----------------------------------------------------------------- binding
    def bind(self, target: ast.AST, val: Value) -> None:
        if isinstance(target, ast.Name):
            if isinstance(val, Sym) and len(val.text) > _TEXT_CAP:
                val = self.opaque(target.id)
            self.env[target.id] = val
            if self.hooks.track_assign(target.id):
                self.emit(("assign", target.id, vtext(val)))
        elif isinstance(target, (ast.Tuple, ast.List)):
            if isinstance(val, Tup) and len(val.items) == len(target.elts):
                for t, x in zip(target.elts, val.items):
                    self.bind(t, x)
            else:
                base = vtext(val)
                for i, t in enumerate(target.elts):
                    if isinstance(t, ast.Starred):
                        self.bind(t.value, Sym(f"{base}[{i}:]"))
                    else:
                        self.bind(t, Sym(f"({base})[{i}]" if not base.isidentifier() else f"{base}[{i}]"))
        elif isinstance(target, (ast.Attribute, ast.Subscript)):
            ttext = self.text(target)
            if isinstance(target, ast.Attribute) and isinstance(target.value, ast.Name):
                self.attr_env[ast.unparse(target)] = val
            self.emit(self.hooks_store(ttext, target, val))
        elif isinstance(target, ast.Starred):
            self.bind(target.value, val)
        else:
            raise AnalysisError(f"tabulator: unsupported target {type(target).__name__}")

    def hooks_store(self, ttext: str, target: ast.AST, val: Value) -> Any:
        fn = getattr(self.hooks, "store", None)
        if fn is None:
            return None
        return fn(ttext, vtext(val), target, self)

    # ----------------------------------------------------------------- statements
    def block(self, stmts: list[ast.stmt]) -> None:
        for st in stmts:
            self.stmt(st)

    def stmt(self, st: ast.stmt) -> None:
        if isinstance(st, ast.Expr):
            if isinstance(st.value, ast.Constant):
                return
            self.ev(st.value)
        elif isinstance(st, ast.Assign):
            val = self.ev(st.value)
            for t in st.targets:
                self.bind(t, self._fresh_container(t, st.value, val))
        elif isinstance(st, ast.AnnAssign):
            if st.value is not None:
                self.bind(st.target, self._fresh_container(st.target, st.value, self.ev(st.value)))
        elif isinstance(st, ast.AugAssign):
            val = self.ev(st.value)
            cur = self.ev(st.target) if isinstance(st.target, ast.Name) else Sym(self.text(st.target))
            op = type(st.op).__name__
            if isinstance(cur, Const) and isinstance(val, Const) and isinstance(st.op, ast.Add):
                try:
                    new: Value = Const(cur.v + val.v)
                except Exception:
                    new = Sym(f"({vtext(cur)}) {op} ({vtext(val)})")
            else:
                sym = {"Add": "+", "Sub": "-", "BitOr": "|", "BitAnd": "&", "Mult": "*", "BitXor": "^", "Div": "/",
                       "Mod": "%", "FloorDiv": "//"}.get(op, f"<{op}>")
                try:
                    new = Sym(ast.unparse(ast.parse(f"({vtext(cur)}) {sym} ({vtext(val)})", mode="eval").body))
                except SyntaxError:
                    new = Sym(f"({vtext(cur)}) {sym} ({vtext(val)})")
            aug_ev = self._aug(st, cur, val)
            self.emit(aug_ev)
            if aug_ev is None or not getattr(self.hooks, "aug_inplace", False):
                # a hook that recognises the statement as an in-place update (`acc += xs` = `acc.extend(xs)`)
                # reports it as an event and the accumulator keeps its name
                self.bind(st.target, new)
        elif isinstance(st, ast.Return):
            raise _Return(self.ev(st.value) if st.value is not None else Const(None))
        elif isinstance(st, ast.Raise):
            if st.exc is None:
                raise _Raise("<reraise>")
            exc = st.exc
            if isinstance(exc, ast.Call):
                for a in exc.args:
                    self.ev(a)
                for kw in exc.keywords:
                    self.ev(kw.value)
                name = ast.unparse(exc.func)
            else:
                v = self.ev(exc)
                name = vtext(v)
            ev = getattr(self.hooks, "on_raise", None)
            if ev is not None:
                self.emit(ev(name, st, self))
            raise _Raise(name.split(".")[-1], self.text(exc))
        elif isinstance(st, ast.If):
            taken = self.cond(st.test)
            self.block(st.body if taken else st.orelse)
        elif isinstance(st, ast.For):
            self.for_(st)
        elif isinstance(st, ast.While):
            self.while_(st)
        elif isinstance(st, ast.Try):
            self.try_(st)
        elif isinstance(st, ast.With):
            self.with_(st)
        elif isinstance(st, ast.Pass):
            return
        elif isinstance(st, ast.Break):
            raise _Break()
        elif isinstance(st, ast.Continue):
            raise _Continue()
        elif isinstance(st, (ast.FunctionDef, ast.ClassDef, ast.AsyncFunctionDef)):
            self.env[st.name] = Sym(st.name)
        elif isinstance(st, ast.Delete):
            for t in st.targets:
                self.emit(self.hooks_store("del " + self.text(t), t, Const(None)))
        elif isinstance(st, (ast.Import, ast.ImportFrom, ast.Global, ast.Nonlocal)):
            return
        elif isinstance(st, ast.Assert):
            return
        else:
            raise AnalysisError(
                f"tabulator: unsupported statement {type(st).__name__} at line {st.lineno}"
            )

    @staticmethod
    def _fresh_container(target: ast.AST, value: ast.AST, val: Value) -> Value:
        """A local initialised to an EMPTY container literal is a mutable accumulator:
        keep it addressable by its own name instead of substituting `[]` / `{}`."""
        if isinstance(target, ast.Name):
            empty_lit = isinstance(value, (ast.List, ast.Dict)) and not getattr(value, "elts", None) \
                and not getattr(value, "keys", None)
            empty_call = isinstance(value, ast.Call) and isinstance(value.func, ast.Name) \
                and value.func.id in ("set", "list", "dict") and not value.args and not value.keywords
            if empty_lit or empty_call:
                return Sym(target.id)
        return val

    def _aug(self, st: ast.AugAssign, cur: Value, val: Value) -> Any:
        fn = getattr(self.hooks, "augassign", None)
        if fn is None:
            return None
        return fn(self.text(st.target), type(st.op).__name__, vtext(val), st, self)

    # ----------------------------------------------------------------- loops
    @staticmethod
    def _names_in(node: ast.AST) -> set[str]:
        return {n.id for n in ast.walk(node) if isinstance(n, ast.Name)}

    @staticmethod
    def _is_logging(st: ast.stmt) -> bool:
        return (
            isinstance(st, ast.Expr)
            and isinstance(st.value, ast.Call)
            and ast.unparse(st.value.func).startswith("_LOGGER.")
        )

    def _any_match_shape(self, st: ast.For) -> Optional[ast.If]:
        body = [s for s in st.body if not self._is_logging(s)]
        # leading single-target assignments (`m = p.search(x)`) are folded into the test
        while len(body) > 1 and isinstance(body[0], ast.Assign) and len(body[0].targets) == 1 \
                and isinstance(body[0].targets[0], ast.Name):
            body = body[1:]
        if len(body) != 1 or not isinstance(body[0], ast.If):
            return None
        iff = body[0]
        if iff.orelse:
            return None
        last = iff.body[-1]
        if not isinstance(last, (ast.Return, ast.Raise, ast.Break)):
            return None
        return iff

    def for_(self, st: ast.For) -> None:
        policy = self.hooks.loop_policy(st, self)
        iff = self._any_match_shape(st) if policy in (None, "any") else None
        if iff is not None:
            self._for_any(st, iff)
            return
        if policy == "any":
            raise AnalysisError(f"loop at line {st.lineno} is not an any-match loop")
        if policy == "skip":
            return
        self._for_each(st)

    def _for_any(self, st: ast.For, iff: ast.If) -> None:
        loopvars = self._names_in(st.target)
        it_text = self.text(st.iter)
        self.ev(st.iter)
        saved_env = dict(self.env)
        for n in loopvars:
            self.env.pop(n, None)
        for pre in st.body:
            if pre is iff:
                break
            if isinstance(pre, ast.Assign):
                # symbolic binding only (no events): the value is part of the test text
                self.env[pre.targets[0].id] = Sym(self.text(pre.value))  # type: ignore[attr-defined]
                loopvars = loopvars | {pre.targets[0].id}  # type: ignore[attr-defined]
        test = iff.test
        conj = test.values if isinstance(test, ast.BoolOp) and isinstance(test.op, ast.And) else [test]
        variant = [c for c in conj if self._names_in(c) & loopvars]
        invariant = [c for c in conj if not (self._names_in(c) & loopvars)]
        ok = True
        if variant:
            vt = " and ".join(self.text(c) for c in variant)
            text = f"any({vt} for {ast.unparse(st.target)} in {it_text})"
            f = self.hooks.atom(text, st, self)
            if f is None:
                f = "?" + text
            self.trace.append(st.lineno)
            ok = evalf(self._prefix_formula(f), self.v)
        else:
            f = self.hooks.atom(f"nonempty({it_text})", st, self)
            if f is None:
                f = "?nonempty(" + it_text + ")"
            ok = evalf(self._prefix_formula(f), self.v)
        if ok:
            for c in invariant:
                if not self.cond(c):
                    ok = False
                    break
        if ok:
            for n in ast.walk(st.target):
                if isinstance(n, ast.Name):
                    self.env[n.id] = Sym(n.id)
            try:
                self.block(iff.body)
            except _Break:
                return
        self.block(st.orelse)

    def _assigned_in(self, stmts: list[ast.stmt]) -> set[str]:
        out: set[str] = set()
        for s in stmts:
            for n in ast.walk(s):
                if isinstance(n, ast.Name) and isinstance(n.ctx, ast.Store):
                    out.add(n.id)
        return out

    def _for_each(self, st: ast.For) -> None:
        """Generic element: the body is interpreted once for an arbitrary element."""
        it_text = self.text(st.iter)
        self.ev(st.iter)
        self.loop_depth += 1
        tgt = ast.unparse(st.target)
        label = f"each {tgt} in {ast.unparse(st.iter)}"
        fn = getattr(self.hooks, "loop_label", None)
        if fn is not None:
            label = fn(st, it_text, self) or label
        # loop-carried locals become opaque (except tracked accumulators)
        carried = self._assigned_in(st.body) - self._names_in(st.target)
        keep = getattr(self.hooks, "keep_carried", lambda name: False)
        for name in carried:
            if name in self.env and not keep(name):
                self.env[name] = Sym(f"{name}__in_loop")
        saved_prefix = self.prefix
        self.prefix = f"{self.prefix}{label}::"
        self.each_ctx.append(label)
        self.loop_locals.append(self._names_in(st.target) | carried)
        for n in ast.walk(st.target):
            if isinstance(n, ast.Name):
                self.env[n.id] = Sym(n.id)
        outcome = "next"
        try:
            self.block(st.body)
        except _Continue:
            outcome = "continue"
        except _Break:
            outcome = "break"
        except (_Return, _Raise, _Exit) as ctl:
            self.each_ctx.pop()
            self.loop_locals.pop()
            self.prefix = saved_prefix
            self.loop_depth -= 1
            ctl.in_loop = label  # type: ignore[attr-defined]
            raise
        self.emit(("element-end", outcome))
        self.each_ctx.pop()
        self.loop_locals.pop()
        self.prefix = saved_prefix
        self.loop_depth -= 1
        for name in carried:
            if not keep(name):
                self.env[name] = Sym(f"{name}__after_loop")
        if outcome != "break":
            self.block(st.orelse)

    def while_(self, st: ast.While) -> None:
        raise AnalysisError(f"tabulator: while loop at line {st.lineno} not supported")

    # ----------------------------------------------------------------- try / with
    @staticmethod
    def _handler_names(h: ast.ExceptHandler) -> list[str]:
        if h.type is None:
            return ["BaseException"]
        if isinstance(h.type, ast.Tuple):
            return [ast.unparse(e).split(".")[-1] for e in h.type.elts]
        return [ast.unparse(h.type).split(".")[-1]]

    def try_(self, st: ast.Try) -> None:
        try:
            try:
                self.block(st.body)
            except _Raise as r:
                for h in st.handlers:
                    if any(self.hooks.catches(n, r.exc) for n in self._handler_names(h)):
                        if h.name:
                            self.env[h.name] = Sym(f"<{r.exc} as {h.name}>")
                        self.trace.append(h.lineno)
                        self.emit(("caught", r.exc, self._handler_names(h)))
                        try:
                            self.block(h.body)
                        except _Raise as r2:
                            if r2.exc == "<reraise>":
                                raise _Raise(r.exc, r.origin) from None
                            raise
                        break
                else:
                    raise
            else:
                self.block(st.orelse)
        finally:
            # `finally` bodies: interpret for events (rare in this code base)
            if st.finalbody:
                self.block(st.finalbody)

    def with_(self, st: ast.With) -> None:
        suppress: list[str] = []
        for item in st.items:
            ce = item.context_expr
            if isinstance(ce, ast.Call) and ast.unparse(ce.func).split(".")[-1] == "suppress":
                suppress += [ast.unparse(a).split(".")[-1] for a in ce.args]
                continue
            val = self.ev(ce)
            if item.optional_vars is not None:
                self.bind(item.optional_vars, Sym(f"<ctx {vtext(val)}>"))
        if suppress:
            try:
                self.block(st.body)
            except _Raise as r:
                if not any(self.hooks.catches(n, r.exc) for n in suppress):
                    raise
                self.emit(("suppressed", r.exc))
        else:
            self.block(st.body)

    # ----------------------------------------------------------------- entry
    def run(self, init: Optional[dict[str, Value]] = None, params: Optional[list[str]] = None) -> Leaf:
        """`params`: canonical parameter names by position (the names the rule's atomizer is written in);
        a renamed parameter is then transparent to the rule."""
        args = self.fn.args
        for i, a in enumerate(args.posonlyargs + args.args + args.kwonlyargs):
            canon = params[i] if params and i < len(params) and params[i] else a.arg
            self.env[a.arg] = Sym(canon)
        if init:
            self.env.update(init)
        try:
            self.block(self.fn.body)
            outcome: tuple = ("return", "None")
        except _Return as r:
            outcome = ("return", vtext(r.value))
            if getattr(r, "in_loop", None):
                outcome += (("in", r.in_loop),)  # type: ignore[attr-defined]
        except _Raise as r:
            outcome = ("raise", r.exc)
            if getattr(r, "in_loop", None):
                outcome += (("in", r.in_loop),)  # type: ignore[attr-defined]
        except _Exit as r:
            outcome = ("exit", vtext(r.value))
        except (_Break, _Continue):
            raise AnalysisError("break/continue outside loop")
        return Leaf(outcome, self.events, self.trace, dict(self.env))


# --------------------------------------------------------------------------- driver
def explore(
    run: Callable[[Valuation], Any],
    feasible: Optional[Callable[[Valuation], bool]] = None,
    max_leaves: int = 400000,
) -> list[tuple[dict[str, bool], Any]]:
    """Lazy decision-tree exploration.  `run(v)` may raise NeedAtom."""
    leaves: list[tuple[dict[str, bool], Any]] = []
    stack: list[dict[str, bool]] = [{}]
    while stack:
        d = stack.pop()
        v = Valuation(d)
        if feasible is not None:
            try:
                if not feasible(v):
                    continue
            except NeedAtom:
                pass
        try:
            res = run(v)
        except NeedAtom as need:
            if need.atom in d:
                raise AnalysisError(f"atom {need.atom} requested twice")
            stack.append({**d, need.atom: False})
            stack.append({**d, need.atom: True})
            continue
        leaves.append((d, res))
        if len(leaves) > max_leaves:
            raise AnalysisError("decision tree too large")
    return leaves


def tabulate(
    fn: ast.FunctionDef,
    hooks: Hooks,
    ref: Optional[Callable[[Valuation], Any]] = None,
    feasible: Optional[Callable[[Valuation], bool]] = None,
    init: Optional[dict[str, Value]] = None,
    params: Optional[list[str]] = None,
) -> list[tuple[dict[str, bool], Leaf, Any]]:
    def run(v: Valuation):
        leaf = Interp(fn, hooks, v).run(init, params)
        r = ref(v) if ref is not None else None
        return (leaf, r)

    out = []
    for d, (leaf, r) in explore(run, feasible):
        out.append((d, leaf, r))
    return out


def show_valuation(d: dict[str, bool]) -> str:
    return ", ".join(f"{'' if val else '¬'}{k}" for k, val in d.items()) or "(always)"


def run_block(stmts: list[ast.stmt], env: dict[str, Value], hooks: Hooks,
              valuation: Optional[Valuation] = None, fn: Optional[ast.FunctionDef] = None):
    """Interpret a statement list from a given environment.

    Returns (final env, events, outcome) where outcome is None (fell through),
    ('return', text) / ('raise', exc) / ('break',) / ('continue',).
    """
    it = Interp(fn or ast.FunctionDef(name="<block>", args=ast.arguments(
        posonlyargs=[], args=[], kwonlyargs=[], kw_defaults=[], defaults=[]), body=stmts,
        decorator_list=[]), hooks, valuation or Valuation({}))
    it.env = dict(env)
    outcome = None
    try:
        it.block(stmts)
    except _Return as r:
        outcome = ("return", r.value)
    except _Raise as r:
        outcome = ("raise", r.exc)
    except _Break:
        outcome = ("break",)
    except _Continue:
        outcome = ("continue",)
    return it.env, it.events, outcome
