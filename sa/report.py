"""Check context: rule instances, violations, known findings, evidence."""
from __future__ import annotations

import json
import os
import sys
import time
from pathlib import Path
from typing import Any, Optional

from .model import AnalysisError

VERIF = Path(__file__).resolve().parent.parent
KNOWN_FILE = VERIF / "known_findings.json"


def _load_known() -> list[dict]:
    if not KNOWN_FILE.exists():
        return []
    return json.loads(KNOWN_FILE.read_text())["findings"]


class Rule:
    def __init__(self, check: "Check", rid: str, title: str):
        self.check = check
        self.rid = rid
        self.title = title
        self.instances = 0
        self.distinct: set[str] = set()
        self.samples: list[Any] = []
        self.constructs: list[str] = []
        self.violations: list[dict] = []
        self.notes: list[str] = []
        self.floor_req: Optional[tuple[int, str]] = None

    # an instance = one obligation of this rule that was evaluated
    def instance(self, key: str, sample: Any = None, construct: Optional[str] = None) -> None:
        self.instances += 1
        self.distinct.add(key)
        if sample is not None and len(self.samples) < 4:
            self.samples.append(sample)
        if construct and construct not in self.constructs:
            self.constructs.append(construct)

    def count(self, n: int, distinct: Optional[int] = None, prefix: str = "") -> None:
        """Bulk-register n evaluated instances (e.g. enumerated valuations)."""
        self.instances += n
        base = len(self.distinct)
        for i in range(distinct if distinct is not None else n):
            self.distinct.add(f"{prefix}#{base + i}")

    def sample(self, s: Any) -> None:
        if len(self.samples) < 4:
            self.samples.append(s)

    def note(self, text: str) -> None:
        self.notes.append(text)

    def floor(self, minimum: int, what: str, got: Optional[int] = None) -> None:
        """Fail (exit 2) if fewer instances than confirmed by hand were seen."""
        n = self.instances if got is None else got
        if self.violations:
            return  # a recorded violation is the more specific answer
        if n < minimum:
            raise AnalysisError(
                f"{self.check.pid}-{self.rid}: instance floor not reached for {what}:"
                f" {n} < {minimum} (the analyser lost sight of the construct)"
            )

    def violation(
        self,
        construct: str,
        witness: str,
        message: str,
        loc: str = "",
        detail: Any = None,
    ) -> None:
        self.violations.append(
            {
                "property": self.check.pid,
                "rule": self.rid,
                "construct": construct,
                "witness": witness,
                "message": message,
                "loc": loc,
                "detail": detail,
            }
        )

    def __enter__(self) -> "Rule":
        return self

    def __exit__(self, et, ev, tb) -> bool:
        return False


class SubCheck:
    """View of a Check through which ANOTHER property's rules are run as obligations of this property (a property
    that depends on a layer inherits that layer's rules): rule ids are prefixed (`C03.R2`), rules that the host
    already shares explicitly (same title) are not run twice, and bookkeeping that belongs to the other property
    (explanation, not-decided list) is dropped."""

    def __init__(self, host: "Check", dep: str):
        self._host = host
        self._dep = dep
        self._titles = {r.title for r in host.rules}
        self.pid = host.pid
        self.tier = host.tier
        self.seed = host.seed
        self.extra = host.extra
        self.explanation = ""
        self.not_decided: list = []
        self.assumptions: list = []
        self.exhaustive = None
        self._mine: list = []

    @property
    def rules(self):
        return self._mine

    def rule(self, rid: str, title: str) -> "Rule":
        if title in self._titles:
            r = Rule(self._host, f"{self._dep}.{rid}", title)  # detached: already an explicit obligation of the host
            r.detached = True
            return r
        r = self._host.rule(f"{self._dep}.{rid}", title)
        r.inherited_from = (self._dep, rid)
        self._mine.append(r)
        return r

    def analysed_fn(self, *quals: str) -> None:
        self._host.analysed_fn(*quals)

    def defer(self, err: Exception) -> None:
        self._host.defer(Exception(f"{self._dep}: {err}"))

    def trust(self, *rows: str) -> None:
        self._host.trust(*rows)


class Check:
    def __init__(self, pid: str, tier: str):
        self.pid = pid
        self.tier = tier
        self.seed = int(os.environ.get("VERIF_SEED", "0") or 0)
        self.t0 = time.time()
        self.rules: list[Rule] = []
        self.explanation = ""
        self.not_decided: list[str] = []
        self.assumptions: list[str] = []
        self.trusted: list[str] = []
        self.analysed: list[str] = []
        self.extra: dict[str, Any] = {}
        self.exhaustive: Optional[bool] = None
        self.deferred: list[str] = []   # clauses that could not be decided while the rest of the property's rules still ran

    def defer(self, err: Exception) -> None:
        self.deferred.append(str(err))

    def rule(self, rid: str, title: str) -> Rule:
        r = Rule(self, rid, title)
        self.rules.append(r)
        return r

    def analysed_fn(self, *quals: str) -> None:
        for q in quals:
            if q not in self.analysed:
                self.analysed.append(q)

    def trust(self, *rows: str) -> None:
        for r in rows:
            if r not in self.trusted:
                self.trusted.append(r)

    # ------------------------------------------------------------------
    def _known_table(self) -> list:
        all_known = _load_known()
        known = [k for k in all_known if k["property"] == self.pid]
        # an inherited rule `C03.R2` also answers to the findings recorded for C03-R2 itself
        for k in all_known:
            if k["property"] != self.pid:
                kk = dict(k)
                kk["rule"] = f"{k['property']}.{k['rule']}"
                kk["_inherited"] = True
                known.append(kk)
        return known

    def known_match(self, v: dict, known: Optional[list] = None):
        for k in (known if known is not None else self._known_table()):
            if k.get("status", "known") != "known":
                continue  # fixed entries suppress nothing
            if k["rule"] == v["rule"] and k["construct"] == v["construct"] and k["witness"] == v["witness"]:
                return k
        return None

    def finish(self) -> int:
        known = self._known_table()
        all_v = [v for r in self.rules for v in r.violations]
        new_v = []
        known_hit = []
        for v in all_v:
            match = self.known_match(v, known)
            if match:
                known_hit.append((v, match))
            else:
                new_v.append(v)

        for v, k in known_hit:
            print(
                f"KNOWN-FINDING: property={self.pid} rule={v['rule']} {v['construct']}"
                f" [{v['witness']}] {k.get('what', v['message'])}"
            )
        replay_dir = VERIF / "replay"
        replay_dir.mkdir(exist_ok=True)
        for old in replay_dir.glob(f"{self.pid}-*.json"):
            try:
                old.unlink()
            except OSError:
                pass
        for i, v in enumerate(new_v):
            path = replay_dir / f"{self.pid}-{i}.json"
            path.write_text(json.dumps(v, indent=1, default=str))
            print(
                f"REPORT {self.pid}-{v['rule']} {v['loc']} {v['construct']}: {v['message']}"
                f" [witness: {v['witness']}]"
            )
            print(f"VIOLATION property={self.pid} replay={path}")

        self._write_evidence(len(new_v), len(known_hit))
        n_inst = sum(r.instances for r in self.rules)
        print(
            f"{self.pid} {self.tier}: rules={len(self.rules)} instances={n_inst}"
            f" violations={len(new_v)} known_findings={len(known_hit)}"
            f" wall={time.time() - self.t0:.2f}s"
        )
        return 1 if new_v else 0

    def _write_evidence(self, n_new: int, n_known: int) -> None:
        evaluations = sum(r.instances for r in self.rules)
        distinct = sum(len(r.distinct) for r in self.rules)
        samples: list[Any] = []
        for r in self.rules:
            for s in r.samples[:2]:
                samples.append({"rule": f"{self.pid}-{r.rid}", "case": s})
        obligations = len(self.rules)
        discharged = sum(1 for r in self.rules if not r.violations)
        cov: dict[str, Any] = {
            "explanation": self.explanation
            or f"static structural rules for {self.pid}; see DESIGN.md",
            "evaluations": evaluations,
            "distinct_nontrivial": distinct,
            "rule": "one evaluation = one rule instance decided on the parsed source"
            " (a decision-table leaf, a regular-language comparison, a call site,"
            " a forwarded argument, a call-graph path); distinct = distinct instance"
            " keys (construct + fact), all non-vacuous because a rule whose anchor is"
            " missing aborts with exit 2",
            "samples": samples or [{"note": "no instance"}],
            "obligations": obligations,
            "discharged": discharged,
            "rules": [
                {
                    "id": f"{self.pid}-{r.rid}",
                    "title": r.title,
                    "instances": r.instances,
                    "distinct": len(r.distinct),
                    "violations": len(r.violations),
                    "constructs": r.constructs[:40],
                    "notes": r.notes[:20],
                }
                for r in self.rules
            ],
            "functions_analysed": self.analysed,
            "not_decided": self.not_decided,
            "trusted_base": self.trusted,
            "known_findings_reported": n_known,
        }
        if self.exhaustive is not None:
            cov["exhaustive"] = self.exhaustive
        cov.update(self.extra)
        ev = {
            "property_id": self.pid,
            "tier": self.tier,
            "seed": self.seed,
            "level": "other",
            "coverage": cov,
            "assumptions": self.assumptions,
            "wall_s": round(time.time() - self.t0, 3),
            "violations": n_new,
        }
        if os.environ.get("VERIF_SELFTEST"):
            return      # a run against a scratch variant (selftest.py, sweeps) describes that variant: it must not replace the evidence
        out = VERIF / "evidence"
        out.mkdir(exist_ok=True)
        (out / f"{self.pid}.json").write_text(json.dumps(ev, indent=1, default=str))
