"""E4 - regular-language engine: `re` syntax trees -> NFA over a symbolic alphabet.

The alphabet is the set of minterms of all character predicates occurring in the
compared expressions, computed over a universe of code points (U+0000..U+2FFF
plus a few astral ones) and represented by one character each; languages range
over strings of *any* length.  Supported: literals, classes, categories, `.`,
repeats (lazy == greedy for language purposes), groups, alternation, `^`, `$`.
IGNORECASE is modelled on predicates (a character matches when it, its lower-case or its upper-case form does).
Lookarounds / back-references raise AnalysisError (exit 2).
"""
from __future__ import annotations

import re
import re._constants as sc  # type: ignore
import re._parser as sp  # type: ignore
from collections import deque
from typing import Callable, Iterable, Optional

from .model import AnalysisError

MAXREPEAT = sc.MAXREPEAT

_UNIVERSE = [chr(c) for c in range(0x0, 0x3000)] + ["\U0001F600", "￿", "中"]

_CAT = {
    sc.CATEGORY_DIGIT: lambda ch: ch.isdigit() and re.fullmatch(r"\d", ch) is not None,
    sc.CATEGORY_NOT_DIGIT: lambda ch: re.fullmatch(r"\d", ch) is None,
    sc.CATEGORY_SPACE: lambda ch: re.fullmatch(r"\s", ch) is not None,
    sc.CATEGORY_NOT_SPACE: lambda ch: re.fullmatch(r"\s", ch) is None,
    sc.CATEGORY_WORD: lambda ch: re.fullmatch(r"\w", ch) is not None,
    sc.CATEGORY_NOT_WORD: lambda ch: re.fullmatch(r"\w", ch) is None,
}


def _ic(fn: Callable[[str], bool]) -> Callable[[str], bool]:
    """Case-insensitive version of a character predicate (re.IGNORECASE on literals, ranges and classes)."""
    def g(ch: str) -> bool:
        if fn(ch):
            return True
        for v in (ch.lower(), ch.upper()):
            if len(v) == 1 and v != ch and fn(v):
                return True
        return False
    return g


def parse(pattern: str, flags: int = 0):
    try:
        return sp.parse(pattern, flags)
    except re.error as err:
        raise AnalysisError(f"cannot parse regex {pattern!r}: {err}") from err


# --------------------------------------------------------------------------- predicates
def _preds_of(tree, out: list, dotall: bool) -> None:
    for op, av in tree:
        if op is sc.LITERAL:
            out.append(("lit", av))
        elif op is sc.NOT_LITERAL:
            out.append(("lit", av))
        elif op is sc.ANY:
            out.append(("lit", 10))
        elif op is sc.IN:
            for iop, iav in av:
                if iop is sc.LITERAL:
                    out.append(("lit", iav))
                elif iop is sc.RANGE:
                    out.append(("range", iav))
                elif iop is sc.CATEGORY:
                    out.append(("cat", iav))
                elif iop is sc.NEGATE:
                    pass
                else:
                    raise AnalysisError(f"unsupported class item {iop}")
        elif op is sc.BRANCH:
            for alt in av[1]:
                _preds_of(alt, out, dotall)
        elif op is sc.SUBPATTERN:
            _preds_of(av[3], out, dotall)
        elif op in (sc.MAX_REPEAT, sc.MIN_REPEAT):
            _preds_of(av[2], out, dotall)
        elif op is sc.AT:
            pass
        else:
            raise AnalysisError(f"unsupported regex construct {op}")


def _pred_fn(p) -> Callable[[str], bool]:
    kind, v = p
    if kind == "ic":
        return _ic(_pred_fn(v))
    if kind == "lit":
        return lambda ch, v=v: ord(ch) == v
    if kind == "range":
        return lambda ch, v=v: v[0] <= ord(ch) <= v[1]
    if kind == "cat":
        return _CAT[v]
    raise AnalysisError("bad predicate")


def _rank(ch: str) -> int:
    if ch.isascii() and ch.islower():
        return 0
    if ch.isascii() and ch.isalnum():
        return 1
    if ch.isascii() and ch.isprintable() and ch != " ":
        return 2
    if ch.isprintable() and not ch.isspace():
        return 3
    return 4


class Alphabet:
    """Minterm representatives for a set of patterns (+ extra literal chars)."""

    def __init__(self, patterns: Iterable[tuple[str, int]], extra: str = "", exclude: str = ""):
        preds: list = []
        for pat, flags in patterns:
            mine: list = []
            _preds_of(parse(pat, flags), mine, bool(flags & re.DOTALL))
            preds.extend(mine)
            if flags & re.IGNORECASE:
                preds.extend(("ic", m) for m in mine)
        for ch in extra:
            preds.append(("lit", ord(ch)))   # every extra character (also "\n") is a representative of its own
        uniq = []
        for p in preds:
            if p not in uniq:
                uniq.append(p)
        fns = [_pred_fn(p) for p in uniq]
        seen: dict[tuple, str] = {}
        for ch in _UNIVERSE:
            if ch in exclude:
                continue
            sig = tuple(f(ch) for f in fns)
            if sig not in seen or _rank(ch) < _rank(seen[sig]):
                seen[sig] = ch  # prefer readable representatives
        self.chars = sorted(seen.values())
        self.index = {c: i for i, c in enumerate(self.chars)}
        self.exclude = exclude
        self.n_preds = len(uniq)

    def __len__(self) -> int:
        return len(self.chars)

    def where(self, fn: Callable[[str], bool]) -> frozenset:
        return frozenset(i for i, c in enumerate(self.chars) if fn(c))

    def all(self) -> frozenset:
        return frozenset(range(len(self.chars)))


# --------------------------------------------------------------------------- NFA
class NFA:
    """Epsilon-NFA with three kinds of epsilon edges: plain, begin-only, end-only."""

    def __init__(self, alpha: Alphabet):
        self.alpha = alpha
        self.trans: list[list[tuple[frozenset, int]]] = []
        self.eps: list[list[int]] = []
        self.eps_begin: list[list[int]] = []
        self.eps_end: list[list[int]] = []
        self.eps_dollar: list[list[int]] = []   # `$` without MULTILINE: end of input, or just before one final "\n"
        self.start = self.new()
        self.final = self.new()

    def new(self) -> int:
        self.trans.append([])
        self.eps.append([])
        self.eps_begin.append([])
        self.eps_end.append([])
        self.eps_dollar.append([])
        return len(self.trans) - 1

    # ---- building from an sre tree: returns (entry, exit)
    def build(self, tree, dotall: bool = False) -> tuple[int, int]:
        cur_in = self.new()
        cur = cur_in
        for op, av in tree:
            a, b = self._item(op, av, dotall)
            self.eps[cur].append(a)
            cur = b
        return cur_in, cur

    ignorecase = False

    def _cls(self, fn: Callable[[str], bool], negated_of: Optional[Callable[[str], bool]] = None) -> tuple[int, int]:
        a, b = self.new(), self.new()
        if self.ignorecase:
            if negated_of is not None:
                pos = _ic(negated_of)
                fn = lambda ch, pos=pos: not pos(ch)  # noqa: E731
            else:
                fn = _ic(fn)
        self.trans[a].append((self.alpha.where(fn), b))
        return a, b

    def _item(self, op, av, dotall: bool) -> tuple[int, int]:
        if op is sc.LITERAL:
            return self._cls(lambda ch: ord(ch) == av)
        if op is sc.NOT_LITERAL:
            return self._cls(lambda ch: ord(ch) != av, negated_of=lambda ch: ord(ch) == av)
        if op is sc.ANY:
            return self._cls((lambda ch: True) if dotall else (lambda ch: ch != "\n"))
        if op is sc.IN:
            items = list(av)
            neg = bool(items) and items[0][0] is sc.NEGATE
            if neg:
                items = items[1:]
            fns = []
            for iop, iav in items:
                if iop is sc.LITERAL:
                    fns.append(lambda ch, v=iav: ord(ch) == v)
                elif iop is sc.RANGE:
                    fns.append(lambda ch, v=iav: v[0] <= ord(ch) <= v[1])
                elif iop is sc.CATEGORY:
                    fns.append(_CAT[iav])
                else:
                    raise AnalysisError(f"unsupported class item {iop}")
            if neg:
                return self._cls(lambda ch: not any(f(ch) for f in fns), negated_of=lambda ch: any(f(ch) for f in fns))
            return self._cls(lambda ch: any(f(ch) for f in fns))
        if op is sc.BRANCH:
            a, b = self.new(), self.new()
            for alt in av[1]:
                x, y = self.build(alt, dotall)
                self.eps[a].append(x)
                self.eps[y].append(b)
            return a, b
        if op is sc.SUBPATTERN:
            group, add_flags, del_flags, sub = av
            if add_flags or del_flags:
                raise AnalysisError("inline regex flags are not supported")
            return self.build(sub, dotall)
        if op in (sc.MAX_REPEAT, sc.MIN_REPEAT):
            lo, hi, sub = av
            a = self.new()
            cur = a
            for _ in range(lo):
                x, y = self.build(sub, dotall)
                self.eps[cur].append(x)
                cur = y
            if hi == MAXREPEAT:
                x, y = self.build(sub, dotall)
                loop = self.new()
                self.eps[cur].append(loop)
                self.eps[loop].append(x)
                self.eps[y].append(loop)
                cur = loop
            else:
                end = self.new()
                self.eps[cur].append(end)
                for _ in range(hi - lo):
                    x, y = self.build(sub, dotall)
                    self.eps[cur].append(x)
                    self.eps[y].append(end)
                    cur = y
                cur = end
            return a, cur
        if op is sc.AT:
            a, b = self.new(), self.new()
            if av in (sc.AT_BEGINNING, sc.AT_BEGINNING_STRING):
                self.eps_begin[a].append(b)
            elif av is sc.AT_END_STRING:
                self.eps_end[a].append(b)
            elif av is sc.AT_END:
                self.eps_dollar[a].append(b)
            else:
                raise AnalysisError(f"unsupported anchor {av}")
            return a, b
        raise AnalysisError(f"unsupported regex construct {op}")


class Lang:
    """A regular language over an Alphabet, as an NFA with designated start/final."""

    def __init__(self, nfa: NFA, desc: str = ""):
        self.nfa = nfa
        self.desc = desc
        self._dfa: Optional[tuple] = None

    # ---- constructors
    @staticmethod
    def from_regex(pattern: str, flags: int, alpha: Alphabet, mode: str = "match") -> "Lang":
        """mode: 'full' (fullmatch), 'match' (prefix match), 'search'."""
        tree = parse(pattern, flags)
        nfa = NFA(alpha)
        nfa.ignorecase = bool(flags & re.IGNORECASE)
        a, b = nfa.build(tree, bool(flags & re.DOTALL))
        if mode == "search":
            pre = nfa.new()
            nfa.trans[pre].append((alpha.all(), pre))
            nfa.eps[nfa.start].append(pre)
            nfa.eps[pre].append(a)
            nfa.eps[nfa.start].append(a)
        else:
            nfa.eps[nfa.start].append(a)
        nfa.eps[b].append(nfa.final)
        if mode in ("match", "search"):
            tail = nfa.new()
            nfa.trans[tail].append((alpha.all(), tail))
            nfa.eps[b].append(tail)
            nfa.eps[tail].append(nfa.final)
        return Lang(nfa, f"/{pattern}/ [{mode}]")

    @staticmethod
    def from_parts(alpha: Alphabet, parts: list, desc: str = "") -> "Lang":
        """parts: ('lit', str) | ('set', predicate) | ('star', predicate) | ('opt', [parts]) |
        ('alt', [[parts], ...]) concatenated."""
        nfa = NFA(alpha)

        def seq(ps, entry: int) -> int:
            cur = entry
            for p in ps:
                kind = p[0]
                if kind == "lit":
                    for ch in p[1]:
                        nxt = nfa.new()
                        if ch not in alpha.index:
                            raise AnalysisError(f"literal {ch!r} not in alphabet")
                        nfa.trans[cur].append((frozenset([alpha.index[ch]]), nxt))
                        cur = nxt
                elif kind == "set":
                    nxt = nfa.new()
                    nfa.trans[cur].append((alpha.where(p[1]), nxt))
                    cur = nxt
                elif kind == "star":
                    loop = nfa.new()
                    nfa.eps[cur].append(loop)
                    nfa.trans[loop].append((alpha.where(p[1]), loop))
                    cur = loop
                elif kind == "plus":
                    nxt = nfa.new()
                    nfa.trans[cur].append((alpha.where(p[1]), nxt))
                    nfa.trans[nxt].append((alpha.where(p[1]), nxt))
                    cur = nxt
                elif kind == "opt":
                    end = seq(p[1], cur)
                    nxt = nfa.new()
                    nfa.eps[cur].append(nxt)
                    nfa.eps[end].append(nxt)
                    cur = nxt
                elif kind == "alt":
                    nxt = nfa.new()
                    for alt in p[1]:
                        a = nfa.new()
                        nfa.eps[cur].append(a)
                        nfa.eps[seq(alt, a)].append(nxt)
                    cur = nxt
                elif kind == "starseq":
                    loop = nfa.new()
                    nfa.eps[cur].append(loop)
                    end = seq(p[1], loop)
                    nfa.eps[end].append(loop)
                    cur = loop
                else:
                    raise AnalysisError(f"bad part {kind}")
            return cur

        end = seq(parts, nfa.start)
        nfa.eps[end].append(nfa.final)
        return Lang(nfa, desc)

    # ---- determinisation (lazy, memoised)
    # A subset state is a set of q*3+f: f = 0 no pending assertion, 1 = the rest of the input is "" or "\n" (a `$` was
    # passed), 2 = the rest of the input is "" (`\Z` was passed, or `$` and then the final newline was consumed).
    def _closure(self, states: frozenset, begin: bool) -> frozenset:
        nfa = self.nfa
        seen = set(states)
        stack = list(states)
        while stack:
            x = stack.pop()
            q, f = divmod(x, 3)
            nxt = [r * 3 + f for r in nfa.eps[q]]
            if begin:
                nxt += [r * 3 + f for r in nfa.eps_begin[q]]
            nxt += [r * 3 + 2 for r in nfa.eps_end[q]]
            nxt += [r * 3 + max(f, 1) for r in nfa.eps_dollar[q]]
            for r in nxt:
                if r not in seen:
                    seen.add(r)
                    stack.append(r)
        return frozenset(seen)

    def _accepting(self, states: frozenset, at_begin: bool) -> bool:
        fin = self.nfa.final
        return any(x // 3 == fin for x in states)

    def dfa(self):
        """(start_id, trans: list[list[int]], accepting: list[bool]) — complete DFA."""
        if self._dfa is not None:
            return self._dfa
        nfa = self.nfa
        k = len(nfa.alpha)
        nl = nfa.alpha.index.get("\n")
        start = self._closure(frozenset([nfa.start * 3]), True)
        ids = {(start, True): 0}
        order = [(start, True)]
        trans: list[list[int]] = []
        acc: list[bool] = []
        i = 0
        while i < len(order):
            S, at_begin = order[i]
            acc.append(self._accepting(S, at_begin))
            row = []
            moves: list[set] = [set() for _ in range(k)]
            for x in S:
                q, f = divmod(x, 3)
                if f == 2:
                    continue
                for cs, r in nfa.trans[q]:
                    if f == 1:
                        if nl is not None and nl in cs:
                            moves[nl].add(r * 3 + 2)
                        continue
                    for c in cs:
                        moves[c].add(r * 3)
            for c in range(k):
                T = self._closure(frozenset(moves[c]), False) if moves[c] else frozenset()
                key = (T, False)
                if key not in ids:
                    ids[key] = len(order)
                    order.append(key)
                    if len(order) > 200000:
                        raise AnalysisError("DFA too large")
                row.append(ids[key])
            trans.append(row)
            i += 1
        self._dfa = (0, trans, acc)
        return self._dfa

    def accepts(self, s: str) -> bool:
        _, trans, acc = self.dfa()
        q = 0
        for ch in s:
            if ch not in self.nfa.alpha.index:
                raise AnalysisError(f"{ch!r} not in alphabet")
            q = trans[q][self.nfa.alpha.index[ch]]
        return acc[q]

    @property
    def size(self) -> int:
        return len(self.dfa()[1])


def _search(a: Lang, b: Lang, want: Callable[[bool, bool], bool]) -> Optional[str]:
    """Shortest string s with want(s in A, s in B)."""
    if a.nfa.alpha is not b.nfa.alpha:
        raise AnalysisError("languages over different alphabets")
    chars = a.nfa.alpha.chars
    _, ta, aa = a.dfa()
    _, tb, ab = b.dfa()
    start = (0, 0)
    prev: dict[tuple, Optional[tuple]] = {start: None}
    q = deque([start])
    while q:
        cur = q.popleft()
        if want(aa[cur[0]], ab[cur[1]]):
            out = []
            node = cur
            while prev[node] is not None:
                p, c = prev[node]  # type: ignore[misc]
                out.append(chars[c])
                node = p
            return "".join(reversed(out))
        for c in range(len(chars)):
            nxt = (ta[cur[0]][c], tb[cur[1]][c])
            if nxt not in prev:
                prev[nxt] = (cur, c)
                q.append(nxt)
    return None


def in_a_not_b(a: Lang, b: Lang) -> Optional[str]:
    return _search(a, b, lambda x, y: x and not y)


def in_both(a: Lang, b: Lang) -> Optional[str]:
    return _search(a, b, lambda x, y: x and y)


def difference(a: Lang, b: Lang) -> Optional[tuple[str, str]]:
    """None if equal, else ('only-first'|'only-second', shortest witness)."""
    w = in_a_not_b(a, b)
    w2 = in_a_not_b(b, a)
    if w is None and w2 is None:
        return None
    if w is not None and (w2 is None or len(w) <= len(w2)):
        return ("only-first", w)
    return ("only-second", w2)  # type: ignore[return-value]


def union(alpha: Alphabet, langs: list[Lang], desc: str = "") -> Lang:
    """Union by a fresh start with epsilon edges into renumbered copies."""
    nfa = NFA(alpha)
    for lang in langs:
        src = lang.nfa
        off = len(nfa.trans)
        for _ in range(len(src.trans)):
            nfa.new()
        for q in range(len(src.trans)):
            nfa.trans[off + q] = [(cs, off + r) for cs, r in src.trans[q]]
            nfa.eps[off + q] = [off + r for r in src.eps[q]]
            nfa.eps_begin[off + q] = [off + r for r in src.eps_begin[q]]
            nfa.eps_end[off + q] = [off + r for r in src.eps_end[q]]
            nfa.eps_dollar[off + q] = [off + r for r in src.eps_dollar[q]]
        # entering a member keeps "at beginning": use a begin-transparent epsilon
        nfa.eps[nfa.start].append(off + src.start)
        nfa.eps[off + src.final].append(nfa.final)
    return Lang(nfa, desc or " | ".join(l.desc for l in langs))


def empty(alpha: Alphabet) -> Lang:
    return Lang(NFA(alpha), "∅")
