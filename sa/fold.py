"""E1 - constant folder over module-level constants and class tables.

Evaluates module-level constant expressions over a whitelist of pure standard
library operations.  Nothing of `reuse` is imported or executed by CPython: the
folder is a small evaluator over the *parsed* source.  Sets fold to an unordered
abstract value (USet); consuming one in an order-sensitive way is recorded as an
order hazard (that is how the `_END_PATTERN` defect surfaces) and the fold
continues with the sorted order as canonical representative.
Anything outside the whitelist yields Unknown.
"""
from __future__ import annotations

import ast
import re
from dataclasses import dataclass, field
from typing import Any, Optional

from .model import AnalysisError, Module, Repo


class Unknown:
    def __init__(self, why: str = ""):
        self.why = why

    def __repr__(self) -> str:
        return f"Unknown({self.why})"


def is_unknown(v: Any) -> bool:
    return isinstance(v, Unknown)


class USet:
    """Unordered set value."""

    def __init__(self, items):
        self.items = frozenset(items)

    def canonical(self) -> list:
        return sorted(self.items, key=repr)

    def __repr__(self) -> str:
        return "USet(" + ", ".join(repr(i) for i in self.canonical()) + ")"

    def __eq__(self, other) -> bool:
        return isinstance(other, USet) and self.items == other.items

    def __hash__(self) -> int:
        return hash(self.items)


@dataclass(frozen=True)
class Regex:
    pattern: str
    flags: int = 0


@dataclass(eq=False)
class ClassVal:
    qual: str
    node: ast.ClassDef
    module: str

    @property
    def name(self) -> str:
        return self.node.name

    def __repr__(self) -> str:
        return f"<class {self.qual}>"


@dataclass(eq=False)
class FuncVal:
    qual: str
    node: ast.FunctionDef
    module: str

    def __repr__(self) -> str:
        return f"<function {self.qual}>"


@dataclass(frozen=True)
class Record:
    cls: str
    fields: tuple  # ((name, value), ...)

    def get(self, name: str) -> Any:
        for k, v in self.fields:
            if k == name:
                return v
        return Unknown(f"no field {name}")

    def astuple(self) -> tuple:
        return tuple(v for _, v in self.fields)


@dataclass(frozen=True)
class EnumMember:
    cls: str
    name: str
    value: Any


@dataclass
class Hazard:
    where: str  # "module:line"
    what: str
    context: str = ""  # constant being folded


class _ReturnValue(Exception):
    def __init__(self, value):
        self.value = value


class Folder:
    def __init__(self, repo: Repo):
        self.repo = repo
        self._envs: dict[str, dict[str, Any]] = {}
        self._folding: set[str] = set()
        self.hazards: list[Hazard] = []
        self._context: list[str] = []
        self._class_tables: dict[str, dict[str, Any]] = {}

    # ------------------------------------------------------------------ modules
    def env(self, modname: str) -> dict[str, Any]:
        if modname in self._envs:
            return self._envs[modname]
        if modname not in self.repo.modules:
            return {}
        if modname in self._folding:
            return self._envs.setdefault(modname + "#partial", {})
        self._folding.add(modname)
        env: dict[str, Any] = {}
        self._envs[modname] = env
        mod = self.repo.modules[modname]
        self._exec_module(mod, mod.tree.body, env)
        self._folding.discard(modname)
        return env

    def value(self, modname: str, name: str) -> Any:
        env = self.env(modname)
        if name not in env:
            raise AnalysisError(f"anchor vanished: constant {modname}.{name}")
        return env[name]

    def known(self, modname: str, name: str) -> Any:
        v = self.value(modname, name)
        if is_unknown(v):
            raise AnalysisError(f"cannot fold {modname}.{name}: {v.why}")
        return v

    def _exec_module(self, mod: Module, body: list[ast.stmt], env: dict[str, Any]) -> None:
        for st in body:
            try:
                self._module_stmt(mod, st, env)
            except _ReturnValue:
                pass

    def _module_stmt(self, mod: Module, st: ast.stmt, env: dict[str, Any]) -> None:
        if isinstance(st, (ast.Import, ast.ImportFrom)):
            return  # resolved lazily through mod.imports
        if isinstance(st, ast.ClassDef):
            env[st.name] = ClassVal(f"{mod.name}.{st.name}", st, mod.name)
            return
        if isinstance(st, (ast.FunctionDef, ast.AsyncFunctionDef)):
            env[st.name] = FuncVal(f"{mod.name}.{st.name}", st, mod.name)  # type: ignore[arg-type]
            return
        if isinstance(st, ast.Assign):
            self._context.append(f"{mod.name}.{ast.unparse(st.targets[0])}")
            val = self.fold(st.value, mod, env)
            self._context.pop()
            for t in st.targets:
                self._assign(t, val, env)
            return
        if isinstance(st, ast.AnnAssign):
            if st.value is not None and isinstance(st.target, ast.Name):
                self._context.append(f"{mod.name}.{st.target.id}")
                env[st.target.id] = self.fold(st.value, mod, env)
                self._context.pop()
            return
        if isinstance(st, ast.Expr):
            if isinstance(st.value, ast.Call):
                self.fold(st.value, mod, env)  # list.extend / remove on module constants
            return
        if isinstance(st, ast.If):
            # e.g. `if TYPE_CHECKING:` / gettext set-up: not needed for constants
            return
        if isinstance(st, ast.Try):
            self._exec_module(mod, st.body, env)
            return
        # anything else is irrelevant to constants

    def _assign(self, target: ast.AST, val: Any, env: dict[str, Any]) -> None:
        if isinstance(target, ast.Name):
            env[target.id] = val
        elif isinstance(target, (ast.Tuple, ast.List)):
            if isinstance(val, (tuple, list)) and len(val) == len(target.elts):
                for t, v in zip(target.elts, val):
                    self._assign(t, v, env)
            else:
                for t in target.elts:
                    self._assign(t, Unknown("unpack"), env)

    # ------------------------------------------------------------------ names
    def lookup(self, name: str, mod: Module, env: dict[str, Any]) -> Any:
        if name in env:
            return env[name]
        menv = self.env(mod.name)
        if name in menv:
            return menv[name]
        if name in mod.imports:
            target = mod.imports[name]
            if target in self.repo.modules:
                return ("module", target)
            head, _, tail = target.rpartition(".")
            if head in self.repo.modules:
                oenv = self.env(head)
                if tail in oenv:
                    return oenv[tail]
                return Unknown(f"{target} not folded")
            return ("extern", target)
        if name in _BUILTINS:
            return ("builtin", name)
        return Unknown(f"name {name}")

    # ------------------------------------------------------------------ classes
    def class_table(self, cls: ClassVal) -> dict[str, Any]:
        """Class-level attributes through the MRO (single inheritance chains)."""
        if cls.qual in self._class_tables:
            return self._class_tables[cls.qual]
        table: dict[str, Any] = {}
        self._class_tables[cls.qual] = table
        mod = self.repo.modules[cls.module]
        for base in cls.node.bases:
            bval = self.fold(base, mod, {})
            if isinstance(bval, ClassVal):
                table.update(self.class_table(bval))
        local: dict[str, Any] = {}
        for st in cls.node.body:
            if isinstance(st, ast.Assign):
                val = self.fold(st.value, mod, local)
                for t in st.targets:
                    if isinstance(t, ast.Name):
                        local[t.id] = val
            elif isinstance(st, ast.AnnAssign) and st.value is not None and isinstance(st.target, ast.Name):
                local[st.target.id] = self.fold(st.value, mod, local)
            elif isinstance(st, ast.FunctionDef):
                local[st.name] = FuncVal(f"{cls.qual}.{st.name}", st, cls.module)
        table.update(local)
        table["__name__"] = cls.node.name
        return table

    def bases(self, cls: ClassVal) -> list[ClassVal]:
        out = []
        mod = self.repo.modules[cls.module]
        for base in cls.node.bases:
            bval = self.fold(base, mod, {})
            if isinstance(bval, ClassVal):
                out.append(bval)
                out.extend(self.bases(bval))
        return out

    def base_names(self, cls: ClassVal) -> list[str]:
        names = []
        for base in cls.node.bases:
            names.append(ast.unparse(base).split(".")[-1])
        for b in self.bases(cls):
            for base in b.node.bases:
                names.append(ast.unparse(base).split(".")[-1])
        return names

    # ------------------------------------------------------------------ expressions
    def fold(self, e: ast.AST, mod: Module, env: dict[str, Any]) -> Any:
        try:
            return self._fold(e, mod, env)
        except _ReturnValue:
            raise
        except AnalysisError:
            raise
        except RecursionError:
            return Unknown("recursion")
        except Exception as err:  # whitelisted operation failed on these operands
            return Unknown(f"{type(err).__name__}: {err}")

    def _fold(self, e: ast.AST, mod: Module, env: dict[str, Any]) -> Any:
        if isinstance(e, ast.Constant):
            return e.value
        if isinstance(e, ast.Name):
            return self.lookup(e.id, mod, env)
        if isinstance(e, ast.JoinedStr):
            parts = []
            for p in e.values:
                if isinstance(p, ast.Constant):
                    parts.append(str(p.value))
                elif isinstance(p, ast.FormattedValue):
                    v = self._fold(p.value, mod, env)
                    if is_unknown(v) or not isinstance(v, (str, int)):
                        return Unknown("f-string part")
                    parts.append(str(v))
            return "".join(parts)
        if isinstance(e, (ast.List, ast.Tuple)):
            items = []
            for x in e.elts:
                if isinstance(x, ast.Starred):
                    v = self._fold(x.value, mod, env)
                    if is_unknown(v):
                        return v
                    items.extend(self._iter(v, x))
                else:
                    items.append(self._fold(x, mod, env))
            return items if isinstance(e, ast.List) else tuple(items)
        if isinstance(e, ast.Set):
            return USet(self._hashable(self._fold(x, mod, env)) for x in e.elts)
        if isinstance(e, ast.Dict):
            d = {}
            for k, v in zip(e.keys, e.values):
                if k is None:
                    inner = self._fold(v, mod, env)
                    if not isinstance(inner, dict):
                        return Unknown("dict splat")
                    d.update(inner)
                else:
                    d[self._hashable(self._fold(k, mod, env))] = self._fold(v, mod, env)
            return d
        if isinstance(e, ast.BinOp):
            l = self._fold(e.left, mod, env)
            r = self._fold(e.right, mod, env)
            if is_unknown(l) or is_unknown(r):
                return Unknown("binop operand")
            if isinstance(e.op, ast.Add):
                return l + r
            if isinstance(e.op, ast.Mod) and isinstance(l, str):
                return l % r
            if isinstance(e.op, ast.BitOr):
                return l | r
            if isinstance(e.op, ast.Mult):
                return l * r
            if isinstance(e.op, ast.Sub):
                return l - r
            return Unknown("binop")
        if isinstance(e, ast.UnaryOp):
            v = self._fold(e.operand, mod, env)
            if is_unknown(v):
                return v
            if isinstance(e.op, ast.Not):
                return not self._truth(v)
            if isinstance(e.op, ast.USub):
                return -v
            return Unknown("unary")
        if isinstance(e, ast.BoolOp):
            cur = None
            for x in e.values:
                cur = self._fold(x, mod, env)
                if is_unknown(cur):
                    return cur
                t = self._truth(cur)
                if isinstance(e.op, ast.And) and not t:
                    return cur
                if isinstance(e.op, ast.Or) and t:
                    return cur
            return cur
        if isinstance(e, ast.Compare):
            left = self._fold(e.left, mod, env)
            for op, c in zip(e.ops, e.comparators):
                right = self._fold(c, mod, env)
                if is_unknown(left) or is_unknown(right):
                    return Unknown("compare")
                ok = self._compare(op, left, right)
                if is_unknown(ok):
                    return ok
                if not ok:
                    return False
                left = right
            return True
        if isinstance(e, ast.IfExp):
            t = self._fold(e.test, mod, env)
            if is_unknown(t):
                return t
            return self._fold(e.body if self._truth(t) else e.orelse, mod, env)
        if isinstance(e, ast.Attribute):
            base = self._fold(e.value, mod, env)
            return self._getattr(base, e.attr, e, mod)
        if isinstance(e, ast.Subscript):
            base = self._fold(e.value, mod, env)
            if is_unknown(base):
                return base
            if isinstance(e.slice, ast.Slice):
                lo = self._fold(e.slice.lower, mod, env) if e.slice.lower else None
                hi = self._fold(e.slice.upper, mod, env) if e.slice.upper else None
                st = self._fold(e.slice.step, mod, env) if e.slice.step else None
                return base[lo:hi:st]
            idx = self._fold(e.slice, mod, env)
            if is_unknown(idx):
                return idx
            if isinstance(base, tuple) and base and base[0] in ("builtin", "extern"):
                return Unknown("generic alias")
            if isinstance(base, Record):
                return base.astuple()[idx]
            return base[idx]
        if isinstance(e, (ast.ListComp, ast.SetComp, ast.GeneratorExp, ast.DictComp)):
            return self._comp(e, mod, env)
        if isinstance(e, ast.Call):
            return self._call(e, mod, env)
        if isinstance(e, ast.NamedExpr):
            v = self._fold(e.value, mod, env)
            self._assign(e.target, v, env)
            return v
        if isinstance(e, ast.Lambda):
            return ("lambda", e, mod, dict(env))
        if isinstance(e, ast.Starred):
            return self._fold(e.value, mod, env)
        return Unknown(type(e).__name__)

    def _hashable(self, v: Any) -> Any:
        if isinstance(v, list):
            return tuple(v)
        return v

    def _truth(self, v: Any) -> bool:
        if isinstance(v, USet):
            return bool(v.items)
        if isinstance(v, (ClassVal, FuncVal, Regex, Record)):
            return True
        return bool(v)

    def _compare(self, op: ast.cmpop, a: Any, b: Any) -> Any:
        if isinstance(op, ast.Eq):
            return a == b
        if isinstance(op, ast.NotEq):
            return a != b
        if isinstance(op, ast.Is):
            return a is b
        if isinstance(op, ast.IsNot):
            return a is not b
        if isinstance(op, ast.In):
            return a in (b.items if isinstance(b, USet) else b)
        if isinstance(op, ast.NotIn):
            return a not in (b.items if isinstance(b, USet) else b)
        if isinstance(op, ast.Lt):
            return a < b
        if isinstance(op, ast.Gt):
            return a > b
        if isinstance(op, ast.LtE):
            return a <= b
        if isinstance(op, ast.GtE):
            return a >= b
        return Unknown("cmp")

    def _iter(self, v: Any, node: ast.AST, ordered_use: bool = True) -> list:
        if isinstance(v, USet):
            if ordered_use:
                self.hazard(node, "iteration order of a set reaches an order-sensitive consumer")
            return v.canonical()
        if isinstance(v, _Unordered):
            if ordered_use:
                self.hazard(node, "iteration order of a set-derived sequence reaches an order-sensitive consumer")
            return list(v.items)
        if isinstance(v, _Gen):
            return list(v.items)
        if isinstance(v, dict):
            return list(v.keys())
        if isinstance(v, (list, tuple, str)):
            return list(v)
        if isinstance(v, Record):
            return list(v.astuple())
        raise TypeError("not iterable in the folder")

    def hazard(self, node: ast.AST, what: str) -> None:
        try:
            where = self.repo.loc(node)
        except Exception:
            where = "?"
        self.hazards.append(Hazard(where, what, self._context[-1] if self._context else ""))

    def _comp(self, e: ast.AST, mod: Module, env: dict[str, Any]) -> Any:
        results: list = []
        ordered_result = not isinstance(e, (ast.SetComp, ast.DictComp))

        def rec(i: int, scope: dict[str, Any]) -> None:
            if i == len(e.generators):  # type: ignore[attr-defined]
                if isinstance(e, ast.DictComp):
                    results.append((self._fold(e.key, mod, scope), self._fold(e.value, mod, scope)))
                else:
                    results.append(self._fold(e.elt, mod, scope))  # type: ignore[attr-defined]
                return
            gen = e.generators[i]  # type: ignore[attr-defined]
            it = self._fold(gen.iter, mod, scope)
            if is_unknown(it):
                raise ValueError(f"comprehension iterable unknown: {it.why}")
            for item in self._iter(it, gen.iter, ordered_use=False):
                inner = dict(scope)
                self._assign(gen.target, item, inner)
                ok = True
                for cond in gen.ifs:
                    c = self._fold(cond, mod, inner)
                    if is_unknown(c):
                        raise ValueError("comprehension filter unknown")
                    if not self._truth(c):
                        ok = False
                        break
                if ok:
                    rec(i + 1, inner)

        src_unordered = False
        for gen in e.generators:  # type: ignore[attr-defined]
            it = self._fold(gen.iter, mod, env)
            if isinstance(it, USet):
                src_unordered = True
        rec(0, dict(env))
        if isinstance(e, ast.SetComp):
            return USet(self._hashable(r) for r in results)
        if isinstance(e, ast.DictComp):
            return {self._hashable(k): v for k, v in results}
        if src_unordered and ordered_result:
            # an ordered sequence built from a set: order-carrying value
            return _Unordered(results)
        return results if isinstance(e, ast.ListComp) else _Gen(results)

    # ------------------------------------------------------------------ calls
    def _call(self, e: ast.Call, mod: Module, env: dict[str, Any]) -> Any:
        # method calls on folded receivers
        if isinstance(e.func, ast.Attribute):
            recv = self._fold(e.func.value, mod, env)
            if not (isinstance(recv, tuple) and recv and recv[0] in ("module", "extern", "builtin")):
                return self._method(recv, e.func.attr, e, mod, env)
        fn = self._fold(e.func, mod, env)
        args = [self._fold(a, mod, env) for a in e.args if not isinstance(a, ast.Starred)]
        for a in e.args:
            if isinstance(a, ast.Starred):
                v = self._fold(a.value, mod, env)
                if is_unknown(v):
                    return v
                args.extend(self._iter(v, a))
        kwargs = {kw.arg: self._fold(kw.value, mod, env) for kw in e.keywords if kw.arg}
        if is_unknown(fn):
            return fn
        if isinstance(fn, ClassVal):
            return self._construct(fn, args, kwargs)
        if isinstance(fn, FuncVal):
            return self._apply(fn, args, kwargs)
        if isinstance(fn, tuple) and fn and fn[0] in ("builtin", "extern"):
            return self._extern(fn[1], args, kwargs, e, mod, env)
        if isinstance(fn, tuple) and fn and fn[0] == "lambda":
            return self._apply_lambda(fn, args)
        if isinstance(fn, _Callable):
            return fn.fn(*args)
        return Unknown(f"call of {type(fn).__name__}")

    def _apply_lambda(self, fn: tuple, args: list) -> Any:
        _, node, mod, env = fn
        scope = dict(env)
        for p, a in zip(node.args.args, args):
            scope[p.arg] = a
        return self._fold(node.body, mod, scope)

    def _construct(self, cls: ClassVal, args: list, kwargs: dict) -> Any:
        bases = self.base_names(cls)
        if "NamedTuple" in bases:
            fields = [st.target.id for st in cls.node.body
                      if isinstance(st, ast.AnnAssign) and isinstance(st.target, ast.Name)]
            vals = list(args) + [None] * (len(fields) - len(args))
            for k, v in kwargs.items():
                if k in fields:
                    vals[fields.index(k)] = v
            return Record(cls.qual, tuple(zip(fields, vals)))
        if "Enum" in bases and len(args) == 1:
            for k, v in self.class_table(cls).items():
                if isinstance(v, EnumMember) and v.value == args[0]:
                    return v
        return Unknown(f"instance of {cls.qual}")

    def _getattr(self, base: Any, attr: str, node: ast.AST, mod: Module) -> Any:
        if is_unknown(base):
            return base
        if isinstance(base, tuple) and base and base[0] == "module":
            oenv = self.env(base[1])
            if attr in oenv:
                return oenv[attr]
            sub = f"{base[1]}.{attr}"
            if sub in self.repo.modules:
                return ("module", sub)
            return Unknown(f"{base[1]}.{attr}")
        if isinstance(base, tuple) and base and base[0] in ("extern", "builtin"):
            return (base[0], f"{base[1]}.{attr}")
        if isinstance(base, ClassVal):
            table = self.class_table(base)
            if attr in table:
                v = table[attr]
                if "Enum" in self.base_names(base) and not isinstance(v, (FuncVal, EnumMember)) and not attr.startswith("_"):
                    v = EnumMember(base.qual, attr, v)
                    table[attr] = v
                return v
            return Unknown(f"{base.qual}.{attr}")
        if isinstance(base, Record):
            return base.get(attr)
        if isinstance(base, EnumMember):
            if attr == "value":
                return base.value
            if attr == "name":
                return base.name
        if isinstance(base, Regex) and attr == "pattern":
            return base.pattern
        return Unknown(f"attribute {attr} of {type(base).__name__}")

    _STR_METHODS = {
        "format", "join", "lower", "upper", "strip", "lstrip", "rstrip", "startswith", "endswith",
        "replace", "split", "splitlines", "removeprefix", "removesuffix", "title", "capitalize",
        "isidentifier", "encode",
    }

    def _method(self, recv: Any, name: str, e: ast.Call, mod: Module, env: dict[str, Any]) -> Any:
        if is_unknown(recv):
            return recv
        args = [self._fold(a, mod, env) for a in e.args]
        kwargs = {kw.arg: self._fold(kw.value, mod, env) for kw in e.keywords if kw.arg}
        if any(is_unknown(a) for a in args) or any(is_unknown(v) for v in kwargs.values()):
            return Unknown(f"argument of .{name}()")
        if isinstance(recv, str) and name in self._STR_METHODS:
            if name == "join":
                seq = args[0]
                if isinstance(seq, (USet, _Unordered)):
                    self.hazard(e, f"str.join consumes a set in iteration order (separator {recv!r})")
                    seq = seq.canonical() if isinstance(seq, USet) else seq.items
                elif isinstance(seq, _Gen):
                    seq = seq.items
                return recv.join(seq)
            return getattr(recv, name)(*args, **kwargs)
        if isinstance(recv, list):
            if name == "append":
                recv.append(args[0])
                return None
            if name == "extend":
                recv.extend(self._iter(args[0], e))
                return None
            if name == "remove":
                for i, x in enumerate(recv):
                    if x is args[0] or x == args[0]:
                        del recv[i]
                        return None
                raise ValueError("list.remove(x): x not in list")
            if name == "copy":
                return list(recv)
            if name == "index":
                return recv.index(args[0])
        if isinstance(recv, dict):
            if name == "items":
                return [(k, v) for k, v in recv.items()]
            if name == "keys":
                return list(recv.keys())
            if name == "values":
                return list(recv.values())
            if name == "get":
                return recv.get(args[0], args[1] if len(args) > 1 else None)
            if name == "copy":
                return dict(recv)
            if name == "update":
                recv.update(args[0])
                return None
        if isinstance(recv, USet):
            if name in ("union", "intersection", "difference"):
                other = args[0].items if isinstance(args[0], USet) else set(args[0])
                return USet(getattr(recv.items, name)(other))
        if isinstance(recv, ClassVal):
            table = self.class_table(recv)
            fn = table.get(name)
            if isinstance(fn, FuncVal):
                decos = [ast.unparse(d) for d in fn.node.decorator_list]
                if "classmethod" in decos:
                    return self._apply(fn, [recv] + args, kwargs)
                if "staticmethod" in decos:
                    return self._apply(fn, args, kwargs)
        if isinstance(recv, FuncVal) or isinstance(recv, tuple):
            return Unknown("method on function")
        return Unknown(f"method {type(recv).__name__}.{name}")

    def _extern(self, name: str, args: list, kwargs: dict, e: ast.Call, mod: Module, env: dict) -> Any:
        if any(is_unknown(a) for a in args):
            return Unknown(f"argument of {name}")
        if name == "re.compile":
            flags = args[1] if len(args) > 1 else kwargs.get("flags", 0)
            if isinstance(flags, tuple):
                flags = _FLAGS.get(flags[1].removeprefix("re."), None)
            if flags is None or is_unknown(flags):
                return Unknown("regex flags")
            return Regex(args[0], int(flags))
        if name == "re.escape":
            return re.escape(args[0])
        if name == "dict.fromkeys" and args:
            seq = args[0]
            if isinstance(seq, (USet, _Unordered)) or (isinstance(seq, _Gen) and getattr(seq, "unordered", False)):
                self.hazard(e, "dict.fromkeys() of a set keeps its iteration order")
            items = seq.items if isinstance(seq, (_Gen, _Unordered)) else self._iter(seq, e)
            out_l: list = []
            for x in items:
                if x not in out_l:
                    out_l.append(x)
            return out_l  # used for its keys in definition order (iteration / join); values are not modelled
        if name in ("itertools.chain", "chain"):
            out: list = []
            unordered = False
            for a in args:
                if isinstance(a, (USet, _Unordered)):
                    unordered = True
                out.extend(self._iter(a, e, ordered_use=False) if not isinstance(a, (_Gen, _Unordered)) else a.items)
            return _Unordered(out) if unordered else _Gen(out)
        if name == "operator.attrgetter":
            attr = args[0]
            return _Callable(lambda obj: self._getattr(obj, attr, e, mod))
        if name == "globals":
            return dict(self.env(mod.name))
        if name == "sorted":
            seq = args[0]
            items = seq.items if isinstance(seq, (_Gen, _Unordered)) else self._iter(seq, e, ordered_use=False)
            key = kwargs.get("key")
            rev = bool(kwargs.get("reverse", False))
            if key is None:
                return sorted(items, key=lambda x: x if isinstance(x, (str, int, float, tuple)) else repr(x), reverse=rev)
            keyed = [(self._callv(key, [x]), x) for x in items]
            if isinstance(seq, (USet, _Unordered)) or (isinstance(seq, _Gen) and getattr(seq, "unordered", False)):
                ks = [k for k, _ in keyed]
                if len(set(map(repr, ks))) != len(ks):
                    # sorted() is stable: elements that tie under the key keep the iteration order of the set
                    ties = sorted({repr(k) for k in ks if ks.count(k) > 1})[:3]
                    self.hazard(e, f"sorted(<set>, key=...) with ties under the key (keys {ties}): tied elements keep the set's iteration order")
            # canonical tie-break by the element itself, so that the folded value is one definite representative
            return [x for _, x in sorted(keyed, key=lambda kx: (kx[0], repr(kx[1])), reverse=rev)]
        if name in ("list", "tuple"):
            if not args:
                return [] if name == "list" else ()
            seq = args[0]
            if isinstance(seq, USet):
                self.hazard(e, f"{name}() of a set keeps its iteration order")
                return _Unordered(seq.canonical())
            if isinstance(seq, _Unordered):
                return seq
            items = seq.items if isinstance(seq, _Gen) else self._iter(seq, e)
            return list(items) if name == "list" else tuple(items)
        if name in ("set", "frozenset"):
            if not args:
                return USet(())
            seq = args[0]
            items = seq.items if isinstance(seq, (_Gen, _Unordered)) else self._iter(seq, e, ordered_use=False)
            return USet(self._hashable(i) for i in items)
        if name == "dict":
            if not args:
                return dict(kwargs)
            return dict(args[0])
        if name == "len":
            a = args[0]
            return len(a.items) if isinstance(a, (USet, _Gen, _Unordered)) else len(a)
        if name == "str":
            return str(args[0]) if isinstance(args[0], (str, int)) else Unknown("str()")
        if name == "bool":
            return self._truth(args[0])
        if name == "all":
            seq = args[0].items if isinstance(args[0], (_Gen, _Unordered, USet)) else args[0]
            return all(self._truth(x) for x in seq)
        if name == "any":
            seq = args[0].items if isinstance(args[0], (_Gen, _Unordered, USet)) else args[0]
            return any(self._truth(x) for x in seq)
        if name == "getattr":
            return self._getattr(args[0], args[1], e, mod)
        if name == "isinstance":
            return Unknown("isinstance")
        if name in ("typing.cast", "cast"):
            return args[1]
        if name.startswith("re.") and name[3:] in _FLAGS:
            return _FLAGS[name[3:]]
        return Unknown(f"call {name}")

    def _callv(self, fn: Any, args: list) -> Any:
        if isinstance(fn, _Callable):
            return fn.fn(*args)
        if isinstance(fn, tuple) and fn and fn[0] == "lambda":
            return self._apply_lambda(fn, args)
        if isinstance(fn, FuncVal):
            return self._apply(fn, args, {})
        if isinstance(fn, tuple) and len(fn) == 2 and fn[0] == "builtin" and fn[1] in ("len", "str", "repr", "int", "bool"):
            return {"len": len, "str": str, "repr": repr, "int": int, "bool": bool}[fn[1]](*args)
        if isinstance(fn, tuple) and len(fn) == 2 and fn[0] == "extern" and fn[1] in ("builtins.str.casefold", "str.casefold", "str.lower", "str.upper"):
            return getattr(str, fn[1].rsplit(".", 1)[-1])(*args)
        raise TypeError("not callable in the folder")

    # ------------------------------------------------------------------ function bodies
    def _apply(self, fn: FuncVal, args: list, kwargs: dict, depth: int = 0) -> Any:
        mod = self.repo.modules[fn.module]
        scope: dict[str, Any] = {}
        params = fn.node.args.args
        defaults = fn.node.args.defaults
        for i, p in enumerate(params):
            if i < len(args):
                scope[p.arg] = args[i]
            elif p.arg in kwargs:
                scope[p.arg] = kwargs[p.arg]
            else:
                di = i - (len(params) - len(defaults))
                scope[p.arg] = self._fold(defaults[di], mod, {}) if di >= 0 else Unknown("missing arg")
        if fn.node.args.vararg is not None:
            scope[fn.node.args.vararg.arg] = tuple(args[len(params):])
        for p, d in zip(fn.node.args.kwonlyargs, fn.node.args.kw_defaults):
            if p.arg in kwargs:
                scope[p.arg] = kwargs[p.arg]
            else:
                scope[p.arg] = self._fold(d, mod, {}) if d is not None else Unknown("missing arg")
        try:
            self._exec(fn.node.body, mod, scope)
        except _ReturnValue as r:
            return r.value
        except _CannotExec as err:
            return Unknown(f"{fn.qual}: {err}")
        return None

    def _exec(self, body: list[ast.stmt], mod: Module, scope: dict[str, Any]) -> None:
        for st in body:
            if isinstance(st, ast.Expr):
                if isinstance(st.value, ast.Constant):
                    continue
                if isinstance(st.value, ast.Call) and ast.unparse(st.value.func).split(".")[0] in ("_LOGGER", "logging", "_LOG", "logger", "warnings"):
                    continue   # a log line has no influence on the value being folded
                v = self.fold(st.value, mod, scope)
                if is_unknown(v):
                    raise _CannotExec(f"line {st.lineno}: {v.why}")
            elif isinstance(st, ast.Assign):
                v = self.fold(st.value, mod, scope)
                for t in st.targets:
                    self._assign(t, v, scope)
            elif isinstance(st, ast.AnnAssign):
                if st.value is not None:
                    self._assign(st.target, self.fold(st.value, mod, scope), scope)
            elif isinstance(st, ast.AugAssign) and isinstance(st.target, ast.Name):
                cur = scope.get(st.target.id, Unknown("aug"))
                v = self.fold(st.value, mod, scope)
                if is_unknown(cur) or is_unknown(v) or not isinstance(st.op, ast.Add):
                    raise _CannotExec(f"line {st.lineno}: augmented assignment")
                scope[st.target.id] = cur + v
            elif isinstance(st, ast.Return):
                raise _ReturnValue(self.fold(st.value, mod, scope) if st.value else None)
            elif isinstance(st, ast.If):
                c = self.fold(st.test, mod, scope)
                if is_unknown(c):
                    raise _CannotExec(f"line {st.lineno}: condition {c.why}")
                self._exec(st.body if self._truth(c) else st.orelse, mod, scope)
            elif isinstance(st, ast.For):
                it = self.fold(st.iter, mod, scope)
                if is_unknown(it):
                    raise _CannotExec(f"line {st.lineno}: iterable {it.why}")
                items = it.items if isinstance(it, (_Gen, _Unordered)) else self._iter(it, st.iter)
                for item in items:
                    self._assign(st.target, item, scope)
                    self._exec(st.body, mod, scope)
            elif isinstance(st, ast.Pass):
                continue
            else:
                raise _CannotExec(f"line {st.lineno}: statement {type(st).__name__}")


class _CannotExec(Exception):
    pass


class _Callable:
    def __init__(self, fn):
        self.fn = fn


class _Gen:
    """Ordered lazily-consumed sequence (generator expression / chain)."""

    def __init__(self, items: list):
        self.items = items


class _Unordered:
    """A sequence whose order was inherited from a set."""

    def __init__(self, items: list):
        self.items = items

    def canonical(self) -> list:
        return self.items


_FLAGS = {name: int(getattr(re, name)) for name in
          ("MULTILINE", "M", "IGNORECASE", "I", "DOTALL", "S", "VERBOSE", "X", "ASCII", "A")}

_BUILTINS = {
    "sorted", "list", "tuple", "set", "frozenset", "dict", "len", "str", "bool", "all", "any",
    "getattr", "isinstance", "globals", "int", "map", "filter", "zip", "enumerate", "reversed",
    "min", "max", "sum", "print", "type", "hasattr", "iter", "next", "open", "repr", "super",
}
