"""Dump type facts of src/reuse with mypy used as a library (subprocess; ends with os._exit).

usage: mypy_dump.py <repo-root> <out.json>
Facts per module: calls [(line, col, end_line, end_col, callee_fullname|None, receiver_type|None, n_args)]
                  types [(line, col, end_line, end_col, kind, type_str)]   for Name/Member/Call/Index/Set* expressions
                  classes {fullname: [mro fullnames]}
Nothing of `reuse` is imported or executed: mypy only parses and type-checks the sources.
"""
import json
import os
import sys


def main() -> None:
    root, out = sys.argv[1], sys.argv[2]
    os.chdir(root)
    from mypy import build
    from mypy.find_sources import create_source_list
    from mypy.nodes import (CallExpr, Expression, IndexExpr, MemberExpr, MypyFile, NameExpr, Node, RefExpr, SetComprehension,
                            SetExpr, TypeInfo, SuperExpr)
    from mypy.options import Options
    from mypy.types import AnyType, CallableType, Instance, Overloaded, TypeType, UnionType, get_proper_type, NoneType

    opts = Options()
    opts.preserve_asts = True
    opts.export_types = True
    opts.incremental = False
    opts.cache_dir = os.devnull
    opts.mypy_path = ["src"]
    opts.namespace_packages = True
    opts.explicit_package_bases = True
    opts.python_executable = sys.executable
    sources = create_source_list(["src/reuse"], opts)
    res = build.build(sources, opts)
    types = res.types

    SKIP = {"node", "info", "type", "defn", "func", "impl", "var", "target", "mro", "analyzed", "unanalyzed_type",
            "type_annotation", "original_def", "definition", "names", "imports", "plugin_deps", "alt_names", "defs_",
            "is_typed_dict", "type_guard"}

    def pos(n):
        return (getattr(n, "line", -1), getattr(n, "column", -1), getattr(n, "end_line", None), getattr(n, "end_column", None))

    def type_name(t) -> str:
        try:
            return str(t)
        except Exception:
            return "?"

    def owner_of(info: TypeInfo, name: str):
        for base in info.mro:
            if name in base.names:
                return base.fullname + "." + name
        return None

    def resolve_callee(call: CallExpr):
        cal = call.callee
        recv = None
        full = None
        if isinstance(cal, NameExpr):
            full = cal.fullname or None
            n = cal.node
            if isinstance(n, TypeInfo):
                full = n.fullname
        elif isinstance(cal, MemberExpr):
            if cal.fullname:
                full = cal.fullname
            rt = types.get(cal.expr)
            if rt is not None:
                p = get_proper_type(rt)
                recv = type_name(p)
                cands = []
                items = p.items if isinstance(p, UnionType) else [p]
                for it in items:
                    it = get_proper_type(it)
                    if isinstance(it, Instance):
                        o = owner_of(it.type, cal.name)
                        if o:
                            cands.append(o)
                    elif isinstance(it, TypeType) and isinstance(get_proper_type(it.item), Instance):
                        o = owner_of(get_proper_type(it.item).type, cal.name)
                        if o:
                            cands.append(o)
                    elif isinstance(it, CallableType) and it.is_type_obj():
                        o = owner_of(it.type_object(), cal.name)
                        if o:
                            cands.append(o)
                    elif isinstance(it, Overloaded) and it.items and it.items[0].is_type_obj():
                        o = owner_of(it.items[0].type_object(), cal.name)
                        if o:
                            cands.append(o)
                if cands and not full:
                    full = "|".join(sorted(set(cands)))
        elif isinstance(cal, SuperExpr):
            full = "super()." + cal.name
        # calling a variable that holds a class (Type[X]) constructs X (or a subclass)
        from mypy.nodes import Var
        if isinstance(cal, RefExpr) and isinstance(cal.node, Var):
            ct = types.get(cal)
            p = get_proper_type(ct) if ct is not None else None
            cls_name = None
            if isinstance(p, TypeType) and isinstance(get_proper_type(p.item), Instance):
                cls_name = get_proper_type(p.item).type.fullname
            elif isinstance(p, CallableType) and p.is_type_obj():
                cls_name = p.type_object().fullname
            elif isinstance(p, Overloaded) and p.items and p.items[0].is_type_obj():
                cls_name = p.items[0].type_object().fullname
            if cls_name:
                full = "type:" + cls_name
        return full, recv

    out_data = {}
    for modname, mf in res.files.items():
        if not (modname == "reuse" or modname.startswith("reuse.")):
            continue
        calls = []
        tys = []
        seen = set()
        stack = [mf]
        while stack:
            n = stack.pop()
            if id(n) in seen:
                continue
            seen.add(id(n))
            if isinstance(n, Expression):
                if isinstance(n, CallExpr):
                    full, recv = resolve_callee(n)
                    calls.append(list(pos(n)) + [full, recv, len(n.args)])
                if isinstance(n, (NameExpr, MemberExpr, CallExpr, IndexExpr, SetExpr, SetComprehension)):
                    t = types.get(n)
                    if t is not None:
                        tys.append(list(pos(n)) + [type(n).__name__, type_name(get_proper_type(t))])
            from mypy.nodes import Decorator, OverloadedFuncDef
            for attr in dir(type(n)):
                if attr.startswith("_"):
                    continue
                if attr in SKIP and not (isinstance(n, Decorator) and attr == "func") \
                        and not (isinstance(n, OverloadedFuncDef) and attr == "impl"):
                    continue
                try:
                    v = getattr(n, attr)
                except Exception:
                    continue
                if isinstance(v, Node):
                    if not isinstance(v, (TypeInfo, MypyFile)):
                        stack.append(v)
                elif isinstance(v, (list, tuple)):
                    for x in v:
                        if isinstance(x, Node) and not isinstance(x, (TypeInfo, MypyFile)):
                            stack.append(x)
                        elif isinstance(x, (list, tuple)):
                            for y in x:
                                if isinstance(y, Node) and not isinstance(y, (TypeInfo, MypyFile)):
                                    stack.append(y)
        out_data[modname] = {"calls": calls, "types": tys}
    classes = {}
    for modname, mf in res.files.items():
        for name, sym in mf.names.items():
            if isinstance(sym.node, TypeInfo) and (modname.startswith(("reuse", "builtins", "click", "jinja2", "tomlkit", "debian",
                                                                       "license_expression", "boolean", "urllib", "json"))
                                                  or sym.node.fullname.startswith("builtins.")):
                classes[sym.node.fullname] = [b.fullname for b in sym.node.mro]
    json.dump({"modules": out_data, "classes": classes, "errors": res.errors[:20]}, open(out, "w"))
    sys.stdout.flush()
    os._exit(0)


if __name__ == "__main__":
    main()
